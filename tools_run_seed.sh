#!/bin/sh
# usage: tools_run_seed.sh <seed id> <property> : run ./check <property> against a scratch worktree with the seeded patch
id="$1"; pid="$2"
wt=$(mktemp -d /tmp/rseed.XXXXXX)
git -C /repo worktree add -q --detach "$wt" HEAD || exit 2
git -C "$wt" apply /verif/seeded/$id/patch.diff || { echo "$id: patch does not apply"; git -C /repo worktree remove --force "$wt"; exit 2; }
cd /verif && PYVC_REPO="$wt" ./check "$pid" --no-evidence 2>&1 | grep -v "^KNOWN-FINDING\|WARNING conda" | cut -c1-260 | tail -${3:-4}
echo "  -> $id vs $pid: exit ${?}"
git -C /repo worktree remove --force "$wt"
