"""Regenerate MANIFEST.json from contracts.TABLE (claimed) and NOT_APPLICABLE below."""
import json, os, sys
sys.path.insert(0, os.path.dirname(os.path.abspath(__file__)))
from contracts import TABLE, NOT_APPLICABLE

props = [json.loads(l) for l in open('/verif/properties.jsonl')]
checks = []
for p in props:
    pid = p['id']
    if pid not in TABLE:
        continue
    t = TABLE[pid]
    checks.append({
        'property_id': pid,
        'quick_cmd': './check %s --tier quick' % pid,
        'thorough_cmd': './check %s --tier thorough' % pid,
        'evidence_file': '/verif/evidence/%s.json' % pid,
        'replay_cmd_template': './check %s --replay {path}' % pid,
        'engine': 'pyvc',
        'level_claimed': {'category': t.get('level', 'proof'), 'text': t['level_text'], 'design_ref': t.get('design_ref', 'DESIGN.md section 5, ' + pid)},
        'level_note': t['level_note'],
        'technique': t.get('technique', 'contract-based deductive verification: VCs generated from the real Python AST by PyVC, discharged by z3 (cvc5/z3-4.8 second opinion); induction by explicit snoc/nat schemas'),
    })
na = [{'property_id': p['id'], 'reason': NOT_APPLICABLE.get(p['id'], 'check not built yet (work in progress; see DESIGN.md section 5)')} for p in props if p['id'] not in TABLE]
m = {
    'version': 1,
    'setup_cmd': './setup.sh',
    'hooks': {'guard': 'BFG9000_VERIF',
              'enable': 'none needed: contracts are sidecars under /verif/contracts keyed by file::qualname; the checks read /repo sources and import the real modules; no hook commit exists in /repo',
              'baseline_off_cmd': 'cd /repo && /venv/bin/python -m pytest -q -p no:cacheprovider --timeout=900 --continue-on-collection-errors',
              'source_commits': [], 'add_only': True},
    'engines': [{'name': 'pyvc', 'path': '/verif/pyvc', 'serves_properties': sorted(TABLE),
                 'kind_free_text': 'own verification-condition generator for a Python subset (AST re-read from /repo on every run), sidecar contracts, fold normaliser + explicit induction schemas, z3 5.1 back end with /usr/bin/z3 4.8.12 and cvc5 1.0.3 as second opinions; native CPython harness for cross-check, bounded stand-ins and replay'}],
    'checks': checks,
    'notes': 'See DESIGN.md. proof = every generated obligation discharged deductively for all inputs; the bounded native runs reported in evidence are cross-checks and are never counted as proved.',
    'not_applicable': na,
}
json.dump(m, open('/verif/MANIFEST.json', 'w'), indent=1)
print('checks:', [c['property_id'] for c in checks])
