#!/bin/sh
# run a python module of /verif with the engine's environment
cd "$(dirname "$0")"
export PYTHONPATH="$PWD/.deps:$PWD:${PYVC_REPO:-/repo}"
export PYTHONDONTWRITEBYTECODE=1
exec /venv/bin/python "$@"
