#!/bin/sh
# run every registered quick check on /repo, report one line each; extra args are passed to ./check (e.g. --write-lock)
cd "$(dirname "$0")"
for p in $(/venv/bin/python -c "import json;print(' '.join(c['property_id'] for c in json.load(open('MANIFEST.json'))['checks']))"); do
  ./check $p "$@" 2>&1 | grep -v "^KNOWN-FINDING\|WARNING conda" | tail -2
done
