#!/bin/sh
# usage: tools_run_seeds_of.sh <jobs> <property>... : like tools_run_all_seeds.sh, for the stored seeds of the named properties
cd /verif
jobs=$1; shift
for p in "$@"; do ls seeded | grep "^$p-" | while read s; do echo "$s $p"; done; done | xargs -P "$jobs" -L 1 sh -c '
  s=$0; p=$1
  out=$(./tools_run_seed.sh "$s" "$p" 400 2>&1)
  if echo "$out" | grep -q "^VIOLATION"; then r=caught
  elif echo "$out" | grep -q "CHECK-ERROR\|does not apply"; then r=error
  elif echo "$out" | grep -q "UNDECIDED"; then r=undecided
  else r=MISSED; fi
  echo "$s $p $r"
'
