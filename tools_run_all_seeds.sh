#!/bin/sh
# usage: tools_run_all_seeds.sh [jobs] : every stored seeded change against the check of its property (scratch worktrees);
# prints one line per seed: <seed> <property> caught|MISSED|undecided|error
cd /verif
jobs=${1:-4}
ls seeded | while read s; do
  p=$(echo "$s" | cut -d- -f1)
  echo "$s $p"
done | xargs -P "$jobs" -L 1 sh -c '
  s=$0; p=$1
  out=$(./tools_run_seed.sh "$s" "$p" 400 2>&1)
  if echo "$out" | grep -q "^VIOLATION"; then r=caught
  elif echo "$out" | grep -q "CHECK-ERROR\|does not apply"; then r=error
  elif echo "$out" | grep -q "UNDECIDED"; then r=undecided
  else r=MISSED; fi
  echo "$s $p $r"
'
