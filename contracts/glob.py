"""Contracts for bfg9000/glob.py (C11): the three-valued matcher against the documented glob semantics.

Path components and component matchers are abstract (uninterpreted sorts Comp / Matcher with a predicate
M(matcher, comp)); a run is an abstract value with its matcher list and its stored `length`.  Everything
else is index arithmetic over `list_view` objects, which is interpreted from the real iterutils.list_view.

Semantics (specs, by recursion; unfolded by instance only):
  MATCHN(ms, d, off, j)        the first j matchers of ms match d[off .. off+j)
  SEM(g, d, hi, lo, m)         the last m runs of g (separated by `**`) match d[lo .. hi):
                                 m = 1: the run matches the *last* k components (a `**` precedes it)
                                 m > 1: for some offset o in [0, W] the run matches at lo+o and the remaining m-1
                                        runs match the rest;  W = hi - lo - (total length of the last m runs)
  EXC(g, d, hi, lo, m, c)      ... for some offset o < c   (bounded existential by recursion on c)
"""
import z3
from pyvc import terms as T
from pyvc.contract import Contract, Lemma, LoopInv, Args
from pyvc.values import Sym, Obj, PList, opaque_sort, fresh_sym
from pyvc import models as MD
from pyvc.interp import Infeasible

import bfg9000.glob as G
from bfg9000.glob import PathGlob
from bfg9000.iterutils import list_view

Result = PathGlob.Result
Comp = opaque_sort('Comp')
Matcher = opaque_sort('Matcher')
Run = opaque_sort('Run')
Comps = z3.SeqSort(Comp)
Matchers = z3.SeqSort(Matcher)
Runs = z3.SeqSort(Run)
COMP_TY = ('opaque', 'Comp')
MATCHER_TY = ('opaque', 'Matcher')

M = z3.Function('M', Matcher, Comp, T.Bool)
run_ms = z3.Function('run_matchers', Run, Matchers)
run_len = z3.Function('run_length', Run, T.Int)

MD.OPAQUE_CALL['Matcher'] = lambda I, f, args: MD.mk_bool(M(f.e, MD.lift(args[0])))


def run_obj(e):
    o = Obj(PathGlob._glob_run, {'matchers': Sym(run_ms(e), ('seq', MATCHER_TY)), 'length': Sym(run_len(e), 'int')})
    o.tuple_items = [o.attrs['matchers'], o.attrs['length']]
    o.run_term = e
    return o


RUN_TY = ('obj', run_obj, Run)

MATCHN = T.RecDef('MATCHN', [Matchers, Comps, T.Int], T.Bool, lambda ms, d, off: z3.BoolVal(True),
                  lambda ms, d, off, k, prev: z3.And(prev, M(ms[k], d[off + k])))

# total length of the last m runs
TOTN = T.RecDef('TOTN', [Runs], T.Int, lambda g: z3.IntVal(0),
                lambda g, k, prev: prev + z3.Length(run_ms(g[z3.Length(g) - (k + 1)])))
# the stored `length` of each of the last m runs is that total
LENOK = T.RecDef('LENOK', [Runs], T.Bool, lambda g: z3.BoolVal(True),
                 lambda g, k, prev: z3.And(prev, run_len(g[z3.Length(g) - (k + 1)]) == TOTN(g, k + 1)))


def ms_of(g, m):
    """matchers of the first of the last m runs"""
    return run_ms(g[z3.Length(g) - m])


def _sem_step(g, d, hi, lo, k, prev):
    m = k + 1
    ms = ms_of(g, m)
    kk = z3.Length(ms)
    last = z3.And(hi - lo >= kk, MATCHN(ms, d, hi - kk, kk))
    wiggle = hi - lo - TOTN(g, m)
    return z3.If(m == 1, last, EXC(g, d, hi, lo, m, wiggle + 1))


SEM = T.RecDef('SEM', [Runs, Comps, T.Int, T.Int], T.Bool, lambda g, d, hi, lo: z3.BoolVal(False), _sem_step)


def _exc_step(g, d, hi, lo, m, k, prev):
    ms = ms_of(g, m)
    kk = z3.Length(ms)
    return z3.Or(prev, z3.And(MATCHN(ms, d, lo + k, kk), SEM(g, d, hi, lo + k + kk, m - 1)))


EXC = T.RecDef('EXC', [Runs, Comps, T.Int, T.Int, T.Int], T.Bool, lambda g, d, hi, lo, m: z3.BoolVal(False), _exc_step)

# no offset below c matches the run
NOM = T.RecDef('NOM', [Matchers, Comps, T.Int, T.Int], T.Bool, lambda ms, d, lo, kk: z3.BoolVal(True),
               lambda ms, d, lo, kk, k, prev: z3.And(prev, z3.Not(MATCHN(ms, d, lo + k, kk))))


def view(data_e, ety, start, stop):
    return Obj(list_view, {'data': Sym(data_e, ('seq', ety)), 'start': start, 'stop': stop})


def view_ok(v):
    s, e = MD.lift(v.attrs['start']), MD.lift(v.attrs['stop'])
    return z3.And(s >= 0, s <= e, e <= z3.Length(v.attrs['data'].e))


def res_is(r, member):
    return r is member


# ---- lemmas ------------------------------------------------------------------------------------------

_g, _d = z3.Const('Lg', Runs), z3.Const('Ld', Comps)
_vars_sem = [('g', Runs), ('d', Comps), ('hi', T.Int), ('lo', T.Int), ('m', T.Int)]

# MATCHN(n) gives every single matcher below n
L_matchn_inst = Lemma('matchn_instance', [('ms', Matchers), ('d', Comps), ('off', T.Int), ('i', T.Int), ('n', T.Int)],
                      lambda ms, d, off, i, n: z3.Implies(z3.And(MATCHN(ms, d, off, n), i >= 0, i < n),
                                                          M(ms[i], d[off + i])),
                      induct=('nat', 'n'))

L_totn_nonneg = Lemma('total_length_nonnegative', [('g', Runs), ('n', T.Int)], lambda g, n: TOTN(g, n) >= 0,
                      induct=('nat', 'n'))

# EXC is monotone in its bound
L_exc_mono = Lemma('exc_monotone', _vars_sem + [('c', T.Int), ('n', T.Int)],
                   lambda g, d, hi, lo, m, c, n: z3.Implies(z3.And(EXC(g, d, hi, lo, m, c), n >= 0),
                                                            EXC(g, d, hi, lo, m, c + n)),
                   induct=('nat', 'n'))

# NOM(c) and o < c  ==>  no match at o
L_nom_inst = Lemma('nom_instance', [('ms', Matchers), ('d', Comps), ('lo', T.Int), ('kk', T.Int), ('o', T.Int), ('c', T.Int)],
                   lambda ms, d, lo, kk, o, c: z3.Implies(z3.And(NOM(ms, d, lo, kk, c), o >= 0, o < c),
                                                          z3.Not(MATCHN(ms, d, lo + o, kk))),
                   induct=('nat', 'c'))

# if no offset below c matches the run, the bounded existential below c is false
L_nom_exc = Lemma('nom_refutes_exc', _vars_sem + [('c', T.Int)],
                  lambda g, d, hi, lo, m, c: z3.Implies(NOM(ms_of(g, m), d, lo, z3.Length(ms_of(g, m)), c),
                                                        z3.Not(EXC(g, d, hi, lo, m, c))),
                  induct=('nat', 'c'))

# shifting the start to the left by dd keeps a bounded existential (offsets grow by dd)
L_shift = Lemma('exc_shift', [('g', Runs), ('d', Comps), ('hi', T.Int), ('lo1', T.Int), ('dd', T.Int), ('m', T.Int), ('c', T.Int)],
                lambda g, d, hi, lo1, dd, m, c: z3.Implies(z3.And(dd >= 0, EXC(g, d, hi, lo1 + dd, m, c)),
                                                           EXC(g, d, hi, lo1, m, c + dd)),
                induct=('nat', 'c'))


def _l2_script(p, phase=None, ih=None, g=None, d=None, hi=None, lo1=None, dd=None, m=None, **kw):
    wig2 = hi - (lo1 + dd) - TOTN(g, m)
    p.use(L_shift.inst(g=g, d=d, hi=hi, lo1=lo1, dd=dd, m=m, c=wig2 + 1))
    p.qed()


# SEM is monotone in lo (a longer path suffix still matches: `**` absorbs the extra components)
L_sem_mono = Lemma('sem_monotone_in_lo', [('g', Runs), ('d', Comps), ('hi', T.Int), ('lo1', T.Int), ('dd', T.Int), ('m', T.Int)],
                   lambda g, d, hi, lo1, dd, m: z3.Implies(z3.And(dd >= 0, m >= 1, SEM(g, d, hi, lo1 + dd, m)),
                                                           SEM(g, d, hi, lo1, m)),
                   script=_l2_script)


def _first_fit_script(p, phase=None, ih=None, g=None, d=None, hi=None, lo=None, m=None, o0=None, c=None, **kw):
    if phase != 'step':
        return p.qed()
    n0 = kw['n0']
    ms = ms_of(g, m)
    kk = z3.Length(ms)
    # the candidate offset examined in this step is o = n0
    p.use(L_nom_inst.inst(ms=ms, d=d, lo=lo, kk=kk, o=n0, c=o0))
    p.use(L_sem_mono.inst(g=g, d=d, hi=hi, lo1=lo + o0 + kk, dd=n0 - o0, m=m - 1))
    p.qed()


# first fit is enough: if no offset below o0 matches, o0 matches and the rest does not match after o0,
# then no offset at all works
L_first_fit = Lemma('first_fit_is_complete', [('g', Runs), ('d', Comps), ('hi', T.Int), ('lo', T.Int), ('m', T.Int), ('o0', T.Int), ('c', T.Int)],
                    lambda g, d, hi, lo, m, o0, c: z3.Implies(
                        z3.And(m >= 2, o0 >= 0, NOM(ms_of(g, m), d, lo, z3.Length(ms_of(g, m)), o0),
                               z3.Not(SEM(g, d, hi, lo + o0 + z3.Length(ms_of(g, m)), m - 1))),
                        z3.Not(EXC(g, d, hi, lo, m, c))),
                    induct=('nat', 'c'), script=_first_fit_script)


# ---- contracts ---------------------------------------------------------------------------------------

class MatchGlobRun(Contract):
    target = 'bfg9000/glob.py::PathGlob._match_glob_run'
    properties = ('C11',)

    def cases(self):
        return ['first', 'later']

    def params(self, cx, case):
        ms = z3.Const('ms', Matchers)
        data = z3.Const('data', Comps)
        run = Obj(PathGlob._glob_run, {'matchers': Sym(ms, ('seq', MATCHER_TY)), 'length': cx.int('rlen')})
        run.tuple_items = [run.attrs['matchers'], run.attrs['length']]
        pb = view(data, COMP_TY, cx.int('ps'), cx.int('pe'))
        return {'self': Obj(PathGlob, {}), 'run': run, 'path_bits': pb, 'first': case == 'first'}

    def requires(self, a):
        return view_ok(a.path_bits)

    def facts(self, a):
        ms = a.run.attrs['matchers'].e
        data = a.path_bits.attrs['data'].e
        ps, pe = MD.lift(a.path_bits.attrs['start']), MD.lift(a.path_bits.attrs['stop'])
        k = z3.Length(ms)
        n = pe - ps
        avail = z3.If(k < n, k, n)
        return ms, data, ps, pe, k, n, avail

    def ensures(self, a, r):
        res, nb = r
        ms, data, ps, pe, k, n, avail = self.facts(a)
        full = z3.And(n >= k, MATCHN(ms, data, ps, k))
        mismatch = z3.Not(MATCHN(ms, data, ps, avail))
        first = T.zbool(MD.lift(a.first))
        if res is Result.yes:
            verdict = full
        elif res is Result.never:
            verdict = z3.And(first, mismatch)
        else:
            verdict = z3.And(z3.Not(full), z3.Not(z3.And(first, mismatch)))
        return {'verdict': verdict,
                'rest_view': z3.And(nb.attrs['data'].e == data, MD.lift(nb.attrs['start']) == ps + avail,
                                    MD.lift(nb.attrs['stop']) == pe)}

    def loops(self):
        def inv(I, loc, i, seq):
            a = self.cur
            ms, data, ps, pe, k, n, avail = self.facts(a)
            return {'prefix_matches': z3.And(i <= avail, MATCHN(ms, data, ps, i))}
        return {('PathGlob._match_glob_run', 1): LoopInv(inv, var_types={'matcher': MATCHER_TY, 'path_bit': COMP_TY})}

    def proof(self, p, a, r, name, case):
        if name == 'verdict':
            ms, data, ps, pe, k, n, avail = self.facts(a)
            for nme, i in sorted(_consts_of(p.assumptions).items()):
                if nme.startswith('i_PathGlob._match_glob_run.'):
                    p.use(L_matchn_inst.inst(ms=ms, d=data, off=ps, i=i, n=avail))
        p.qed()

    def result_value(self, I, a):
        res = list(Result)[I.choose(3)]
        data = a.path_bits.attrs['data']
        nb = Obj(list_view, {'data': data, 'start': fresh_sym('nb_start', 'int'), 'stop': fresh_sym('nb_stop', 'int')})
        return (res, nb)


class MatchGlobRuns(Contract):
    target = 'bfg9000/glob.py::PathGlob._match_glob_runs'
    properties = ('C11',)

    def params(self, cx, case):
        g = z3.Const('glob', Runs)
        data = z3.Const('data', Comps)
        runs = view(g, RUN_TY, cx.int('rs'), Sym(z3.Length(g), 'int'))
        pb = view(data, COMP_TY, cx.int('ps'), cx.int('pe'))
        return {'self': Obj(PathGlob, {}), 'runs': runs, 'path_bits': pb}

    def facts(self, a):
        g = a.runs.attrs['data'].e
        data = a.path_bits.attrs['data'].e
        rs = MD.lift(a.runs.attrs['start'])
        ps, pe = MD.lift(a.path_bits.attrs['start']), MD.lift(a.path_bits.attrs['stop'])
        m = z3.Length(g) - rs
        return g, data, rs, ps, pe, m

    def requires(self, a):
        g, data, rs, ps, pe, m = self.facts(a)
        return z3.And(view_ok(a.path_bits), rs >= 0, m >= 1, MD.lift(a.runs.attrs['stop']) == z3.Length(g),
                      LENOK(g, m))

    def ensures(self, a, r):
        g, data, rs, ps, pe, m = self.facts(a)
        sem = SEM(g, data, pe, ps, m)
        if r is Result.yes:
            return {'yes_only_if_semantic_match': sem}
        if r is Result.no:
            return {'no_only_if_no_semantic_match': z3.Not(sem)}
        return {'never_is_not_returned': z3.BoolVal(False)}

    def result_value(self, I, a):
        return [Result.yes, Result.no][I.choose(2)]

    def loops(self):
        def inv(I, loc, i, seq):
            a = self.cur
            g, data, rs, ps, pe, m = self.facts(a)
            ms = ms_of(g, m)
            return {'no_smaller_offset_matches': NOM(ms, data, ps, z3.Length(ms), i),
                    'remaining_total_nonnegative': TOTN(g, m - 1) >= 0}
        return {('PathGlob._match_glob_runs', 1): LoopInv(inv, var_types={'offset': 'int', 'result': None, 'bits': None})}

    def side_proof(self, p, a, kind, name, case):
        g, data, rs, ps, pe, m = self.facts(a)
        p.use(L_totn_nonneg.inst(g=g, n=m - 1))
        p.qed()

    def proof(self, p, a, r, name, case):
        g, data, rs, ps, pe, m = self.facts(a)
        ms = ms_of(g, m)
        kk = z3.Length(ms)
        wig = pe - ps - TOTN(g, m)
        p.use(L_totn_nonneg.inst(g=g, n=m - 1))
        # candidates for the lemma instances: the loop index symbols occurring in the path condition
        idx = [c for nme, c in sorted(_consts_of(p.assumptions).items()) if nme.startswith('i_PathGlob._match_glob_runs')]
        for i in idx:
            p.use(L_exc_mono.inst(g=g, d=data, hi=pe, lo=ps, m=m, c=i + 1, n=wig - i))
            p.use(L_first_fit.inst(g=g, d=data, hi=pe, lo=ps, m=m, o0=i, c=wig + 1))
            p.use(L_nom_exc.inst(g=g, d=data, hi=pe, lo=ps, m=m, c=i))
        p.use(L_nom_exc.inst(g=g, d=data, hi=pe, lo=ps, m=m, c=wig + 1))
        p.qed()


def _consts_of(formulas):
    acc = {}
    for f in formulas:
        T.free_consts(f, acc)
    return acc


def registry():
    return [MatchGlobRun(), MatchGlobRuns()]


# ---- _match_base / match ---------------------------------------------------------------------------

from bfg9000.path import Path as _Path, Root as _Root
from bfg9000.platforms.basepath import BasePath as _BasePath

EQN = T.RecDef('EQN', [Comps, Comps], T.Bool, lambda b, d: z3.BoolVal(True),
               lambda b, d, k, prev: z3.And(prev, b[k] == d[k]))

L_eqn_inst = Lemma('eqn_instance', [('b', Comps), ('d', Comps), ('i', T.Int), ('n', T.Int)],
                   lambda b, d, i, n: z3.Implies(z3.And(EQN(b, d, n), i >= 0, i < n), b[i] == d[i]),
                   induct=('nat', 'n'))

# EQN / MATCHN only look at the positions below their bound: they are unchanged when the path grows
L_eqn_ext = Lemma('eqn_unchanged_by_extension', [('b', Comps), ('d', Comps), ('x', Comps), ('n', T.Int)],
                  lambda b, d, x, n: z3.Implies(n <= z3.Length(d), EQN(b, z3.Concat(d, x), n) == EQN(b, d, n)),
                  induct=('nat', 'n'))
L_matchn_ext = Lemma('matchn_unchanged_by_extension', [('ms', Matchers), ('d', Comps), ('x', Comps), ('off', T.Int), ('n', T.Int)],
                     lambda ms, d, x, off, n: z3.Implies(z3.And(off >= 0, off + n <= z3.Length(d)),
                                                         MATCHN(ms, z3.Concat(d, x), off, n) == MATCHN(ms, d, off, n)),
                     induct=('nat', 'n'))


def path_obj(cx, name, with_dir=True):
    comps = z3.Const(name + '_comps', Comps)
    o = Obj(_Path, {'root': Sym(z3.Const(name + '_root', T.Int), ('enum', _Root)),
                    'directory': cx.bool(name + '_isdir'), '__comps': Sym(comps, ('seq', COMP_TY))})
    return o


class PathSplit(Contract):
    """BasePath.split() as seen by the matcher: the list of path components (abstract)."""
    target = 'bfg9000/platforms/basepath.py::BasePath.split'
    properties = ()

    def apply_at_call(self, I, bound, site, frame):
        o = bound['self']
        if not (isinstance(o, Obj) and '__comps' in o.attrs):
            from pyvc.interp import OutOfSubset
            raise OutOfSubset('split() of a path without abstract components')
        return o.attrs['__comps']


def patsem(base, glob, comps, L):
    """The documented semantics of a compiled pattern (base dir, runs separated by **) on a component list."""
    lb = z3.Length(base)
    n = z3.Length(comps)
    ms0 = run_ms(glob[0])
    k0 = z3.Length(ms0)
    rest = z3.If(L == 1, n == lb + k0, SEM(glob, comps, n, lb + k0, L - 1))
    return z3.And(n >= lb + k0, EQN(base, comps, lb), MATCHN(ms0, comps, lb, k0), rest)


class MatchBase(Contract):
    target = 'bfg9000/glob.py::PathGlob._match_base'
    properties = ('C11',)

    def cases(self):
        return ['check', 'skip']

    def params(self, cx, case):
        selfv = Obj(PathGlob, {'base': path_obj(cx, 'base')})
        return {'self': selfv, 'path': path_obj(cx, 'path'), 'skip': case == 'skip'}

    def facts(self, a):
        b = a.self.attrs['base'].attrs['__comps'].e
        d = a.path.attrs['__comps'].e
        lb, n = z3.Length(b), z3.Length(d)
        avail = z3.If(lb < n, lb, n)
        same_root = MD.lift(a.path.attrs['root']) == MD.lift(a.self.attrs['base'].attrs['root'])
        return b, d, lb, n, avail, same_root

    def ensures(self, a, r):
        res, nb = r
        b, d, lb, n, avail, same_root = self.facts(a)
        skip = T.zbool(MD.lift(a.skip))
        full = z3.Or(skip, z3.And(same_root, n >= lb, EQN(b, d, lb)))
        diverges = z3.And(z3.Not(skip), same_root, z3.Not(EQN(b, d, avail)))
        if res is Result.yes:
            verdict = full
        elif res is Result.never:
            verdict = diverges
        else:
            verdict = z3.And(z3.Not(full), z3.Not(diverges))
        return {'verdict': verdict,
                'rest_view': z3.And(nb.attrs['data'].e == d, MD.lift(nb.attrs['start']) == avail,
                                    MD.lift(nb.attrs['stop']) == n)}

    def loops(self):
        def inv(I, loc, i, seq):
            b, d, lb, n, avail, same_root = self.facts(self.cur)
            return {'prefix_equal': z3.And(i <= avail, EQN(b, d, i))}
        return {('PathGlob._match_base', 1): LoopInv(inv)}

    def proof(self, p, a, r, name, case):
        if name == 'verdict':
            b, d, lb, n, avail, same_root = self.facts(a)
            for nme, i in sorted(_consts_of(p.assumptions).items()):
                if nme.startswith('i_PathGlob._match_base.'):
                    p.use(L_eqn_inst.inst(b=b, d=d, i=i, n=avail))
        p.qed()

    def result_value(self, I, a):
        res = list(Result)[I.choose(3)]
        nb = Obj(list_view, {'data': a.path.attrs['__comps'], 'start': fresh_sym('mb_start', 'int'),
                             'stop': fresh_sym('mb_stop', 'int')})
        return (res, nb)


class Match(Contract):
    """PathGlob.match: yes exactly on the documented semantics (+ type); never only if no extension can match."""
    target = 'bfg9000/glob.py::PathGlob.match'
    properties = ('C11',)

    def cases(self):
        return ['%s/%s' % (t, s) for t in ('file', 'dir', 'any') for s in ('check', 'skip')]

    def params(self, cx, case):
        t, s = case.split('/')
        g = z3.Const('glob', Runs)
        cx.ghost('ext', z3.Const('ext', Comps))
        selfv = Obj(PathGlob, {'base': path_obj(cx, 'base'), 'glob': Sym(g, ('seq', RUN_TY)),
                               'type': G.Glob.Type[t]})
        return {'self': selfv, 'path': path_obj(cx, 'path'), 'skip_base': s == 'skip'}

    def facts(self, a):
        g = a.self.attrs['glob'].e
        b = a.self.attrs['base'].attrs['__comps'].e
        d = a.path.attrs['__comps'].e
        same_root = MD.lift(a.path.attrs['root']) == MD.lift(a.self.attrs['base'].attrs['root'])
        return g, b, d, z3.Length(g), same_root

    def requires(self, a):
        g, b, d, L, same_root = self.facts(a)
        # skip_base is only used by callers that have already established the base (find._find_files walks
        # below the base directory of the single pattern): stated as a precondition
        base_ok = z3.And(same_root, z3.Length(d) >= z3.Length(b), EQN(b, d, z3.Length(b)))
        pre = z3.And(L >= 1, LENOK(g, L))
        if a.skip_base is True:
            pre = z3.And(pre, base_ok)
        return pre

    def ensures(self, a, r):
        g, b, d, L, same_root = self.facts(a)
        isdir = T.zbool(MD.lift(a.path.attrs['directory']))
        ty = a.self.attrs['type']
        type_ok = {'file': z3.Not(isdir), 'dir': isdir, 'any': z3.BoolVal(True)}[ty.name]
        sem = z3.And(same_root, patsem(b, g, d, L))
        sem_ext = z3.And(same_root, patsem(b, g, z3.Concat(d, a.ext), L))
        if r is Result.yes:
            return {'yes_only_if_selected': z3.And(sem, type_ok)}
        if r is Result.no:
            return {'no_only_if_not_selected': z3.Not(z3.And(sem, type_ok))}
        return {'never_only_if_not_selected': z3.Not(sem),
                'never_only_if_no_descendant_can_match': z3.Implies(z3.Length(a.ext) > 0, z3.Not(sem_ext))}

    def proof(self, p, a, r, name, case):
        g, b, d, L, same_root = self.facts(a)
        lb = z3.Length(b)
        n = z3.Length(d)
        avail = z3.If(lb < n, lb, n)
        ms0 = run_ms(g[0])
        k0 = z3.Length(ms0)
        avail0 = z3.If(k0 < n - lb, k0, n - lb)
        if name == 'never_only_if_no_descendant_can_match':
            x = a.ext
            p.use(L_eqn_ext.inst(b=b, d=d, x=x, n=avail))
            p.use(L_eqn_ext.inst(b=b, d=d, x=x, n=lb))
            p.use(L_matchn_ext.inst(ms=ms0, d=d, x=x, off=lb, n=avail0))
            p.use(L_matchn_ext.inst(ms=ms0, d=d, x=x, off=lb, n=k0))
            dx = z3.Concat(d, x)
            p.use(L_eqn_mono.inst(b=b, d=dx, i=avail, n=lb - avail))
            p.use(L_matchn_mono.inst(ms=ms0, d=dx, off=lb, i=avail0, n=k0 - avail0))
        p.use(L_eqn_mono.inst(b=b, d=d, i=avail, n=lb - avail))
        p.use(L_matchn_mono.inst(ms=ms0, d=d, off=lb, i=avail0, n=k0 - avail0))
        p.qed()


# a longer prefix condition implies a shorter one
L_eqn_mono = Lemma('eqn_antitone', [('b', Comps), ('d', Comps), ('i', T.Int), ('n', T.Int)],
                   lambda b, d, i, n: z3.Implies(z3.And(n >= 0, EQN(b, d, i + n)), EQN(b, d, i)), induct=('nat', 'n'))
L_matchn_mono = Lemma('matchn_antitone', [('ms', Matchers), ('d', Comps), ('off', T.Int), ('i', T.Int), ('n', T.Int)],
                      lambda ms, d, off, i, n: z3.Implies(z3.And(n >= 0, MATCHN(ms, d, off, i + n)), MATCHN(ms, d, off, i)),
                      induct=('nat', 'n'))


def registry():
    return [MatchGlobRun(), MatchGlobRuns(), PathSplit(), MatchBase(), Match()]


# ---- _is_glob: which components are patterns ----------------------------------------------------------

from pyvc import regex as RX
FNMATCH_SPECIAL = T.CharClass.of('*?[', 'fnmatch-special')


def code_glob_class():
    fam = RX.classify(PathGlob._glob_ex.pattern)
    if not isinstance(fam, RX.F1):
        from pyvc.interp import OutOfSubset
        raise OutOfSubset('PathGlob._glob_ex is no longer a single character class')
    return fam.cls


L_glob_class = Lemma('glob_class_is_fnmatch_special', [('u', T.Str)],
                     lambda u: (MD.any_fold(code_glob_class()).state((0,), u)[0] == 1) ==
                               (MD.any_fold(FNMATCH_SPECIAL).state((0,), u)[0] == 1),
                     induct=('snoc', 'u'))


class IsGlob(Contract):
    """A component is treated as a pattern exactly when it contains a character that fnmatch interprets
    (`*`, `?`, `[`); otherwise it is compared literally (fnmatch of a string without these characters is
    string equality: library assumption)."""
    target = 'bfg9000/glob.py::PathGlob._is_glob'
    properties = ('C11',)

    def params(self, cx, case):
        return {'cls': PathGlob, 's': cx.str('s')}

    def ensures(self, a, r):
        s = MD.sym_str(a.s)
        return {'pattern_iff_fnmatch_special': T.zbool(MD.lift(r)) == (MD.any_fold(FNMATCH_SPECIAL).state((0,), s)[0] == 1)}

    def proof(self, p, a, r, name, case):
        p.use(L_glob_class.inst(u=MD.sym_str(a.s)))
        p.qed()

    def native_params(self, case):
        return ['s']

    def native_alphabet(self):
        return 'a*?[]!.'

    def native_build(self, case, raw):
        return {'s': raw['s']}, Args({'cls': PathGlob, 's': raw['s']})

    def native_call(self, case, call_args):
        return PathGlob._is_glob(call_args['s'])


# ---- bounded reference check of the whole matcher (compile + match) -------------------------------------

from contracts.bounded_cmd import Bounded
import fnmatch as _fnmatch
import itertools as _it


def ref_match(pattern_bits, comps):
    """Documented semantics on component lists: `**` = zero or more components, other bits match one."""
    if not pattern_bits:
        return not comps
    head, rest = pattern_bits[0], pattern_bits[1:]
    if head == '**':
        return any(ref_match(rest, comps[i:]) for i in range(len(comps) + 1))
    if not comps:
        return False
    return _fnmatch.fnmatchcase(comps[0], head) and ref_match(rest, comps[1:])


class GlobReference(Bounded):
    """Real PathGlob (constructor, _compile_glob, match) against the reference semantics, exhaustively up to a
    bound; also: `never` implies that no extension by up to two components matches."""
    target = 'bfg9000/glob.py::PathGlob.match'
    properties = ('C11',)
    reason = 'PathGlob.__init__/_compile_glob build nested lists of closures (outside the subset); bounded cross-check of the whole pipeline'
    BITS = ['**', 'a*', 'b', 'v?', '[ab]x']
    COMPS = ['a1', 'b', 'v1', 'ax', 'zz']

    def native_inputs(self, case, alphabet, maxlen, rng, extra=0):
        pats = []
        for n in range(1, 5):
            for t in _it.product(self.BITS, repeat=n):
                if not any(b != 'b' for b in t):
                    continue
                pats.append(t)
        paths = [t for n in range(0, 5) for t in _it.product(self.COMPS[:4], repeat=n)]
        paths = rng.sample(paths, 60) if len(paths) > 60 else paths
        for pt in pats:
            for base in ((), ('b',)):
                yield {'pattern': list(base + pt), 'paths': [list(p) for p in rng.sample(paths, 12)]}
        # three and four `**` separated by non-empty runs: the tightest paths (no room to spare) and looser ones
        for pt in (('**', 'a*', '**', 'b', '**', 'v?'), ('b', '**', 'a*', '**', 'b', '**', '[ab]x'),
                   ('**', 'b', '**', 'b', '**', 'b', '**', 'a*')):
            fixed = [b for b in pt if b != '**']
            names = {'a*': 'a1', 'b': 'b', 'v?': 'v1', '[ab]x': 'ax'}
            tight = [names[b] for b in fixed]
            cands = [tight, tight[:1] + ['zz'] + tight[1:], ['zz'] + tight, tight[:-1] + ['zz', 'zz'] + tight[-1:],
                     tight[:-1], tight + ['zz'], tight[:2] + ['b'] + tight[2:]]
            yield {'pattern': list(pt), 'paths': cands}

    def native_check(self, case, raw):
        from bfg9000.glob import PathGlob as PG
        from bfg9000.path import Path, Root
        from bfg9000.exceptions import NonGlobError
        bits = raw['pattern']
        try:
            g = PG('/'.join(bits), type='*')
        except NonGlobError:
            return self.fail(case, raw, 'pattern_with_wildcards_is_a_glob')
        for comps in raw['paths']:
            p = Path('/'.join(comps) or '.', Root.srcdir)
            got = g.match(p)
            want = ref_match(bits, comps)
            if bool(got) != want:
                return self.fail(case, raw, 'yes_iff_reference_semantics', path=comps, got=got.name, expected=want)
            if got is PG.Result.never:
                for ext in _it.chain(_it.product(self.COMPS, repeat=1), _it.product(self.COMPS[:3], repeat=2)):
                    if ref_match(bits, comps + list(ext)):
                        return self.fail(case, raw, 'never_prunes_nothing_that_matches', path=comps, extension=list(ext))
        return True


def registry():
    return [MatchGlobRun(), MatchGlobRuns(), PathSplit(), MatchBase(), Match(), IsGlob(), GlobReference()]


# ---- FileFilter._match_globs: combination of include / extra / exclude verdicts ------------------------------------

import bfg9000.builtins.find as F
FindResult = F.FindResult


class FileFilterMatch(Contract):
    """_match_globs combines the verdicts of the individual globs: an exclude match prunes (exclude_recursive);
    otherwise include iff some include says yes; otherwise not_now iff some extra glob matches; otherwise
    exclude_recursive **only if every include says never** (so pruning loses nothing an include could select),
    else exclude.  The per-glob verdicts are arbitrary (every combination is explored)."""
    target = 'bfg9000/builtins/find.py::FileFilter._match_globs'
    properties = ('C11',)

    def cases(self):
        return ['%d/%d/%d' % (i, x, e) for i in (1, 2) for x in (0, 1) for e in (0, 1, 2)]

    def params(self, cx, case):
        ni, nx, ne = map(int, case.split('/'))
        mk = lambda kind, k: Obj(object, {'kind': kind, 'idx': k})
        selfv = Obj(F.FileFilter, {'include': tuple(Obj(PathGlob, {'tag': ('inc', k)}) for k in range(ni)),
                                   'extra': tuple(Obj(G.NameGlob, {'tag': ('extra', k)}) for k in range(nx)),
                                   'exclude': tuple(Obj(G.NameGlob, {'tag': ('exc', k)}) for k in range(ne))})
        return {'self': selfv, 'path': Obj(_Path, {})}

    def opaque_calls(self):
        def pmatch(I, args, kwargs, node):
            res = list(Result)[I.choose(3)]
            I.events.append(('pathglob', args[0].attrs['tag'], res, args[2] if len(args) > 2 else kwargs.get('skip_base', False)))
            return res

        def nmatch(I, args, kwargs, node):
            res = [True, False][I.choose(2)]
            I.events.append(('nameglob', args[0].attrs['tag'], res))
            return res
        return {PathGlob.__dict__['match']: pmatch, G.NameGlob.__dict__['match']: nmatch}

    def ensures(self, a, r):
        ev = a.events
        exc = [e[2] for e in ev if e[0] == 'nameglob' and e[1][0] == 'exc']
        ext = [e[2] for e in ev if e[0] == 'nameglob' and e[1][0] == 'extra']
        inc = [e for e in ev if e[0] == 'pathglob']
        n_inc = len(a.self.attrs['include'])
        if any(exc):
            want = FindResult.exclude_recursive
        else:
            if len(inc) != n_inc:
                return {'every_include_is_consulted': z3.BoolVal(False)}
            verdicts = [e[2] for e in inc]
            if any(v is Result.yes for v in verdicts):
                want = FindResult.include
            elif any(ext):
                want = FindResult.not_now
            elif all(v is Result.never for v in verdicts):
                want = FindResult.exclude_recursive
            else:
                want = FindResult.exclude
        out = {'verdict_combination': z3.BoolVal(r is want)}
        if inc:
            out['base_is_skipped_only_for_a_single_include'] = z3.BoolVal(all(e[3] is (n_inc == 1) for e in inc))
        return out


class FindTree(Bounded):
    """find() on real directory trees (temp dir) against a brute-force reference: every entry below the pattern's
    base that the documented semantics select and that is not excluded (by name, or below an excluded directory)
    is returned, nothing else, and every returned entry exists -- so pruning never changes the result."""
    target = 'bfg9000/builtins/find.py::_find_files'
    properties = ('C11', 'C08')
    reason = 'real file-system walk (os.listdir / os.path) with in-place pruning of the directory list'
    TREES = [
        ['a/x.c', 'a/y.h', 'a/sub/z.c', 'b.c', 'd/e/f.c', 'd/.h'],
        ['src/a.c', 'src/gen/out/b.c', 'src/gen/c.txt', 'src/x y.c', 'inc/a.h'],
        ['a/a/a.c', 'a/b/a.c', 'b/a/a.c', 'a.c'],
        ['src/a.c', 'src.old/b.c', 'src-x/e.c', 'src/sub/c.h', 'src/sub/deep/d.h'],
        # names that only *end* like a pattern, and directories that only differ from an excluded one by a suffix
        ['test_a.c', 'mytest_a.c', 'contest_b.c', 'test_b.c', 'draft#1#', 'obj/x.c', 'objs/y.c', 'obj.c', 'sub/test_a.c', 'sub/obj/q.c'],
        # entries whose names start with dots, at the top of the tree and below it
        ['..data/x.c', '..config.c', '.../y.c', '.hidden.c', 'sub/..nested.c', 'a.c'],
    ]
    PATTERNS = ['*.c', '**/*.c', 'a/*', 'a/**', '**/', 'src/**/*.c', '**/a/*.c', '*/', 'src/gen/out/**/', 'd/**/*', '**/?.c']
    EXCLUDES = [None, ['*.h'], ['sub/'], ['gen/', 'a.c'], ['a/']]
    TYPES = [None, 'f', 'd', '*']
    TYPED_PATTERNS = ['*', '**/*', '**/*.c', 'a/*', '**/', 'src/**']
    TYPED_EXCLUDES = [None, ['sub'], ['obj', 'test_*.c'], ['a', '#*#'], ['gen/', 'a.c']]

    def native_inputs(self, case, alphabet, maxlen, rng, extra=0):
        for ti in range(len(self.TREES)):
            for pat in self.PATTERNS:
                for exc in self.EXCLUDES:
                    yield {'tree': ti, 'pattern': pat, 'exclude': exc}
        # an explicit type applies to every glob of the search (include and exclude alike); basename globs are anchored
        for ti in range(len(self.TREES)):
            for ty in self.TYPES:
                for pat in self.TYPED_PATTERNS:
                    for exc in self.TYPED_EXCLUDES:
                        if ty is None and ti < 4 and exc in self.EXCLUDES:
                            continue
                        yield {'tree': ti, 'pattern': pat, 'exclude': exc, 'type': ty}
        for ti in range(len(self.TREES)):
            yield {'tree': ti, 'pattern': ['src/*.c', 'src/gen/out/**/'], 'exclude': None}
            yield {'tree': ti, 'pattern': ['a/*.c', 'd/**/*.c'], 'exclude': ['e/']}
        # several patterns whose literal prefixes are a directory, a sibling that sorts between it and its child
        # (`src.old`, `src-x` < `src/sub`), and that child: every entry once
        yield {'tree': 3, 'pattern': ['src/*.c', 'src.old/*.c', 'src/sub/**/*.h'], 'exclude': None}
        yield {'tree': 3, 'pattern': ['src/**/*.h', 'src-x/*.c', 'src/sub/deep/*.h'], 'exclude': None}
        # a pattern whose literal prefix is a symbolic link to a directory is searched through the link
        yield {'tree': 0, 'pattern': 'lnk/*.c', 'exclude': None, 'symlink': ['lnk', 'a'], 'expect': ['lnk/x.c']}
        yield {'tree': 0, 'pattern': 'lnk/**/*.c', 'exclude': None, 'symlink': ['lnk', 'a'], 'expect': ['lnk/sub/z.c', 'lnk/x.c']}

    def native_check(self, case, raw):
        import os, tempfile
        from bfg9000.path import Path, Root
        pats = raw['pattern'] if isinstance(raw['pattern'], list) else [raw['pattern']]
        with tempfile.TemporaryDirectory() as tmp:
            tmp = os.path.realpath(tmp)
            files = self.TREES[raw['tree']]
            dirs = set()
            for f in files:
                os.makedirs(os.path.join(tmp, os.path.dirname(f)), exist_ok=True)
                open(os.path.join(tmp, f), 'w').close()
                parts = f.split('/')[:-1]
                for k in range(1, len(parts) + 1):
                    dirs.add('/'.join(parts[:k]))

            def base_of(pat):
                bits = pat.rstrip('/').split('/')
                k = 0
                while k < len(bits) and not any(ch in bits[k] for ch in '*?['):
                    k += 1
                return bits[:k]
            if raw.get('symlink'):
                os.symlink(raw['symlink'][1], os.path.join(tmp, raw['symlink'][0]))
            for pat in pats:
                b = '/'.join(base_of(pat))
                if b and b not in dirs and not raw.get('symlink'):
                    return None         # the property only speaks about patterns whose literal prefix exists

            class Env:
                base_dirs = {Root.srcdir: Path(tmp + '/', Root.absolute), Root.builddir: Path(tmp + '/b/', Root.absolute)}
            try:
                ty = raw.get('type')
                got = F.find(Env, pats, type=ty, exclude=raw['exclude'])
            except ValueError as e:
                # type 'f' together with a directory glob (trailing slash) is contradictory and is rejected
                if ty == 'f' and any(g.endswith('/') for g in pats + (raw['exclude'] or [])):
                    return True
                return self.fail(case, raw, 'find_completes', error=repr(e))
            except Exception as e:      # noqa
                return self.fail(case, raw, 'find_completes', error=repr(e))
            got_set = {(p.suffix, p.directory) for p in got}
            if raw.get('expect') is not None:
                if sorted(s_ for s_, d_ in got_set) != sorted(raw['expect']) or len(got) != len(got_set):
                    return self.fail(case, raw, 'result_is_exactly_the_selected_entries', got=sorted(got_set), expected=raw['expect'])
                return True
            for p in got:
                full = os.path.join(tmp, p.suffix)
                if not os.path.exists(full) or os.path.isdir(full) != p.directory:
                    return self.fail(case, raw, 'every_returned_entry_exists', entry=p.suffix)
            # reference
            entries = [(f, False) for f in files] + [(d, True) for d in sorted(dirs)] + [('', True)]
            excl = raw['exclude'] or []


            def kind_ok(slash, isdir):
                # an explicit type decides the kind for every glob; otherwise the trailing slash does
                if ty is None:
                    return slash == isdir
                return ty == '*' or (ty == 'd') == isdir

            def name_excluded(name, isdir):
                for e in excl:
                    pat = e.rstrip('/')
                    if not kind_ok(e.endswith('/'), isdir):
                        continue
                    if _fnmatch.fnmatchcase(name, pat):
                        return True
                return False
            want = set()
            for sfx, isdir in entries:
                comps = sfx.split('/') if sfx else []
                for pat in pats:
                    nb = len(base_of(pat))
                    # exclusion applies to the names *below* the pattern's literal prefix
                    if any(name_excluded(comps[k], True if k < len(comps) - 1 else isdir) for k in range(nb, len(comps))):
                        continue
                    want_dir = pat.endswith('/')
                    bits = [b for b in pat.rstrip('/').split('/')]
                    if not kind_ok(want_dir, isdir):
                        continue
                    if ref_match(bits, comps):
                        want.add((sfx, isdir))
            if got_set != want:
                return self.fail(case, raw, 'result_is_exactly_the_selected_entries',
                                 missing=sorted(want - got_set), unexpected=sorted(got_set - want))
            if len(got) != len(got_set):
                return self.fail(case, raw, 'no_duplicates', entries=[p.suffix for p in got])
        return True


class NameGlobReference(Bounded):
    """Real NameGlob (the "simple" globs of extra / exclude / find_exclude) against fnmatch on the whole basename:
    anchored at both ends, and of the kind given by the explicit type, else by the trailing slash."""
    target = 'bfg9000/glob.py::NameGlob.match'
    properties = ('C11',)
    reason = 'compiled regular expression object (re.compile(fnmatch.translate(..))) outside the subset; exhaustive over a small pattern/name table'
    PATS = ['test_*.c', '*.c', '#*#', '*~', '.#*', 'a?', '[ab]x', '[!a]x', 'obj', 'README*', '*']
    NAMES = ['test_a.c', 'mytest_a.c', 'test_a.cc', 'x.c', '#a#', 'draft#1#', '#a#b', 'a~', 'a~b', '.#a', 'x.#a', 'a1', 'ba1', 'a12',
             'ax', 'bx', 'cx', 'axx', 'xax', 'obj', 'objs', 'xobj', 'README', 'README.md', 'OLD_README']

    def native_inputs(self, case, alphabet, maxlen, rng, extra=0):
        for pat in self.PATS:
            for slash in ('', '/'):
                for ty in (None, 'f', 'd', '*'):
                    yield {'pattern': pat + slash, 'type': ty}

    def native_check(self, case, raw):
        from bfg9000.path import Path, Root
        pat, ty = raw['pattern'], raw['type']
        slash = pat.endswith('/')
        try:
            g = G.NameGlob(pat, ty)
        except ValueError:
            return True if (ty == 'f' and slash) else self.fail(case, raw, 'glob_is_accepted')
        for name in self.NAMES:
            for isdir in (False, True):
                for parent in ('', 'sub/', 'test_a.c/'):
                    p = Path(parent + name + ('/' if isdir else ''), Root.srcdir)
                    kind = (slash == isdir) if ty is None else (ty == '*' or (ty == 'd') == isdir)
                    want = kind and _fnmatch.fnmatchcase(name, pat.rstrip('/'))
                    got = g.match(p)
                    if got is not want:
                        return self.fail(case, raw, 'matches_iff_whole_basename_and_kind', path=p.suffix, directory=isdir,
                                         got=repr(got), expected=want)
        return True


class DefaultExcludes(Bounded):
    """find_files() in a real build script with the project's default find_exclude: exactly the documented editor
    leftovers (`.#*`, `*~`, `#*#`) are left out; a find_exclude given to project() replaces them."""
    target = 'bfg9000/builtins/find.py::find_files'
    properties = ('C11',)
    reason = 'whole builtin layer with project defaults on a real directory: runtime contract only'
    NAMES = ['a.c', '.#a.c', 'a.c~', '#a.c#', '.a.c#', 'a#', '~a.c', '.hidden', 'b#c']

    def native_inputs(self, case, alphabet, maxlen, rng, extra=0):
        yield {'find_exclude': None}
        yield {'find_exclude': ['*.c']}

    def native_check(self, case, raw):
        from contracts.scripts import run_configure
        proj = "project('p'%s)\n" % ('' if raw['find_exclude'] is None else ', find_exclude=%r' % raw['find_exclude'])
        files = {'build.bfg': proj + "env.trace.append(('found', sorted(p.suffix for p in find_paths('d/*'))))\n"}
        for n in self.NAMES:
            files['d/' + n] = ''
        trace = run_configure(files, [])
        if any(t[0] == 'FAILED' for t in trace):
            return self.fail(case, raw, 'configure_succeeds', error=[t[1] for t in trace if t[0] == 'FAILED'][0][-400:])
        got = [t[1] for t in trace if t[0] == 'found'][0]
        pats = ['.#*', '*~', '#*#'] if raw['find_exclude'] is None else raw['find_exclude']
        want = sorted('d/' + n for n in self.NAMES if not any(_fnmatch.fnmatchcase(n, p) for p in pats))
        if got != want:
            return self.fail(case, raw, 'documented_default_excludes', got=got, expected=want)
        return True


def registry():
    return [MatchGlobRun(), MatchGlobRuns(), PathSplit(), MatchBase(), Match(), IsGlob(), FileFilterMatch(), GlobReference(),
            NameGlobReference(), FindTree(), DefaultExcludes()]
