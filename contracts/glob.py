"""Contracts for bfg9000/glob.py (C11): the three-valued matcher against the documented glob semantics.

Path components and component matchers are abstract (uninterpreted sorts Comp / Matcher with a predicate
M(matcher, comp)); a run is an abstract value with its matcher list and its stored `length`.  Everything
else is index arithmetic over `list_view` objects, which is interpreted from the real iterutils.list_view.

Semantics (specs, by recursion; unfolded by instance only):
  MATCHN(ms, d, off, j)        the first j matchers of ms match d[off .. off+j)
  SEM(g, d, hi, lo, m)         the last m runs of g (separated by `**`) match d[lo .. hi):
                                 m = 1: the run matches the *last* k components (a `**` precedes it)
                                 m > 1: for some offset o in [0, W] the run matches at lo+o and the remaining m-1
                                        runs match the rest;  W = hi - lo - (total length of the last m runs)
  EXC(g, d, hi, lo, m, c)      ... for some offset o < c   (bounded existential by recursion on c)
"""
import z3
from pyvc import terms as T
from pyvc.contract import Contract, Lemma, LoopInv, Args
from pyvc.values import Sym, Obj, PList, opaque_sort, fresh_sym
from pyvc import models as MD
from pyvc.interp import Infeasible

import bfg9000.glob as G
from bfg9000.glob import PathGlob
from bfg9000.iterutils import list_view

Result = PathGlob.Result
Comp = opaque_sort('Comp')
Matcher = opaque_sort('Matcher')
Run = opaque_sort('Run')
Comps = z3.SeqSort(Comp)
Matchers = z3.SeqSort(Matcher)
Runs = z3.SeqSort(Run)
COMP_TY = ('opaque', 'Comp')
MATCHER_TY = ('opaque', 'Matcher')

M = z3.Function('M', Matcher, Comp, T.Bool)
run_ms = z3.Function('run_matchers', Run, Matchers)
run_len = z3.Function('run_length', Run, T.Int)

MD.OPAQUE_CALL['Matcher'] = lambda I, f, args: MD.mk_bool(M(f.e, MD.lift(args[0])))


def run_obj(e):
    o = Obj(PathGlob._glob_run, {'matchers': Sym(run_ms(e), ('seq', MATCHER_TY)), 'length': Sym(run_len(e), 'int')})
    o.tuple_items = [o.attrs['matchers'], o.attrs['length']]
    o.run_term = e
    return o


RUN_TY = ('obj', run_obj, Run)

MATCHN = T.RecDef('MATCHN', [Matchers, Comps, T.Int], T.Bool, lambda ms, d, off: z3.BoolVal(True),
                  lambda ms, d, off, k, prev: z3.And(prev, M(ms[k], d[off + k])))

# total length of the last m runs
TOTN = T.RecDef('TOTN', [Runs], T.Int, lambda g: z3.IntVal(0),
                lambda g, k, prev: prev + z3.Length(run_ms(g[z3.Length(g) - (k + 1)])))
# the stored `length` of each of the last m runs is that total
LENOK = T.RecDef('LENOK', [Runs], T.Bool, lambda g: z3.BoolVal(True),
                 lambda g, k, prev: z3.And(prev, run_len(g[z3.Length(g) - (k + 1)]) == TOTN(g, k + 1)))


def ms_of(g, m):
    """matchers of the first of the last m runs"""
    return run_ms(g[z3.Length(g) - m])


def _sem_step(g, d, hi, lo, k, prev):
    m = k + 1
    ms = ms_of(g, m)
    kk = z3.Length(ms)
    last = z3.And(hi - lo >= kk, MATCHN(ms, d, hi - kk, kk))
    wiggle = hi - lo - TOTN(g, m)
    return z3.If(m == 1, last, EXC(g, d, hi, lo, m, wiggle + 1))


SEM = T.RecDef('SEM', [Runs, Comps, T.Int, T.Int], T.Bool, lambda g, d, hi, lo: z3.BoolVal(False), _sem_step)


def _exc_step(g, d, hi, lo, m, k, prev):
    ms = ms_of(g, m)
    kk = z3.Length(ms)
    return z3.Or(prev, z3.And(MATCHN(ms, d, lo + k, kk), SEM(g, d, hi, lo + k + kk, m - 1)))


EXC = T.RecDef('EXC', [Runs, Comps, T.Int, T.Int, T.Int], T.Bool, lambda g, d, hi, lo, m: z3.BoolVal(False), _exc_step)

# no offset below c matches the run
NOM = T.RecDef('NOM', [Matchers, Comps, T.Int, T.Int], T.Bool, lambda ms, d, lo, kk: z3.BoolVal(True),
               lambda ms, d, lo, kk, k, prev: z3.And(prev, z3.Not(MATCHN(ms, d, lo + k, kk))))


def view(data_e, ety, start, stop):
    return Obj(list_view, {'data': Sym(data_e, ('seq', ety)), 'start': start, 'stop': stop})


def view_ok(v):
    s, e = MD.lift(v.attrs['start']), MD.lift(v.attrs['stop'])
    return z3.And(s >= 0, s <= e, e <= z3.Length(v.attrs['data'].e))


def res_is(r, member):
    return r is member


# ---- lemmas ------------------------------------------------------------------------------------------

_g, _d = z3.Const('Lg', Runs), z3.Const('Ld', Comps)
_vars_sem = [('g', Runs), ('d', Comps), ('hi', T.Int), ('lo', T.Int), ('m', T.Int)]

# MATCHN(n) gives every single matcher below n
L_matchn_inst = Lemma('matchn_instance', [('ms', Matchers), ('d', Comps), ('off', T.Int), ('i', T.Int), ('n', T.Int)],
                      lambda ms, d, off, i, n: z3.Implies(z3.And(MATCHN(ms, d, off, n), i >= 0, i < n),
                                                          M(ms[i], d[off + i])),
                      induct=('nat', 'n'))

L_totn_nonneg = Lemma('total_length_nonnegative', [('g', Runs), ('n', T.Int)], lambda g, n: TOTN(g, n) >= 0,
                      induct=('nat', 'n'))

# EXC is monotone in its bound
L_exc_mono = Lemma('exc_monotone', _vars_sem + [('c', T.Int), ('n', T.Int)],
                   lambda g, d, hi, lo, m, c, n: z3.Implies(z3.And(EXC(g, d, hi, lo, m, c), n >= 0),
                                                            EXC(g, d, hi, lo, m, c + n)),
                   induct=('nat', 'n'))

# NOM(c) and o < c  ==>  no match at o
L_nom_inst = Lemma('nom_instance', [('ms', Matchers), ('d', Comps), ('lo', T.Int), ('kk', T.Int), ('o', T.Int), ('c', T.Int)],
                   lambda ms, d, lo, kk, o, c: z3.Implies(z3.And(NOM(ms, d, lo, kk, c), o >= 0, o < c),
                                                          z3.Not(MATCHN(ms, d, lo + o, kk))),
                   induct=('nat', 'c'))

# if no offset below c matches the run, the bounded existential below c is false
L_nom_exc = Lemma('nom_refutes_exc', _vars_sem + [('c', T.Int)],
                  lambda g, d, hi, lo, m, c: z3.Implies(NOM(ms_of(g, m), d, lo, z3.Length(ms_of(g, m)), c),
                                                        z3.Not(EXC(g, d, hi, lo, m, c))),
                  induct=('nat', 'c'))

# shifting the start to the left by dd keeps a bounded existential (offsets grow by dd)
L_shift = Lemma('exc_shift', [('g', Runs), ('d', Comps), ('hi', T.Int), ('lo1', T.Int), ('dd', T.Int), ('m', T.Int), ('c', T.Int)],
                lambda g, d, hi, lo1, dd, m, c: z3.Implies(z3.And(dd >= 0, EXC(g, d, hi, lo1 + dd, m, c)),
                                                           EXC(g, d, hi, lo1, m, c + dd)),
                induct=('nat', 'c'))


def _l2_script(p, phase=None, ih=None, g=None, d=None, hi=None, lo1=None, dd=None, m=None, **kw):
    wig2 = hi - (lo1 + dd) - TOTN(g, m)
    p.use(L_shift.inst(g=g, d=d, hi=hi, lo1=lo1, dd=dd, m=m, c=wig2 + 1))
    p.qed()


# SEM is monotone in lo (a longer path suffix still matches: `**` absorbs the extra components)
L_sem_mono = Lemma('sem_monotone_in_lo', [('g', Runs), ('d', Comps), ('hi', T.Int), ('lo1', T.Int), ('dd', T.Int), ('m', T.Int)],
                   lambda g, d, hi, lo1, dd, m: z3.Implies(z3.And(dd >= 0, m >= 1, SEM(g, d, hi, lo1 + dd, m)),
                                                           SEM(g, d, hi, lo1, m)),
                   script=_l2_script)


def _first_fit_script(p, phase=None, ih=None, g=None, d=None, hi=None, lo=None, m=None, o0=None, c=None, **kw):
    if phase != 'step':
        return p.qed()
    n0 = kw['n0']
    ms = ms_of(g, m)
    kk = z3.Length(ms)
    # the candidate offset examined in this step is o = n0
    p.use(L_nom_inst.inst(ms=ms, d=d, lo=lo, kk=kk, o=n0, c=o0))
    p.use(L_sem_mono.inst(g=g, d=d, hi=hi, lo1=lo + o0 + kk, dd=n0 - o0, m=m - 1))
    p.qed()


# first fit is enough: if no offset below o0 matches, o0 matches and the rest does not match after o0,
# then no offset at all works
L_first_fit = Lemma('first_fit_is_complete', [('g', Runs), ('d', Comps), ('hi', T.Int), ('lo', T.Int), ('m', T.Int), ('o0', T.Int), ('c', T.Int)],
                    lambda g, d, hi, lo, m, o0, c: z3.Implies(
                        z3.And(m >= 2, o0 >= 0, NOM(ms_of(g, m), d, lo, z3.Length(ms_of(g, m)), o0),
                               z3.Not(SEM(g, d, hi, lo + o0 + z3.Length(ms_of(g, m)), m - 1))),
                        z3.Not(EXC(g, d, hi, lo, m, c))),
                    induct=('nat', 'c'), script=_first_fit_script)


# ---- contracts ---------------------------------------------------------------------------------------

class MatchGlobRun(Contract):
    target = 'bfg9000/glob.py::PathGlob._match_glob_run'
    properties = ('C11',)

    def cases(self):
        return ['first', 'later']

    def params(self, cx, case):
        ms = z3.Const('ms', Matchers)
        data = z3.Const('data', Comps)
        run = Obj(PathGlob._glob_run, {'matchers': Sym(ms, ('seq', MATCHER_TY)), 'length': cx.int('rlen')})
        run.tuple_items = [run.attrs['matchers'], run.attrs['length']]
        pb = view(data, COMP_TY, cx.int('ps'), cx.int('pe'))
        return {'self': Obj(PathGlob, {}), 'run': run, 'path_bits': pb, 'first': case == 'first'}

    def requires(self, a):
        return view_ok(a.path_bits)

    def facts(self, a):
        ms = a.run.attrs['matchers'].e
        data = a.path_bits.attrs['data'].e
        ps, pe = MD.lift(a.path_bits.attrs['start']), MD.lift(a.path_bits.attrs['stop'])
        k = z3.Length(ms)
        n = pe - ps
        avail = z3.If(k < n, k, n)
        return ms, data, ps, pe, k, n, avail

    def ensures(self, a, r):
        res, nb = r
        ms, data, ps, pe, k, n, avail = self.facts(a)
        full = z3.And(n >= k, MATCHN(ms, data, ps, k))
        mismatch = z3.Not(MATCHN(ms, data, ps, avail))
        first = T.zbool(MD.lift(a.first))
        if res is Result.yes:
            verdict = full
        elif res is Result.never:
            verdict = z3.And(first, mismatch)
        else:
            verdict = z3.And(z3.Not(full), z3.Not(z3.And(first, mismatch)))
        return {'verdict': verdict,
                'rest_view': z3.And(nb.attrs['data'].e == data, MD.lift(nb.attrs['start']) == ps + avail,
                                    MD.lift(nb.attrs['stop']) == pe)}

    def loops(self):
        def inv(I, loc, i, seq):
            a = self.cur
            ms, data, ps, pe, k, n, avail = self.facts(a)
            return {'prefix_matches': z3.And(i <= avail, MATCHN(ms, data, ps, i))}
        return {('PathGlob._match_glob_run', 1): LoopInv(inv, var_types={'matcher': MATCHER_TY, 'path_bit': COMP_TY})}

    def proof(self, p, a, r, name, case):
        if name == 'verdict':
            ms, data, ps, pe, k, n, avail = self.facts(a)
            for nme, i in sorted(_consts_of(p.assumptions).items()):
                if nme.startswith('i_PathGlob._match_glob_run.'):
                    p.use(L_matchn_inst.inst(ms=ms, d=data, off=ps, i=i, n=avail))
        p.qed()

    def result_value(self, I, a):
        res = list(Result)[I.choose(3)]
        data = a.path_bits.attrs['data']
        nb = Obj(list_view, {'data': data, 'start': fresh_sym('nb_start', 'int'), 'stop': fresh_sym('nb_stop', 'int')})
        return (res, nb)


class MatchGlobRuns(Contract):
    target = 'bfg9000/glob.py::PathGlob._match_glob_runs'
    properties = ('C11',)

    def params(self, cx, case):
        g = z3.Const('glob', Runs)
        data = z3.Const('data', Comps)
        runs = view(g, RUN_TY, cx.int('rs'), Sym(z3.Length(g), 'int'))
        pb = view(data, COMP_TY, cx.int('ps'), cx.int('pe'))
        return {'self': Obj(PathGlob, {}), 'runs': runs, 'path_bits': pb}

    def facts(self, a):
        g = a.runs.attrs['data'].e
        data = a.path_bits.attrs['data'].e
        rs = MD.lift(a.runs.attrs['start'])
        ps, pe = MD.lift(a.path_bits.attrs['start']), MD.lift(a.path_bits.attrs['stop'])
        m = z3.Length(g) - rs
        return g, data, rs, ps, pe, m

    def requires(self, a):
        g, data, rs, ps, pe, m = self.facts(a)
        return z3.And(view_ok(a.path_bits), rs >= 0, m >= 1, MD.lift(a.runs.attrs['stop']) == z3.Length(g),
                      LENOK(g, m))

    def ensures(self, a, r):
        g, data, rs, ps, pe, m = self.facts(a)
        sem = SEM(g, data, pe, ps, m)
        if r is Result.yes:
            return {'yes_only_if_semantic_match': sem}
        if r is Result.no:
            return {'no_only_if_no_semantic_match': z3.Not(sem)}
        return {'never_is_not_returned': z3.BoolVal(False)}

    def result_value(self, I, a):
        return [Result.yes, Result.no][I.choose(2)]

    def loops(self):
        def inv(I, loc, i, seq):
            a = self.cur
            g, data, rs, ps, pe, m = self.facts(a)
            ms = ms_of(g, m)
            return {'no_smaller_offset_matches': NOM(ms, data, ps, z3.Length(ms), i),
                    'remaining_total_nonnegative': TOTN(g, m - 1) >= 0}
        return {('PathGlob._match_glob_runs', 1): LoopInv(inv, var_types={'offset': 'int', 'result': None, 'bits': None})}

    def side_proof(self, p, a, kind, name, case):
        g, data, rs, ps, pe, m = self.facts(a)
        p.use(L_totn_nonneg.inst(g=g, n=m - 1))
        p.qed()

    def proof(self, p, a, r, name, case):
        g, data, rs, ps, pe, m = self.facts(a)
        ms = ms_of(g, m)
        kk = z3.Length(ms)
        wig = pe - ps - TOTN(g, m)
        p.use(L_totn_nonneg.inst(g=g, n=m - 1))
        # candidates for the lemma instances: the loop index symbols occurring in the path condition
        idx = [c for nme, c in sorted(_consts_of(p.assumptions).items()) if nme.startswith('i_PathGlob._match_glob_runs')]
        for i in idx:
            p.use(L_exc_mono.inst(g=g, d=data, hi=pe, lo=ps, m=m, c=i + 1, n=wig - i))
            p.use(L_first_fit.inst(g=g, d=data, hi=pe, lo=ps, m=m, o0=i, c=wig + 1))
            p.use(L_nom_exc.inst(g=g, d=data, hi=pe, lo=ps, m=m, c=i))
        p.use(L_nom_exc.inst(g=g, d=data, hi=pe, lo=ps, m=m, c=wig + 1))
        p.qed()


def _consts_of(formulas):
    acc = {}
    for f in formulas:
        T.free_consts(f, acc)
    return acc


def registry():
    return [MatchGlobRun(), MatchGlobRuns()]
