"""Contracts for the dependency-graph bookkeeping (C03): one producing rule per output (Makefile.rule,
NinjaFile.build), and the ninja `command_build` helper passing every dependency on."""
import z3
from pyvc import terms as T
from pyvc.contract import Contract, Lemma, LoopInv, Args
from pyvc.values import Sym, Obj, PList, PDict, SymMap, opaque_sort, fresh_sym
from pyvc import models as MD
from pyvc import dictmodel as DM

import bfg9000.backends.make.syntax as msyn
import bfg9000.backends.ninja.syntax as nsyn
import bfg9000.backends.ninja.writer as nwriter

Thing = opaque_sort('Thing')
Things = z3.SeqSort(Thing)
THING_TY = ('opaque', 'Thing')
X = z3.Const('x_target', T.Str)            # an arbitrary target text

TS = z3.Function('target_text', Thing, T.Str)        # the escaped text _target_str/_output_str gives for a thing
OCC = T.RecDef('OCC', [Things, T.Str], T.Int, lambda ts, x: z3.IntVal(0),
               lambda ts, x, k, prev: prev + z3.If(TS(ts[k]) == x, 1, 0))


def b2i(b):
    return z3.If(b, z3.IntVal(1), z3.IntVal(0))


def str_set(prefix):
    m = SymMap.fresh(prefix)
    m.is_set = True
    return m


class OneRulePerTarget(Contract):
    """After a normal return, for every target text x:  (#occurrences of x among this call's targets) + [x had a
    rule before] == [x has a rule now]  -- so no text gets a second producing rule, and the set of targets with a
    rule is exactly extended by this call's targets.  A duplicate can therefore only end in ValueError."""
    properties = ('C03', 'C05')
    raises_exact = False
    set_attr = None
    text_fn = None
    loop_key = None
    ghost_keys = [X]

    def raises(self, a):
        return [(ValueError, z3.BoolVal(True))]

    def opaque_calls(self):
        def text(I, args, kwargs, node):
            return MD.mk_str(TS(MD.lift(args[1])))
        return {type(self).__dict__['text_fn']: text}

    def things(self, a):
        raise NotImplementedError

    def ensures(self, a, r):
        ts = self.things(a)
        new = a.self.attrs[self.set_attr]
        return {'one_producing_rule_per_target_text':
                OCC(ts, X, z3.Length(ts)) + b2i(z3.Select(a.old.dom, X)) == b2i(z3.Select(new.dom, X)),
                'rule_recorded_with_all_targets': self.recorded(a)}

    def loops(self):
        def inv(I, loc, i, seq):
            a = self.cur
            cur = loc['self'].attrs[self.set_attr]
            return {'set_is_old_plus_prefix': OCC(self.things(a), X, i) + b2i(z3.Select(a.old.dom, X)) ==
                    b2i(z3.Select(cur.dom, X))}

        def havoc_obj(I, nm, o):
            if nm == 'self':
                o.attrs[self.set_attr] = str_set(T.fresh('hset', T.Int).decl().name())
                return
            from pyvc.interp import OutOfSubset
            raise OutOfSubset('loop mutates %s' % nm)
        return {self.loop_key: LoopInv(inv, var_types={'target': 'str', 'out': 'str', 'i': THING_TY}, havoc_obj=havoc_obj)}


class MakefileRule(OneRulePerTarget):
    target = 'bfg9000/backends/make/syntax.py::Makefile.rule'
    set_attr = '_targets'
    text_fn = msyn.Makefile.__dict__['_target_str']
    loop_key = ('Makefile.rule', 1)

    def params(self, cx, case):
        old = str_set('old_targets')
        cx.ghost('old', old.copy())
        ts = z3.Const('targets', Things)
        selfv = Obj(msyn.Makefile, {'_targets': old, '_rules': PList([]), 'path_vars': PDict()})
        return {'self': selfv, 'target': PList(None, ts, THING_TY), 'deps': None, 'order_only': None, 'recipe': None}

    def things(self, a):
        return a.target.e

    def recorded(self, a):
        rules = a.self.attrs['_rules']
        ok = len(rules.items) == 1 and rules.items[0].attrs['targets'] is a.target
        return z3.BoolVal(ok)


class NinjaBuild(OneRulePerTarget):
    target = 'bfg9000/backends/ninja/syntax.py::NinjaFile.build'
    set_attr = '_build_outputs'
    text_fn = nsyn.NinjaFile.__dict__['_output_str']
    loop_key = ('NinjaFile.build', 1)

    def params(self, cx, case):
        old = str_set('old_outputs')
        cx.ghost('old', old.copy())
        ts = z3.Const('outputs', Things)
        selfv = Obj(nsyn.NinjaFile, {'_build_outputs': old, '_builds': PList([]), '_rules': PDict(), 'path_vars': PDict()})
        return {'self': selfv, 'output': PList(None, ts, THING_TY), 'rule': 'phony'}

    def things(self, a):
        return a.output.e

    def recorded(self, a):
        b = a.self.attrs['_builds']
        ok = len(b.items) == 1 and b.items[0].attrs['outputs'] is a.output
        return z3.BoolVal(ok)


# ---- ninja command_build: the build statement carries every dependency it was given ------------------------

class CommandBuild(Contract):
    target = 'bfg9000/backends/ninja/writer.py::command_build'
    properties = ('C03', 'C20')

    def cases(self):
        return ['%s/%d' % (p, n) for p in ('phony', 'plain') for n in (0, 1, 2)] + ['phony/none', 'plain/none']

    def params(self, cx, case):
        ph, n = case.split('/')
        if n == 'none':
            implicit = None
        else:
            implicit = PList([Sym(z3.Const('dep%d' % i, Thing), THING_TY) for i in range(int(n))])
        bf = Obj(nsyn.NinjaFile, {})
        cx.ghost('given', list(implicit.items) if implicit is not None else [])
        return {'buildfile': bf, 'env': Obj(object, {}), 'output': Sym(z3.Const('out', Thing), THING_TY),
                'inputs': Sym(z3.Const('inp', Thing), THING_TY), 'implicit': implicit,
                'order_only': Sym(z3.Const('oo', Thing), THING_TY), 'command': PList([cx.str('c0')]),
                'phony': ph == 'phony'}

    def opaque_calls(self):
        def rec(name, result=None):
            def h(I, args, kwargs, node):
                I.events.append((name, args[1:], dict(kwargs)))
                return result(I, args) if result else None
            return h
        known = {'has_build': False, 'has_rule': False}
        return {nsyn.NinjaFile.__dict__['build']: rec('build'), nsyn.NinjaFile.__dict__['rule']: rec('rule'),
                nsyn.NinjaFile.__dict__['has_build']: rec('has_build', lambda I, a: I.decide(T.fresh('has_build', T.Bool))),
                nsyn.NinjaFile.__dict__['has_rule']: rec('has_rule', lambda I, a: I.decide(T.fresh('has_rule', T.Bool)))}

    def ensures(self, a, r):
        builds = [e for e in a.events if e[0] == 'build' and e[2].get('output') is a.output]
        out = {'exactly_one_build_statement_for_the_output': z3.BoolVal(len(builds) == 1)}
        if len(builds) != 1:
            return out
        kw = builds[0][2]
        imp = kw.get('implicit')
        items = imp.items if isinstance(imp, PList) and imp.concrete else None
        want = list(a.given) + (['PHONY'] if a.phony else [])
        same = items is not None and len(items) == len(want) and all(x is y or (isinstance(x, str) and x == y)
                                                                    for x, y in zip(items, want))
        out['implicit_deps_are_the_given_ones_plus_PHONY'] = z3.BoolVal(same)
        out['inputs_and_order_only_passed_on'] = z3.BoolVal(kw.get('inputs') is a.inputs and kw.get('order_only') is a.order_only)
        v = kw.get('variables')
        out['command_bound_to_cmd'] = z3.BoolVal(isinstance(v, PDict) and v.d.get('cmd') is a.command)
        rules = [e for e in a.events if e[0] == 'rule']
        # C20: ninja hands a command line to CreateProcess as it is; the one rule every custom command runs through is
        # therefore defined with a *shell list* holding the variable `cmd`, which is what makes Writer.write_shell wrap
        # it in `cmd /s /c "..."` on Windows (contracts/windows.py ShellListWrap) -- whatever the first command was
        import bfg9000.shell.list as _sl
        ok = len(rules) <= 1
        for e in rules:
            c = e[2].get('command')
            ok = ok and isinstance(c, PList) and c.cls is _sl.shell_list and c.concrete and len(c.items) == 1 and \
                isinstance(c.items[0], Obj) and c.items[0].cls is nsyn.Variable
        out['command_rule_runs_cmd_through_the_shell'] = z3.BoolVal(bool(ok))
        if a.phony:
            decl = [e for e in a.events if e[0] == 'build' and e[2].get('output') == 'PHONY']
            asked = [e for e in a.events if e[0] == 'has_build']
            out['PHONY_declared_unless_present'] = z3.BoolVal(len(asked) == 1 and len(decl) <= 1)
        return out


def registry():
    return [MakefileRule(), NinjaBuild(), CommandBuild()]


# ---- bounded: sequences of rule()/build() calls on the real classes ----------------------------------------

from contracts.bounded_cmd import Bounded
import itertools as _it


class RuleDuplicates(Bounded):
    """Sequences of up to three rule()/build() calls with one or two outputs each (strings and Paths): ValueError
    exactly when an output already has a producing rule (or is repeated within the call)."""
    target = 'bfg9000/backends/make/syntax.py::Makefile.rule'
    properties = ('C03', 'C05')
    reason = 'call *sequences* (history of one build file object) are outside one-call contracts'
    POOL = ['a', 'b', 'p:a', 'p:b', 'a b']

    def cases(self):
        return ['make', 'ninja']

    def native_inputs(self, case, alphabet, maxlen, rng, extra=0):
        calls = [(x,) for x in self.POOL] + list(_it.permutations(self.POOL[:4], 2))
        for n in (1, 2, 3):
            seqs = list(_it.product(range(len(calls)), repeat=n))
            if len(seqs) > 1500:
                seqs = rng.sample(seqs, 1500)
            for s in seqs:
                yield {'calls': [list(calls[i]) for i in s]}

    def native_check(self, case, raw):
        from bfg9000.path import Path
        from bfg9000.file_types import File

        def thing(t):
            return Path(t[2:]) if t.startswith('p:') else t
        bf = msyn.Makefile('build.bfg') if case == 'make' else nsyn.NinjaFile('build.bfg')
        have = set()
        for step, call in enumerate(raw['calls']):
            names = [t[2:] if t.startswith('p:') else t for t in call]
            dup = len(set(names)) < len(names) or any(n in have for n in names)
            try:
                if case == 'make':
                    bf.rule([thing(t) for t in call])
                else:
                    bf.build([thing(t) for t in call], 'phony')
                raised = False
            except ValueError:
                raised = True
            if raised != dup:
                return self.fail(case, raw, 'duplicate_output_rejected_iff_already_produced', step=step, call=call,
                                 raised=raised, expected_rejection=dup)
            if raised:
                return True
            have.update(names)
        return True


def registry():
    return [MakefileRule(), NinjaBuild(), CommandBuild(), RuleDuplicates()]
