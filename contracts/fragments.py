"""Shared pieces for the Writer.write contracts of both backends: abstract fragments (elements of a jbos whose
kind is not known), the text / flag a write of such an element produces (uninterpreted, indexed by syntax and
shell_quote), and their concatenation over a list (recursive definitions, unfolded by instance)."""
import z3
from pyvc import terms as T
from pyvc.values import Sym, Obj, PList, opaque_sort, fresh_sym
from pyvc.contract import LoopInv

SafeStr = opaque_sort('SafeStr')
Bits = z3.SeqSort(SafeStr)
BITS_TY = ('seq', ('opaque', 'SafeStr'))

_FS = {}


class FragFns:
    """Wt(x): text written for fragment x;  We(x): the `escaped` flag returned;  CW/OE: over a list prefix."""

    def __init__(self, key):
        tag = '_'.join(str(k) for k in key)
        self.Wt = z3.Function('Wt_' + tag, SafeStr, T.Str)
        self.We = z3.Function('We_' + tag, SafeStr, T.Bool)
        Wt, We = self.Wt, self.We
        self.CW = T.RecDef('CW_' + tag, [Bits], T.Str, lambda b: z3.Empty(T.Str),
                           lambda b, k, prev: z3.Concat(prev, Wt(b[k])))
        self.OE = T.RecDef('OE_' + tag, [Bits], T.Bool, lambda b: z3.BoolVal(False),
                           lambda b, k, prev: z3.Or(prev, We(b[k])))


def frag_fns(backend, syntax, sq):
    key = (backend, syntax.name, sq)
    if key not in _FS:
        _FS[key] = FragFns(key)
    return _FS[key]


def sq_tag(fn, default='quote'):
    """Tag of the shell_quote argument."""
    import bfg9000.shell.posix as posix
    from bfg9000 import iterutils
    if fn is None:
        return 'none'
    if fn is iterutils.default_sentinel:
        return default
    if fn is posix.quote_info:
        return 'quote'
    if fn is posix.inner_quote_info:
        return 'inner'
    from pyvc.interp import OutOfSubset
    raise OutOfSubset('unknown shell_quote function %r' % (fn,))


def sq_fn(tag):
    import bfg9000.shell.posix as posix
    return {'quote': posix.quote_info, 'inner': posix.inner_quote_info, 'none': None}[tag]


def the_flag(loc, params):
    """The one boolean local of a loop that is not a parameter, whatever it is called (invariants speak about the
    state, not about the names of temporaries)."""
    from pyvc.interp import OutOfSubset
    cands = [v for k, v in loc.items() if k not in params and not k.startswith('__') and
             (isinstance(v, bool) or (isinstance(v, Sym) and v.ty == 'bool'))]
    if len(cands) != 1:
        raise OutOfSubset('the loop invariant needs exactly one boolean local, found %d' % len(cands))
    return cands[0]


def jbos_loop_invariant(backend, contract):
    """Invariant of `for i in thing.bits: escaped |= self.write(i, syntax, shell_quote)`."""
    def inv(I, loc, i, seq):
        a = contract.cur
        fns = frag_fns(backend, loc['syntax'], contract.cur_sq)
        bits = loc['thing'].attrs['_jbos__bits'].e
        buf = loc['self'].attrs['stream'].buf
        from pyvc import models as M
        esc = the_flag(loc, ('self', 'thing', 'syntax', 'shell_quote', 'shelly'))
        return {'text_so_far': M.sym_str(buf) == z3.Concat(a.buf0, fns.CW(bits, i)),
                'flag_so_far': T.zbool(M.lift(esc)) == fns.OE(bits, i)}

    def havoc_obj(I, nm, cur):
        if nm == 'self':
            cur.attrs['stream'].buf = fresh_sym('h_buf', 'str')
            return
        from pyvc.interp import OutOfSubset
        raise OutOfSubset('loop mutates %s' % nm)
    return LoopInv(inv, havoc_obj=havoc_obj)


# ---- `$` doubling: the escape both build-file formats use for text that must survive one expansion --------------

DOLLAR_CH = ord('$')
dollar2 = T.make_cmap('spec_dollar2', lambda c: T.ite(T.eq(c, DOLLAR_CH), T.lit('$$'), T.unit(c)))


def dol(w):
    return dollar2.out((0,), w)


_SAME = {}


def same_cmap_lemma(code_fold, spec_fold, tag):
    """The character homomorphism the code uses (e.g. the fold of `s.replace('$', '$$')`) is the spec's one."""
    from pyvc.contract import Lemma
    key = (code_fold.name, spec_fold.name)
    if key not in _SAME:
        _SAME[key] = Lemma('code_%s_is_%s' % (code_fold.name, spec_fold.name), [('u', T.Str)],
                           lambda u, a=code_fold, b=spec_fold: a.out((0,), u) == b.out((0,), u), induct=('snoc', 'u'))
    return _SAME[key]


NONNEG = T._Negative.__new__(T._Negative)


class _NonNegative(T.CharClass):
    def __init__(self):
        T.CharClass.__init__(self, [(0, 1 << 62)], 'non-negative')

    def contains(self, c):
        if isinstance(c, int):
            return c >= 0
        if z3.is_int_value(c):
            return z3.BoolVal(c.as_long() >= 0)
        return c >= 0


NONNEG = _NonNegative()


def all_markers(w):
    """every element of w is a marker (negative code)"""
    from pyvc import models as M
    return z3.Not(M.any_fold(NONNEG).state((0,), w)[0] == 1)
