"""C03 / C06: the per-builtin emitters of custom steps (command / build_step) against one description of the step.

What the property says about a step -- its outputs, every file it consumes (files named in the command *and*
extra_deps), its command line with its environment, and whether it is always out of date -- is written once
(`step_spec`) from the step object; the Make emitter and the Ninja emitter are each verified to hand exactly that
description to their backend (`multitarget_rule`, whose own duty is C03's one-rule-per-target contract, and
`command_build`, which is under contract in contracts/graph.py).  Since both refine the same description, the two build
files agree on the step (C06).  The step object is abstract: its fields are arbitrary values, its dependency lists
have the lengths 0..2 (list concatenation is uniform in the length; not an induction)."""
import z3
from pyvc import terms as T
from pyvc.contract import Contract
from pyvc.values import Sym, Obj, PList, opaque_sort

import bfg9000.builtins.command as C
from bfg9000.backends.make import writer as mkw
from bfg9000.backends.ninja import writer as njw
from bfg9000.shell import posix as pshell

ThingT = opaque_sort('StepThing')
TT = ('opaque', 'StepThing')


def thing(name):
    return Sym(z3.Const(name, ThingT), TT)


def step_spec(a):
    """The description of the step, read off the step object."""
    r = a.rule.attrs
    return {'outputs': r['output'], 'consumed': list(a.files) + list(a.extra), 'env': r['env'], 'cmds': r['cmds'],
            'always_outdated': r['phony']}


class StepEmitter(Contract):
    properties = ('C03', 'C06')

    def cases(self):
        return ['%s/%d/%d' % (k, nf, nx) for k in ('build_step', 'command') for nf in (0, 1, 2) for nx in (0, 1, 2)]

    def params(self, cx, case):
        kind, nf, nx = case.split('/')
        files = [thing('file%d' % i) for i in range(int(nf))]
        extra = [thing('extra%d' % i) for i in range(int(nx))]
        cx.ghost('files', list(files))
        cx.ghost('extra', list(extra))
        rule = Obj(C.BuildStep if kind == 'build_step' else C.Command, {
            'output': thing('outputs'), 'files': PList(files), 'extra_deps': PList(extra), 'env': thing('environment'),
            'cmds': thing('commands'), 'phony': cx.bool('always_outdated'), 'console': cx.bool('console'),
            'description': thing('description')})
        return {'rule': rule, 'build_inputs': Obj(object, {}), 'buildfile': Obj(object, {}), 'env': Obj(object, {})}

    @staticmethod
    def rec(name, result=None):
        def h(I, args, kwargs, node):
            I.events.append((name, list(args), dict(kwargs)))
            return result(I, args, kwargs) if result else None
        return h

    @staticmethod
    def command_line(name):
        def result(I, args, kwargs):
            return Obj(object, {'command_line_of': (args[0], args[1])})
        return StepEmitter.rec(name, result)

    @staticmethod
    def same_items(lst, want):
        items = lst.items if isinstance(lst, PList) and lst.concrete else None
        return items is not None and len(items) == len(want) and all(x is y for x, y in zip(items, want))

    @staticmethod
    def is_command_line(v, spec):
        return isinstance(v, Obj) and v.attrs.get('command_line_of') is not None and \
            v.attrs['command_line_of'][0] is spec['env'] and v.attrs['command_line_of'][1] is spec['cmds']


class MakeCommand(StepEmitter):
    target = 'bfg9000/builtins/command.py::make_command'

    def opaque_calls(self):
        return {mkw.multitarget_rule: self.rec('rule'), pshell.global_env: self.command_line('global_env'),
                mkw.directory_deps: self.rec('directory_deps', lambda I, a, k: PList([Obj(object, {'sentinels_of': a[0]})]))}

    def ensures(self, a, r):
        spec = step_spec(a)
        rules = [e for e in a.events if e[0] == 'rule']
        out = {'exactly_one_rule_for_the_step': z3.BoolVal(len(rules) == 1)}
        if len(rules) != 1:
            return out
        _, args, kw = rules[0]
        out['targets_are_the_outputs'] = z3.BoolVal(kw.get('targets') is spec['outputs'])
        out['depends_on_every_consumed_file'] = z3.BoolVal(self.same_items(kw.get('deps'), spec['consumed']))
        rec = kw.get('recipe')
        out['recipe_is_the_command_line_with_its_environment'] = z3.BoolVal(
            isinstance(rec, PList) and rec.concrete and len(rec.items) == 1 and self.is_command_line(rec.items[0], spec))
        out['always_outdated_iff_declared'] = z3.BoolVal(kw.get('phony') is spec['always_outdated'])
        return out


class NinjaCommand(StepEmitter):
    target = 'bfg9000/builtins/command.py::ninja_command'

    def opaque_calls(self):
        import bfg9000.shell as shell
        return {njw.command_build: self.rec('build'), shell.global_env: self.command_line('global_env')}

    def ensures(self, a, r):
        spec = step_spec(a)
        builds = [e for e in a.events if e[0] == 'build']
        out = {'exactly_one_build_statement_for_the_step': z3.BoolVal(len(builds) == 1)}
        if len(builds) != 1:
            return out
        _, args, kw = builds[0]
        out['outputs_are_the_outputs'] = z3.BoolVal(kw.get('output') is spec['outputs'])
        inp, imp = kw.get('inputs'), kw.get('implicit')
        both = None
        if all(isinstance(x, PList) and x.concrete for x in (inp, imp)) and kw.get('order_only') is None:
            both = PList(list(inp.items) + list(imp.items))
        out['depends_on_every_consumed_file'] = z3.BoolVal(both is not None and self.same_items(both, spec['consumed']))
        out['command_is_the_command_line_with_its_environment'] = z3.BoolVal(self.is_command_line(kw.get('command'), spec))
        out['always_outdated_iff_declared'] = z3.BoolVal(kw.get('phony') is spec['always_outdated'])
        return out


def registry():
    return [MakeCommand(), NinjaCommand()]


# ---- copy_file / compressed man pages: three emitters, one description ---------------------------------------
#
# The step runs the copy program on (effective source, output); the effective source is the file itself, or -- for
# a copier that rewrites its source operand (a symbolic link is made relative to its own directory) --
# transform_input(file, raw_output).  Make and Ninja write the command once as a template with placeholders; the
# contract resolves each placeholder through what the emitter binds it to (`$<` / `${in}`: the first prerequisite /
# the inputs; `$1` / `${input}`: the call argument / the build-level variable; `$@` / `${out}`: the outputs).

import bfg9000.builtins.copy_file as CF
from bfg9000.backends.make import syntax as msyn
from bfg9000.backends.ninja import syntax as nsyn
from pyvc.values import OpaqueFn, PDict


def copy_spec(a):
    r = a.rule.attrs
    return {'outputs': r['output'], 'file': r['file'], 'raw_output': r['raw_output'], 'transforms': a.transforms,
            'consumed': [r['file']] + list(a.extra)}


class CopyEmitter(StepEmitter):
    properties = ('C06', 'C03', 'C01', 'C02')

    def cases(self):
        return ['%s/%d/%s' % (t, nx, h) for t in ('plain', 'transforming') for nx in (0, 1, 2) for h in ('first-use', 'template-exists')]

    def params(self, cx, case):
        t, nx, h = case.split('/')
        extra = [thing('extra%d' % i) for i in range(int(nx))]
        cx.ghost('extra', list(extra))
        cx.ghost('transforms', t == 'transforming')
        cx.ghost('template_exists', h == 'template-exists')

        def run(I, args, kwargs):
            I.events.append(('copier', list(args), dict(kwargs)))
            return Obj(object, {'copy_command_on': (args[0], args[1])})

        def transform(I, args, kwargs):
            I.events.append(('transform', list(args), dict(kwargs)))
            return Obj(object, {'transformed': (args[0], args[1])})
        attrs = {'rule_name': 'cp', '__call__': OpaqueFn('copier', run)}
        if t == 'transforming':
            attrs['transform_input'] = OpaqueFn('transform_input', transform)
        out = thing('output0')
        rule = Obj(CF.CopyFile, {'copier': Obj(object, attrs), 'file': thing('file'), 'raw_output': thing('raw_output'),
                                 'output': PList([out]), 'public_output': PList([out]), 'extra_deps': PList(extra),
                                 'description': thing('description'), 'mode': 'copy'})
        return {'rule': rule, 'build_inputs': Obj(object, {}), 'buildfile': self.buildfile(), 'env': Obj(object, {})}

    def exists(self, I):
        return bool(self.cur.template_exists)

    @staticmethod
    def variable(cls, quoted=None):
        """var() / qvar() of a backend on a plain word: the Variable object with that name (the constructor's
        re.sub only rewrites non-word characters, which the names used by these emitters do not contain)."""
        import re as _re

        def h(I, args, kwargs, node):
            v = args[0]
            if isinstance(v, Obj):
                return v
            if not (isinstance(v, str) and _re.fullmatch(r'\w+|[<@]', v)):
                from pyvc.interp import OutOfSubset
                raise OutOfSubset('variable name %r' % (v,), node)
            attrs = {'name': v}
            if cls is msyn.Variable:
                attrs['quoted'] = quoted if quoted is not None else (args[1] if len(args) > 1 else kwargs.get('quoted', False))
            return Obj(cls, attrs)
        return h

    @staticmethod
    def ph(v):
        """Name of the backend variable a value stands for (a real Variable object of the backend's syntax module)."""
        if isinstance(v, Obj) and v.cls in (msyn.Variable, nsyn.Variable):
            return v.attrs.get('name')
        return None

    def is_effective_source(self, v, spec):
        if spec['transforms']:
            return isinstance(v, Obj) and v.attrs.get('transformed') is not None and \
                v.attrs['transformed'][0] is spec['file'] and v.attrs['transformed'][1] is spec['raw_output']
        return v is spec['file']


class MakeCopyFile(CopyEmitter):
    target = 'bfg9000/builtins/copy_file.py::make_copy_file'

    def buildfile(self):
        return Obj(msyn.Makefile, {})

    def opaque_calls(self):
        return {msyn.Makefile.__dict__['rule']: self.rec('rule'), msyn.Makefile.__dict__['define']: self.rec('define'),
                msyn.Makefile.__dict__['has_variable']: self.rec('has_variable', lambda I, a, k: self.exists(I)),
                mkw.directory_deps: self.rec('directory_deps', lambda I, a, k: PList([Obj(object, {'sentinels_of': a[0]})])),
                msyn.var: self.variable(msyn.Variable), msyn.qvar: self.variable(msyn.Variable, True)}

    def ensures(self, a, r):
        spec = copy_spec(a)
        rules = [e for e in a.events if e[0] == 'rule']
        out = {'exactly_one_rule_for_the_step': z3.BoolVal(len(rules) == 1)}
        copies = [e for e in a.events if e[0] == 'copier']
        if len(rules) != 1:
            return out
        kw = rules[0][2]
        out['targets_are_the_outputs'] = z3.BoolVal(kw.get('target') is spec['outputs'])
        out['depends_on_every_consumed_file'] = z3.BoolVal(self.same_items(kw.get('deps'), spec['consumed']))
        # the recipe is $(call <template>, arguments...)
        rec_ = kw.get('recipe')
        call = None
        if isinstance(rec_, Obj) and rec_.cls is msyn.Function and rec_.attrs.get('name') == 'call':
            call = list(rec_.attrs['args'].items if isinstance(rec_.attrs['args'], PList) else rec_.attrs['args'])
        out['recipe_calls_a_template'] = z3.BoolVal(call is not None and len(call) >= 1)
        if call is None:
            return out
        # resolve the placeholders of the template
        if a.template_exists:
            # the template of an earlier step of the same copier: its source placeholder is $1 iff the copier transforms
            src_ph, dst_ph = ('1' if spec['transforms'] else '<'), '@'
        elif len(copies) == 1:
            src_ph, dst_ph = (self.ph(x) for x in copies[0][1][:2])
        else:
            out['command_template_built_once'] = z3.BoolVal(False)
            return out
        if src_ph == '<':
            deps = kw.get('deps')
            source = deps.items[0] if isinstance(deps, PList) and deps.concrete and deps.items else None
        elif src_ph == '1':
            source = call[1] if call and len(call) > 1 else None
        else:
            source = None
        out['source_operand_is_the_effective_source'] = z3.BoolVal(source is not None and self.is_effective_source(source, spec))
        out['destination_operand_is_the_output'] = z3.BoolVal(dst_ph == '@')
        defs = [e for e in a.events if e[0] == 'define']
        if not a.template_exists:
            ok = len(defs) == 1 and call is not None and self.ph(defs[0][1][1]) is not None and self.ph(defs[0][1][1]) == call[0] and \
                isinstance(defs[0][1][2], PList) and len(defs[0][1][2].items) == 1 and \
                defs[0][1][2].items[0].attrs.get('copy_command_on') is not None
            out['template_defined_under_the_called_name'] = z3.BoolVal(bool(ok))
        else:
            out['existing_template_not_redefined'] = z3.BoolVal(not defs)
        return out


class NinjaCopyFile(CopyEmitter):
    target = 'bfg9000/builtins/copy_file.py::ninja_copy_file'

    def buildfile(self):
        return Obj(nsyn.NinjaFile, {})

    def opaque_calls(self):
        return {nsyn.NinjaFile.__dict__['rule']: self.rec('rule'), nsyn.NinjaFile.__dict__['build']: self.rec('build'),
                nsyn.NinjaFile.__dict__['has_rule']: self.rec('has_rule', lambda I, a, k: self.exists(I)),
                nsyn.var: self.variable(nsyn.Variable)}

    def ensures(self, a, r):
        spec = copy_spec(a)
        builds = [e for e in a.events if e[0] == 'build']
        out = {'exactly_one_build_statement_for_the_step': z3.BoolVal(len(builds) == 1)}
        if len(builds) != 1:
            return out
        kw = builds[0][2]
        out['outputs_are_the_outputs'] = z3.BoolVal(kw.get('output') is spec['outputs'])
        inp, imp = kw.get('inputs'), kw.get('implicit')
        consumed = ([inp] if not isinstance(inp, PList) else list(inp.items)) + (list(imp.items) if isinstance(imp, PList) and imp.concrete else [None])
        out['depends_on_every_consumed_file'] = z3.BoolVal(len(consumed) == len(spec['consumed']) and
                                                           all(x is y for x, y in zip(consumed, spec['consumed'])))
        variables = kw.get('variables')
        bound = {self.ph(k): v for k, v in variables.d.items() if self.ph(k)} if isinstance(variables, PDict) else {}
        copies = [e for e in a.events if e[0] == 'copier']
        rules = [e for e in a.events if e[0] == 'rule']
        if a.template_exists:
            out['existing_template_not_redefined'] = z3.BoolVal(not rules and not copies)
            # the template of an earlier step of the same copier: its source placeholder is `input` iff the copier transforms
            src_ph = 'input' if spec['transforms'] else 'in'
        else:
            ok = len(rules) == 1 and len(copies) == 1 and rules[0][2].get('name') == kw.get('rule') and \
                isinstance(rules[0][2].get('command'), Obj) and rules[0][2]['command'].attrs.get('copy_command_on') is not None
            out['template_defined_under_the_used_rule_name'] = z3.BoolVal(bool(ok))
            if not ok:
                return out
            src_ph, dst_ph = (self.ph(x) for x in copies[0][1][:2])
            out['destination_operand_is_the_output'] = z3.BoolVal(dst_ph == 'out')
        if src_ph == 'in':
            source = inp
        else:
            source = bound.get(src_ph)
        out['source_operand_is_the_effective_source'] = z3.BoolVal(source is not None and self.is_effective_source(source, spec))
        return out


class CompdbCopyFile(CopyEmitter):
    target = 'bfg9000/builtins/copy_file.py::compdb_copy_file'

    def cases(self):
        return ['%s/%d/first-use' % (t, nx) for t in ('plain', 'transforming') for nx in (0, 1)]

    def buildfile(self):
        return Obj(object, {'append': OpaqueFn('append', lambda I, args, kwargs: I.events.append(('append', list(args), dict(kwargs))))})

    def opaque_calls(self):
        return {}

    def ensures(self, a, r):
        spec = copy_spec(a)
        app = [e for e in a.events if e[0] == 'append']
        copies = [e for e in a.events if e[0] == 'copier']
        out = {'exactly_one_entry_for_the_step': z3.BoolVal(len(app) == 1 and len(copies) == 1)}
        if len(app) != 1 or len(copies) != 1:
            return out
        kw = app[0][2]
        cmd = kw.get('arguments')
        out['entry_is_the_copy_command'] = z3.BoolVal(isinstance(cmd, Obj) and cmd.attrs.get('copy_command_on') is not None)
        out['source_operand_is_the_effective_source'] = z3.BoolVal(self.is_effective_source(copies[0][1][0], spec))
        out['destination_operand_is_the_output'] = z3.BoolVal(copies[0][1][1] is spec['outputs'].items[0])
        out['entry_names_the_source_file'] = z3.BoolVal(kw.get('file') is spec['file'])
        return out


# ---- compile steps (object files, precompiled headers, generated sources) ---------------------------------------
#
# What the property says a compile step consumes: its source, the precompiled header it uses, the source a precompiled
# header is built from, explicitly passed headers (include_deps), libraries, the files of its packages, extra_deps.
# Both emitters must make the step depend on exactly that set, produce every output, hand the step's primary input to
# the command template (`$<` / `${in}`) and bind every output placeholder of the template to the matching output.

import bfg9000.builtins.compile as CO


def compile_spec(a):
    r = a.rule.attrs
    consumed = [r['file']]
    for k in ('pch', 'pch_source'):
        if r.get(k) is not None:
            consumed.append(r[k])
    consumed += list(a.headers) + list(a.libs) + list(a.pkgdeps) + list(a.extra)
    return {'outputs': list(r['output'].items), 'consumed': consumed,
            'primary_input': r['pch_source'] if r.get('pch_source') is not None else r['file']}


class CompileEmitter(CopyEmitter):
    properties = ('C03', 'C06', 'C07', 'C01', 'C02')

    def cases(self):
        return ['%s/%s/%s/%s/%s' % (p, n, f, h, d) for p in ('plain', 'uses-pch', 'pch-from-source')
                for n in ('all', '1', '2') for f in ('gcc', 'none') for h in ('first-use', 'template-exists')
                for d in ('deps', 'bare')]

    def params(self, cx, case):
        p, n, f, h, d = case.split('/')
        full = d == 'deps'
        headers = [thing('header0'), thing('header1')] if full else []
        libs = [thing('lib0')] if full else []
        pkgdeps = [thing('pkgfile0')] if full else []
        extra = [thing('extra0')] if full else []
        for k, v in (('headers', headers), ('libs', libs), ('pkgdeps', pkgdeps), ('extra', extra)):
            cx.ghost(k, list(v))
        cx.ghost('template_exists', h == 'template-exists')
        cx.ghost('transforms', False)

        def run(I, args, kwargs):
            I.events.append(('compiler', list(args), dict(kwargs)))
            return Obj(object, {'compile_command_on': (args[0], args[1])})
        compiler = Obj(object, {'rule_name': 'cc', 'num_outputs': n if n == 'all' else int(n), 'deps_flavor': None if f == 'none' else f,
                                '__call__': OpaqueFn('compiler', run)})
        nout = 2 if n in ('all', '2') else 1

        def outfile(i):
            dep = thing('depfile%d' % i)
            return Obj(object, {'tag': 'output%d' % i,
                                'path': Obj(object, {'addext': OpaqueFn('addext', lambda I, args, kwargs: dep)})})
        attrs = {'compiler': compiler, 'output': PList([outfile(i) for i in range(nout)]), 'file': thing('file'),
                 'extra_deps': PList(extra), 'description': thing('description'), 'desc_verb': 'compile'}
        if full:
            attrs.update({'include_deps': PList(headers), 'libs': PList(libs),
                          'packages': PList([Obj(object, {'deps': PList(pkgdeps)})])})
        if p == 'uses-pch':
            attrs['pch'] = Obj(object, {'tag': 'pch'})            # a file object (always true)
        if p == 'pch-from-source':
            attrs['pch_source'] = Obj(object, {'tag': 'pch_source'})
        rule = Obj(CO.CompileSource, attrs)
        env = Obj(object, {'tool': OpaqueFn('tool', lambda I, args, kwargs: OpaqueFn('depfixer', lambda I2, a2, k2: Obj(object, {'depfixer_on': a2[0]})))})
        bi = Obj(object, {'add_target': OpaqueFn('add_target', lambda I, args, kwargs: None)})
        return {'rule': rule, 'build_inputs': bi, 'buildfile': self.buildfile(), 'env': env}

    def get_flags(self):
        def h(I, args, kwargs, node):
            I.events.append(('get_flags', list(args), dict(kwargs)))
            return (PDict({}), PDict({}))
        return h

    @staticmethod
    def same_set(got, want):
        return got is not None and len(got) == len(want) and {id(x) for x in got} == {id(x) for x in want}


class MakeCompile(CompileEmitter):
    target = 'bfg9000/builtins/compile.py::make_compile'

    def buildfile(self):
        return Obj(msyn.Makefile, {})

    def opaque_calls(self):
        import bfg9000.file_types as FT
        return {mkw.multitarget_rule: self.rec('rule'), msyn.Makefile.__dict__['define']: self.rec('define'),
                msyn.Makefile.__dict__['include']: self.rec('include'),
                msyn.Makefile.__dict__['has_variable']: self.rec('has_variable', lambda I, a, k: self.exists(I)),
                mkw.directory_deps: self.rec('directory_deps', lambda I, a, k: PList([Obj(object, {'sentinels_of': a[0]})])),
                msyn.var: self.variable(msyn.Variable), msyn.qvar: self.variable(msyn.Variable, True),
                CO._get_flags: self.get_flags(), FT.File: self.rec('File', lambda I, a, k: Obj(object, {'file_of': a[0]}))}

    def ensures(self, a, r):
        spec = compile_spec(a)
        rules = [e for e in a.events if e[0] == 'rule']
        out = {'exactly_one_rule_for_the_step': z3.BoolVal(len(rules) == 1)}
        if len(rules) != 1:
            return out
        kw = rules[0][2]
        tg = kw.get('targets')
        out['targets_are_the_outputs'] = z3.BoolVal(isinstance(tg, PList) and tg.concrete and
                                                    len(tg.items) == len(spec['outputs']) and
                                                    all(x is y for x, y in zip(tg.items, spec['outputs'])))
        deps = kw.get('deps')
        items = list(deps.items) if isinstance(deps, PList) and deps.concrete else None
        out['depends_on_exactly_the_consumed_files'] = z3.BoolVal(self.same_set(items, spec['consumed']))
        out['first_prerequisite_is_the_primary_input'] = z3.BoolVal(bool(items) and items[0] is spec['primary_input'])
        rec_ = kw.get('recipe')
        call = None
        if isinstance(rec_, Obj) and rec_.cls is msyn.Function and rec_.attrs.get('name') == 'call':
            call = list(rec_.attrs['args'].items if isinstance(rec_.attrs['args'], PList) else rec_.attrs['args'])
        out['recipe_calls_a_template'] = z3.BoolVal(call is not None and len(call) >= 1)
        if call is None:
            return out
        n = a.rule.attrs['compiler'].attrs['num_outputs']
        # $1..$n of the template are the call arguments: the outputs in order; `all` uses $@ (every target)
        want_params = [] if n == 'all' else spec['outputs'][:n]
        out['output_placeholders_bound_to_the_outputs'] = z3.BoolVal(
            len(call) - 1 == len(want_params) and all(x is y for x, y in zip(call[1:], want_params)))
        comp = [e for e in a.events if e[0] == 'compiler']
        if not a.template_exists:
            ok = len(comp) == 1 and self.ph(comp[0][1][0]) == '<'
            ov = comp[0][1][1] if len(comp) == 1 else None
            if n == 'all':
                ok = ok and self.ph(ov) == '@'
            else:
                ok = ok and isinstance(ov, PList) and [self.ph(x) for x in ov.items] == [str(i + 1) for i in range(n)]
            out['template_reads_the_first_prerequisite_and_writes_the_output_placeholders'] = z3.BoolVal(bool(ok))
            defs = [e for e in a.events if e[0] == 'define']
            out['template_defined_under_the_called_name'] = z3.BoolVal(
                len(defs) == 1 and self.ph(defs[0][1][1]) is not None and self.ph(defs[0][1][1]) == call[0])
        else:
            out['existing_template_not_redefined'] = z3.BoolVal(not comp and not [e for e in a.events if e[0] == 'define'])
        return out


class NinjaCompile(CompileEmitter):
    target = 'bfg9000/builtins/compile.py::ninja_compile'

    def buildfile(self):
        return Obj(nsyn.NinjaFile, {})

    def opaque_calls(self):
        return {nsyn.NinjaFile.__dict__['rule']: self.rec('rule'), nsyn.NinjaFile.__dict__['build']: self.rec('build'),
                nsyn.NinjaFile.__dict__['has_rule']: self.rec('has_rule', lambda I, a, k: self.exists(I)),
                nsyn.var: self.variable(nsyn.Variable), CO._get_flags: self.get_flags()}

    def ensures(self, a, r):
        spec = compile_spec(a)
        builds = [e for e in a.events if e[0] == 'build']
        main = [e for e in builds if e[2].get('rule') == 'cc']
        alias = [e for e in builds if e[2].get('rule') == 'phony']
        out = {'exactly_one_build_statement_runs_the_step': z3.BoolVal(len(main) == 1 and len(main) + len(alias) == len(builds))}
        if len(main) != 1:
            return out
        kw = main[0][2]

        def as_list(v):
            if isinstance(v, PList):
                return list(v.items) if v.concrete else None
            return [v]
        produced = as_list(kw.get('output')) or []
        for e in alias:
            # an alias statement: further outputs that stand for the first one
            src = as_list(e[2].get('inputs'))
            if src and len(src) == 1 and src[0] is produced[0]:
                produced += as_list(e[2].get('output')) or []
        out['every_output_is_produced'] = z3.BoolVal(self.same_set(produced, spec['outputs']))
        inp, imp = as_list(kw.get('inputs')), as_list(kw.get('implicit'))
        both = (inp or []) + (imp or []) if inp is not None and imp is not None else None
        out['depends_on_exactly_the_consumed_files'] = z3.BoolVal(self.same_set(both, spec['consumed']))
        out['input_of_the_template_is_the_primary_input'] = z3.BoolVal(inp is not None and len(inp) == 1 and inp[0] is spec['primary_input'])
        n = a.rule.attrs['compiler'].attrs['num_outputs']
        variables = kw.get('variables')
        bound = {self.ph(k): v for k, v in variables.d.items() if self.ph(k)} if isinstance(variables, PDict) else {}
        names = [] if n == 'all' else (['output'] if n == 1 else ['output%d' % (i + 1) for i in range(n)])
        out['output_placeholders_bound_to_the_outputs'] = z3.BoolVal(
            sorted(bound) == sorted(names) and all(bound[nm] is spec['outputs'][i] for i, nm in enumerate(names)))
        comp = [e for e in a.events if e[0] == 'compiler']
        rules = [e for e in a.events if e[0] == 'rule']
        if not a.template_exists:
            ok = len(comp) == 1 and len(rules) == 1 and rules[0][2].get('name') == 'cc' and self.ph(comp[0][1][0]) == 'in'
            ov = comp[0][1][1] if len(comp) == 1 else None
            if n == 'all':
                ok = ok and self.ph(ov) == 'out'
            elif n == 1:
                ok = ok and self.ph(ov) == 'output'
            else:
                ok = ok and isinstance(ov, PList) and [self.ph(x) for x in ov.items] == names
            out['template_reads_the_inputs_and_writes_the_output_placeholders'] = z3.BoolVal(bool(ok))
        else:
            out['existing_template_not_redefined'] = z3.BoolVal(not comp and not rules)
        return out


# ---- link steps -----------------------------------------------------------------------------------------------------
#
# A link step consumes its object files, its libraries, the files of its packages, module definition files, a manifest
# and extra_deps; the linker's input operand is the object files (or transform_input(files) for a linker that
# rewrites its inputs); every output placeholder of the template is bound to the matching output.

import bfg9000.builtins.link as LK


def link_spec(a):
    r = a.rule.attrs
    consumed = list(a.objects) + list(a.libs) + list(a.pkgdeps)
    for k in ('module_defs', 'manifest'):
        if r.get(k) is not None:
            consumed.append(r[k])
    consumed += list(a.extra)
    return {'outputs': list(r['output'].items), 'consumed': consumed, 'files': r['files'], 'transforms': a.transforms}


class LinkEmitter(CompileEmitter):
    properties = ('C03', 'C06', 'C01', 'C02')

    def cases(self):
        return ['%s/%s/%s/%s/%s' % (t, n, h, d, w) for t in ('plain', 'transforming') for n in ('all', '1', '2')
                for h in ('first-use', 'template-exists') for d in ('deps', 'bare') for w in ('posix', 'windows-extras')]

    def params(self, cx, case):
        t, n, h, d, w = case.split('/')
        full = d == 'deps'
        objects = [thing('object0'), thing('object1')]
        libs = [thing('lib0')] if full else []
        pkgdeps = [thing('pkgfile0')] if full else []
        extra = [thing('extra0')] if full else []
        for k, v in (('objects', objects), ('libs', libs), ('pkgdeps', pkgdeps), ('extra', extra)):
            cx.ghost(k, list(v))
        cx.ghost('template_exists', h == 'template-exists')
        cx.ghost('transforms', t == 'transforming')

        def run(I, args, kwargs):
            I.events.append(('linker', list(args), dict(kwargs)))
            return Obj(object, {'link_command_on': (args[0], args[1])})

        def transform(I, args, kwargs):
            I.events.append(('transform', list(args), dict(kwargs)))
            return Obj(object, {'transformed': tuple(args)})
        lattrs = {'rule_name': 'ld', 'num_outputs': n if n == 'all' else int(n), '__call__': OpaqueFn('linker', run)}
        if t == 'transforming':
            lattrs['transform_input'] = OpaqueFn('transform_input', transform)
        nout = 2 if n in ('all', '2') else 1
        attrs = {'linker': Obj(object, lattrs), 'output': PList([Obj(object, {'tag': 'output%d' % i}) for i in range(nout)]),
                 'files': PList(objects), 'libs': PList(libs), 'extra_deps': PList(extra), 'description': thing('description'),
                 'desc_verb': 'link', 'packages': PList([Obj(object, {'deps': PList(pkgdeps)})] if full else [])}
        if w == 'windows-extras':
            attrs['module_defs'] = Obj(object, {'tag': 'module_defs'})
            attrs['manifest'] = Obj(object, {'tag': 'manifest'})
        rule = Obj(LK.DynamicLink, attrs)
        return {'rule': rule, 'build_inputs': Obj(object, {}), 'buildfile': self.buildfile(), 'env': Obj(object, {})}

    def is_link_input(self, v, spec):
        if spec['transforms']:
            return isinstance(v, Obj) and v.attrs.get('transformed') is not None and v.attrs['transformed'][0] is spec['files']
        return v is spec['files']


class MakeLink(LinkEmitter):
    target = 'bfg9000/builtins/link.py::make_link'

    def buildfile(self):
        return Obj(msyn.Makefile, {})

    def opaque_calls(self):
        return {mkw.multitarget_rule: self.rec('rule'), msyn.Makefile.__dict__['define']: self.rec('define'),
                msyn.Makefile.__dict__['has_variable']: self.rec('has_variable', lambda I, a, k: self.exists(I)),
                mkw.directory_deps: self.rec('directory_deps', lambda I, a, k: PList([Obj(object, {'sentinels_of': a[0]})])),
                msyn.var: self.variable(msyn.Variable), msyn.qvar: self.variable(msyn.Variable, True),
                LK._get_flags: self.get_flags()}

    def ensures(self, a, r):
        spec = link_spec(a)
        rules = [e for e in a.events if e[0] == 'rule']
        out = {'exactly_one_rule_for_the_step': z3.BoolVal(len(rules) == 1)}
        if len(rules) != 1:
            return out
        kw = rules[0][2]
        tg = kw.get('targets')
        out['targets_are_the_outputs'] = z3.BoolVal(isinstance(tg, PList) and tg.concrete and
                                                    len(tg.items) == len(spec['outputs']) and
                                                    all(x is y for x, y in zip(tg.items, spec['outputs'])))
        deps = kw.get('deps')
        items = list(deps.items) if isinstance(deps, PList) and deps.concrete else None
        out['depends_on_exactly_the_consumed_files'] = z3.BoolVal(self.same_set(items, spec['consumed']))
        rec_ = kw.get('recipe')
        call = None
        if isinstance(rec_, Obj) and rec_.cls is msyn.Function and rec_.attrs.get('name') == 'call':
            call = list(rec_.attrs['args'].items if isinstance(rec_.attrs['args'], PList) else rec_.attrs['args'])
        out['recipe_calls_a_template'] = z3.BoolVal(call is not None and len(call) >= 2)
        if call is None or len(call) < 2:
            return out
        # $1 of the template is the linker's input operand, $2.. are the outputs in order (`all` uses $@)
        out['input_operand_is_the_object_files'] = z3.BoolVal(self.is_link_input(call[1], spec))
        n = a.rule.attrs['linker'].attrs['num_outputs']
        want_params = [] if n == 'all' else spec['outputs'][:n]
        out['output_placeholders_bound_to_the_outputs'] = z3.BoolVal(
            len(call) - 2 == len(want_params) and all(x is y for x, y in zip(call[2:], want_params)))
        lk = [e for e in a.events if e[0] == 'linker']
        if not a.template_exists:
            ok = len(lk) == 1 and self.ph(lk[0][1][0]) == '1'
            ov = lk[0][1][1] if len(lk) == 1 else None
            if n == 'all':
                ok = ok and self.ph(ov) == '@'
            else:
                ok = ok and isinstance(ov, PList) and [self.ph(x) for x in ov.items] == [str(i + 2) for i in range(n)]
            out['template_reads_its_first_argument_and_writes_the_output_placeholders'] = z3.BoolVal(bool(ok))
            defs = [e for e in a.events if e[0] == 'define']
            out['template_defined_under_the_called_name'] = z3.BoolVal(
                len(defs) == 1 and self.ph(defs[0][1][1]) is not None and self.ph(defs[0][1][1]) == call[0])
        else:
            out['existing_template_not_redefined'] = z3.BoolVal(not lk and not [e for e in a.events if e[0] == 'define'])
        return out


class NinjaLink(LinkEmitter):
    target = 'bfg9000/builtins/link.py::ninja_link'

    def buildfile(self):
        return Obj(nsyn.NinjaFile, {})

    def opaque_calls(self):
        return {nsyn.NinjaFile.__dict__['rule']: self.rec('rule'), nsyn.NinjaFile.__dict__['build']: self.rec('build'),
                nsyn.NinjaFile.__dict__['has_rule']: self.rec('has_rule', lambda I, a, k: self.exists(I)),
                nsyn.var: self.variable(nsyn.Variable), LK._get_flags: self.get_flags()}

    def ensures(self, a, r):
        spec = link_spec(a)
        builds = [e for e in a.events if e[0] == 'build']
        out = {'exactly_one_build_statement_for_the_step': z3.BoolVal(len(builds) == 1)}
        if len(builds) != 1:
            return out
        kw = builds[0][2]
        og = kw.get('output')
        out['outputs_are_the_outputs'] = z3.BoolVal(isinstance(og, PList) and og.concrete and len(og.items) == len(spec['outputs']) and
                                                   all(x is y for x, y in zip(og.items, spec['outputs'])))
        inp, imp = kw.get('inputs'), kw.get('implicit')
        both = None
        if all(isinstance(x, PList) and x.concrete for x in (inp, imp)):
            both = list(inp.items) + list(imp.items)
        out['depends_on_exactly_the_consumed_files'] = z3.BoolVal(self.same_set(both, spec['consumed']))
        n = a.rule.attrs['linker'].attrs['num_outputs']
        variables = kw.get('variables')
        bound = {self.ph(k): v for k, v in variables.d.items() if self.ph(k)} if isinstance(variables, PDict) else {}
        names = [] if n == 'all' else (['output'] if n == 1 else ['output%d' % (i + 1) for i in range(n)])
        src_ph = 'input' if spec['transforms'] else 'in'
        source = inp if src_ph == 'in' else bound.get('input')
        out['input_operand_is_the_object_files'] = z3.BoolVal(source is not None and self.is_link_input(source, spec))
        out['output_placeholders_bound_to_the_outputs'] = z3.BoolVal(
            sorted(k for k in bound if k != 'input') == sorted(names) and all(bound[nm] is spec['outputs'][i] for i, nm in enumerate(names)))
        lk = [e for e in a.events if e[0] == 'linker']
        rules = [e for e in a.events if e[0] == 'rule']
        if not a.template_exists:
            ok = len(lk) == 1 and len(rules) == 1 and rules[0][2].get('name') == 'ld' and self.ph(lk[0][1][0]) == src_ph
            ov = lk[0][1][1] if len(lk) == 1 else None
            if n == 'all':
                ok = ok and self.ph(ov) == 'out'
            elif n == 1:
                ok = ok and self.ph(ov) == 'output'
            else:
                ok = ok and isinstance(ov, PList) and [self.ph(x) for x in ov.items] == names
            out['template_reads_the_input_operand_and_writes_the_output_placeholders'] = z3.BoolVal(bool(ok))
        else:
            out['existing_template_not_redefined'] = z3.BoolVal(not lk and not rules)
        return out


# ---- which flag variable a step's own options are bound to ----------------------------------------------------
#
# Every compile / link step whose own option list is not empty binds the backend's flag variable of its kind to
# [the global variable OF THE SAME KIND] + its own flags: compile flags behind the global compile flags, link flags
# behind the global link flags, libraries behind the global libraries -- never one kind behind another (C01 / C02:
# each option reaches the process once, in its position).  The backend's flags_vars is abstract: it returns a fresh
# (global variable, variable) pair tagged with the name it was asked for.

class GetFlags(StepEmitter):
    properties = ('C01', 'C02', 'C03', 'C06')

    def make_tool(self, cx, kinds):
        attrs = {'lang': 'c', 'family': 'native', 'global_flags': PList([thing('tool_global_flag')]),
                 'global_libs': PList([thing('tool_global_lib')])}
        for kind in kinds:
            attrs[kind + '_var'] = kind + '-name'
        def tool_fn(name, tok):
            def h(I, a, k):
                I.events.append(('given_options', name, a[0] if a else None))
                return PList([thing(tok)])
            return OpaqueFn(name, h)
        attrs['flags'] = tool_fn('tool.flags', 'global_option_flag')
        attrs['lib_flags'] = tool_fn('tool.lib_flags', 'global_option_lib')
        return Obj(object, attrs)

    def backend(self):
        def flags_vars(I, args, kwargs):
            name = args[0]
            g, v = Obj(object, {'global_variable_for': name}), Obj(object, {'variable_for': name})
            I.events.append(('flags_vars', name, g, v, args[1]))
            return (g, v)

        def var(I, args, kwargs):
            return Obj(object, {'variable_named': args[0]})
        return Obj(object, {'flags_vars': OpaqueFn('flags_vars', flags_vars), 'var': OpaqueFn('var', var)})

    def own(self, present, name):
        items = [thing(name + '0'), thing(name + '1')] if present else []

        def h(I, a, k):
            I.events.append(('given_options', 'rule.' + name, a[0] if a else None))
            return PList(list(items))
        return OpaqueFn('rule.' + name, h), items

    def options_of_the_tools_language(self, out, a, want):
        given = [e for e in a.events if e[0] == 'given_options']
        out['global_options_are_those_of_the_tool_that_runs'] = z3.BoolVal(bool(given) and all(e[2] is want for e in given))

    def check_kind(self, out, a, variables, name, own_items, label):
        regs = [e for e in a.events if e[0] == 'flags_vars' and e[1] == name]
        if len(regs) != 1:
            out[label + '_variable_registered_once'] = z3.BoolVal(False)
            return
        _, _, g, v, gvalue = regs[0]
        # the global variable of a kind holds the tool's and the project's global options of that kind
        tag = 'lib' if name.startswith('libs') else 'flag'
        gitems = [str(x.e) for x in gvalue.items] if isinstance(gvalue, PList) and gvalue.concrete else None
        out[label + '_global_variable_holds_the_global_options_of_its_kind'] = z3.BoolVal(
            gitems == ['tool_global_' + tag, 'global_option_' + tag])
        bound = variables.d.get(v) if isinstance(variables, PDict) else None
        if not own_items:
            out[label + '_default_kept_without_own_options'] = z3.BoolVal(bound is None)
            return
        items = list(bound.items) if isinstance(bound, PList) and bound.concrete else None
        out[label + '_bound_to_the_global_variable_of_its_kind_plus_own_options'] = z3.BoolVal(
            items is not None and len(items) == 1 + len(own_items) and items[0] is g and
            all(x is y for x, y in zip(items[1:], own_items)))


class CompileGetFlags(GetFlags):
    target = 'bfg9000/builtins/compile.py::_get_flags'

    def cases(self):
        return ['own-options', 'no-own-options']

    def params(self, cx, case):
        fn, items = self.own(case == 'own-options', 'flags')
        cx.ghost('own_flags', items)
        # the source was declared with another language than the compiler that runs on it (lang= override)
        rule = Obj(CO.CompileSource, {'compiler': self.make_tool(cx, ['flags']), 'flags': fn,
                                      'file': Obj(object, {'lang': 'c++'})})
        gopts = thing('global_options_of_c')
        cx.ghost('gopts', gopts)
        bi = PDict({'compile_options': PDict({'c': gopts, 'c++': thing('global_options_of_cxx')})})
        return {'backend': self.backend(), 'rule': rule, 'build_inputs': bi, 'buildfile': Obj(object, {})}

    def opaque_calls(self):
        return {}

    def ensures(self, a, r):
        out = {}
        variables = r[0] if isinstance(r, tuple) else (r.items[0] if isinstance(r, PList) else None)
        self.check_kind(out, a, variables, 'flags-name', a.own_flags, 'compile_flags')
        self.options_of_the_tools_language(out, a, a.gopts)
        return out


class LinkGetFlags(GetFlags):
    target = 'bfg9000/builtins/link.py::_get_flags'

    def cases(self):
        return ['%s/%s' % (f, l) for f in ('flags', 'no-flags') for l in ('libs', 'no-libs')]

    def params(self, cx, case):
        f, l = case.split('/')
        ffn, fitems = self.own(f == 'flags', 'flags')
        lfn, litems = self.own(l == 'libs', 'lib_flags')
        cx.ghost('own_flags', fitems)
        cx.ghost('own_libs', litems)
        rule = Obj(LK.DynamicLink, {'linker': self.make_tool(cx, ['flags', 'libs']), 'flags': ffn, 'lib_flags': lfn,
                                    'base_mode': 'dynamic'})
        bi = PDict({'link_options': PDict({'dynamic': PDict({'native': thing('global_link_options')})})})
        return {'backend': self.backend(), 'rule': rule, 'build_inputs': bi, 'buildfile': Obj(object, {})}

    def opaque_calls(self):
        return {}

    def ensures(self, a, r):
        out = {}
        variables = r[0] if isinstance(r, tuple) else (r.items[0] if isinstance(r, PList) else None)
        self.check_kind(out, a, variables, 'flags-name', a.own_flags, 'link_flags')
        self.check_kind(out, a, variables, 'libs-name', a.own_libs, 'libraries')
        return out


# ---- install / uninstall goals -----------------------------------------------------------------------------------
#
# One description for both backends: the `install` goal exists iff there is something to do (files to copy or packages
# to deploy), depends on `all`, is always out of date and runs the file commands followed by the package deployment;
# the `uninstall` goal exists iff files were installed and runs exactly the removal commands; nothing is emitted when
# installation is disabled.

import bfg9000.builtins.install as INS


class InstallRule(StepEmitter):
    properties = ('C06', 'C15')

    def cases(self):
        return ['%s/%s/%s/%s' % (e, f, m, u) for e in ('enabled', 'disabled') for f in ('files', 'no-files')
                for m in ('packages', 'no-packages') for u in ('uninstall', 'no-uninstall')]

    def params(self, cx, case):
        e, f, m, u = case.split('/')
        cx.ghost('enabled', e == 'enabled')
        cx.ghost('file_cmds', [thing('install_cmd0'), thing('install_cmd1')] if f == 'files' else [])
        cx.ghost('pkg_cmds', [thing('deploy_cmd')] if m == 'packages' else [])
        cx.ghost('rm_cmds', [thing('rm_cmd')] if u == 'uninstall' else [])
        return {'build_inputs': PDict({'install': thing('install_outputs')}), 'buildfile': self.buildfile(), 'env': Obj(object, {})}

    def common_calls(self):
        a = self.cur
        return {INS.can_install: self.rec('can_install', lambda I, x, k: bool(a.enabled)),
                INS._install_files: self.rec('install_files', lambda I, x, k: PList(list(a.file_cmds))),
                INS._uninstall_files: self.rec('uninstall_files', lambda I, x, k: PList(list(a.rm_cmds))),
                INS._install_mopack: self.rec('install_mopack', lambda I, x, k: PList(list(a.pkg_cmds))),
                INS._add_install_paths: self.rec('add_paths')}

    def describe(self, a):
        install = list(a.file_cmds) + list(a.pkg_cmds)
        return {'install': install if a.enabled and install else None,
                'uninstall': list(a.rm_cmds) if a.enabled and a.rm_cmds else None,
                'paths': bool(a.enabled and (a.file_cmds or a.rm_cmds))}

    def compare(self, a, goals):
        """goals: {name: (commands list or None, depends_on, always_outdated)} as emitted"""
        want = self.describe(a)
        out = {}
        for g in ('install', 'uninstall'):
            got = goals.get(g)
            if want[g] is None:
                out[g + '_goal_only_when_there_is_something_to_do'] = z3.BoolVal(got is None)
                continue
            ok = got is not None and got[0] is not None and len(got[0]) == len(want[g]) and \
                all(x is y for x, y in zip(got[0], want[g]))
            out[g + '_goal_runs_exactly_its_commands_in_order'] = z3.BoolVal(bool(ok))
            if got is not None:
                out[g + '_goal_always_out_of_date'] = z3.BoolVal(got[2] is True)
                if g == 'install':
                    out['install_goal_depends_on_all'] = z3.BoolVal(got[1] == ['all'])
        paths = [e for e in a.events if e[0] == 'add_paths']
        out['install_directories_defined_iff_files_are_installed_or_removed'] = z3.BoolVal((len(paths) == 1) == want['paths'] and len(paths) <= 1)
        return out


class MakeInstallRule(InstallRule):
    target = 'bfg9000/builtins/install.py::make_install_rule'

    def buildfile(self):
        return Obj(msyn.Makefile, {})

    def opaque_calls(self):
        d = self.common_calls()
        d[msyn.Makefile.__dict__['rule']] = self.rec('rule')
        return d

    def ensures(self, a, r):
        goals = {}
        for e in a.events:
            if e[0] != 'rule':
                continue
            kw = e[2]
            rec_ = kw.get('recipe')
            cmds = list(rec_.items) if isinstance(rec_, PList) and rec_.concrete else None
            deps = kw.get('deps')
            goals[kw.get('target')] = (cmds, [deps] if isinstance(deps, str) else deps, kw.get('phony'))
        return self.compare(a, goals)


class NinjaInstallRule(InstallRule):
    target = 'bfg9000/builtins/install.py::ninja_install_rule'

    def buildfile(self):
        return Obj(nsyn.NinjaFile, {})

    def opaque_calls(self):
        import bfg9000.shell as shell
        d = self.common_calls()
        d[njw.command_build] = self.rec('build')
        d[shell.join_lines] = self.rec('join_lines', lambda I, x, k: Obj(object, {'lines_of': x[0]}))
        return d

    def ensures(self, a, r):
        goals = {}
        for e in a.events:
            if e[0] != 'build':
                continue
            kw = e[2]
            c = kw.get('command')
            lines = c.attrs.get('lines_of') if isinstance(c, Obj) else None
            cmds = list(lines.items) if isinstance(lines, PList) and lines.concrete else None
            inp = kw.get('inputs')
            goals[kw.get('output')] = (cmds, list(inp.items) if isinstance(inp, PList) and inp.concrete else inp, kw.get('phony'))
        return self.compare(a, goals)


# ---- test goals ---------------------------------------------------------------------------------------------------
#
# One description for both backends: without tests nothing is emitted; otherwise the goal `tests` (always out of date
# under Make / phony under Ninja) depends on exactly the programs the test commands need plus the files given to
# test_deps(), and the goal `test` depends on `tests` and runs exactly the test commands, in order.

import bfg9000.builtins.tests as TS


class TestRule(StepEmitter):
    properties = ('C03', 'C06')

    def cases(self):
        return ['%s/%d' % (t, n) for t in ('tests', 'no-tests') for n in (0, 1, 2)]

    def params(self, cx, case):
        t, n = case.split('/')
        cx.ghost('has_tests', t == 'tests')
        cx.ghost('cmds', [thing('test_cmd0'), thing('test_cmd1')])
        cx.ghost('deps', [thing('test_prog0')])
        extra = [thing('test_dep%d' % i) for i in range(int(n))]
        cx.ghost('extra', list(extra))
        tests = Obj(TS.TestInputs, {'tests': PList([thing('a_test')] if t == 'tests' else []), 'extra_deps': PList(extra)})
        return {'build_inputs': PDict({'tests': tests}), 'buildfile': self.buildfile(),
                'env': Obj(object, {'tool': OpaqueFn('tool', lambda I, a, k: thing('setenv_tool'))})}

    def build_commands(self):
        a = self.cur
        return self.rec('build_commands', lambda I, x, k: (PList(list(a.cmds)), PList(list(a.deps))))

    def compare(self, a, goals):
        out = {}
        if not a.has_tests:
            out['nothing_without_tests'] = z3.BoolVal(not goals)
            return out
        want_deps = list(a.deps) + list(a.extra)
        tg = goals.get('tests')
        out['tests_goal_depends_on_the_programs_and_the_declared_test_deps'] = z3.BoolVal(
            tg is not None and tg[1] is not None and len(tg[1]) == len(want_deps) and all(x is y for x, y in zip(tg[1], want_deps)))
        tt = goals.get('test')
        out['test_goal_depends_on_tests_and_runs_the_test_commands'] = z3.BoolVal(
            tt is not None and tt[1] == ['tests'] and tt[0] is not None and len(tt[0]) == len(a.cmds) and
            all(x is y for x, y in zip(tt[0], a.cmds)))
        out['only_the_two_goals'] = z3.BoolVal(sorted(goals) == ['test', 'tests'])
        return out


class MakeTestRule(TestRule):
    target = 'bfg9000/builtins/tests.py::make_test_rule'

    def buildfile(self):
        return Obj(msyn.Makefile, {'writer': thing('make_writer')})

    def opaque_calls(self):
        return {TS._build_commands: self.build_commands(), msyn.Makefile.__dict__['rule']: self.rec('rule')}

    def ensures(self, a, r):
        goals = {}
        for e in a.events:
            if e[0] != 'rule':
                continue
            kw = e[2]
            rec_ = kw.get('recipe')
            cmds = list(rec_.items) if isinstance(rec_, PList) and rec_.concrete else None
            deps = kw.get('deps')
            deps = [deps] if isinstance(deps, str) else (list(deps.items) if isinstance(deps, PList) and deps.concrete else None)
            goals[kw.get('target')] = (cmds, deps, kw.get('phony'))
        return self.compare(a, goals)


class NinjaTestRule(TestRule):
    target = 'bfg9000/builtins/tests.py::ninja_test_rule'

    def buildfile(self):
        return Obj(nsyn.NinjaFile, {'writer': thing('ninja_writer')})

    def opaque_calls(self):
        import bfg9000.shell as shell
        return {TS._build_commands: self.build_commands(), nsyn.NinjaFile.__dict__['build']: self.rec('phony_build'),
                njw.command_build: self.rec('build'),
                shell.join_lines: self.rec('join_lines', lambda I, x, k: Obj(object, {'lines_of': x[0]}))}

    def ensures(self, a, r):
        goals = {}
        for e in a.events:
            kw = e[2]
            if e[0] == 'phony_build':
                inp = kw.get('inputs')
                goals[kw.get('output')] = (None, list(inp.items) if isinstance(inp, PList) and inp.concrete else None, True)
            elif e[0] == 'build':
                c = kw.get('command')
                lines = c.attrs.get('lines_of') if isinstance(c, Obj) else None
                cmds = list(lines.items) if isinstance(lines, PList) and lines.concrete else None
                inp = kw.get('inputs')
                goals[kw.get('output')] = (cmds, [inp] if isinstance(inp, str) else inp, kw.get('phony'))
        return self.compare(a, goals)


# ---- alias, all, clean ------------------------------------------------------------------------------------------------
#
# alias(name, deps): a goal that is never a file, depending on exactly the given things.  `all`: depends on the
# default set = the explicit defaults if there are any, otherwise the implicit ones (DefaultOutputs.outputs, inlined
# from its real source); under Ninja `all` is also the declared default.  `clean` (Make) removes the path of every
# target of the build.

import bfg9000.builtins.alias as AL
import bfg9000.builtins.default as DF
import bfg9000.builtins.clean as CL


class AliasEmitter(StepEmitter):
    properties = ('C03', 'C06')

    def cases(self):
        return ['%d' % n for n in (0, 1, 2)]

    def params(self, cx, case):
        deps = [thing('dep%d' % i) for i in range(int(case))]
        cx.ghost('deps', list(deps))
        rule = Obj(AL.Alias, {'output': thing('alias_outputs'), 'extra_deps': PList(deps)})
        return {'rule': rule, 'build_inputs': Obj(object, {}), 'buildfile': self.buildfile(), 'env': Obj(object, {})}

    def compare(self, a, out_, deps, phony):
        return {'goal_is_the_alias': z3.BoolVal(isinstance(out_, Sym) and z3.eq(out_.e, thing('alias_outputs').e)),
                'depends_on_exactly_the_given_things': z3.BoolVal(self.same_items(deps, a.deps)),
                'never_a_file': z3.BoolVal(phony is True)}


class MakeAlias(AliasEmitter):
    target = 'bfg9000/builtins/alias.py::make_alias'

    def buildfile(self):
        return Obj(msyn.Makefile, {})

    def opaque_calls(self):
        return {msyn.Makefile.__dict__['rule']: self.rec('rule')}

    def ensures(self, a, r):
        rules = [e for e in a.events if e[0] == 'rule']
        out = {'exactly_one_rule': z3.BoolVal(len(rules) == 1)}
        if len(rules) == 1:
            kw = rules[0][2]
            out.update(self.compare(a, kw.get('target'), kw.get('deps'), kw.get('phony')))
            out['no_recipe'] = z3.BoolVal(kw.get('recipe') is None and set(kw) <= {'target', 'deps', 'phony', 'recipe'})
        return out


class NinjaAlias(AliasEmitter):
    target = 'bfg9000/builtins/alias.py::ninja_alias'

    def buildfile(self):
        return Obj(nsyn.NinjaFile, {})

    def opaque_calls(self):
        return {nsyn.NinjaFile.__dict__['build']: self.rec('build')}

    def ensures(self, a, r):
        builds = [e for e in a.events if e[0] == 'build']
        out = {'exactly_one_build_statement': z3.BoolVal(len(builds) == 1)}
        if len(builds) == 1:
            kw = builds[0][2]
            out.update(self.compare(a, kw.get('output'), kw.get('inputs'), kw.get('rule') == 'phony'))
            out['no_other_dependencies'] = z3.BoolVal(set(kw) <= {'output', 'rule', 'inputs'})
        return out


class AllGoal(StepEmitter):
    properties = ('C03', 'C06')

    def cases(self):
        return ['%d/%d' % (e, f) for e in (0, 1, 2) for f in (0, 1, 2)]

    def params(self, cx, case):
        e, f = [int(x) for x in case.split('/')]
        explicit = [thing('explicit%d' % i) for i in range(e)]
        fallback = [thing('implicit%d' % i) for i in range(f)]
        cx.ghost('want', list(explicit) if explicit else list(fallback))
        d = Obj(DF.DefaultOutputs, {'default_outputs': PList(explicit), 'fallback_defaults': PList(fallback)})
        return {'build_inputs': PDict({'defaults': d}), 'buildfile': self.buildfile(), 'env': Obj(object, {})}


class MakeAllGoal(AllGoal):
    target = 'bfg9000/builtins/default.py::make_all_rule'

    def buildfile(self):
        return Obj(msyn.Makefile, {})

    def opaque_calls(self):
        return {msyn.Makefile.__dict__['rule']: self.rec('rule')}

    def ensures(self, a, r):
        rules = [e for e in a.events if e[0] == 'rule']
        out = {'exactly_one_rule': z3.BoolVal(len(rules) == 1)}
        if len(rules) == 1:
            kw = rules[0][2]
            out['goal_all_depends_on_the_default_set'] = z3.BoolVal(kw.get('target') == 'all' and self.same_items(kw.get('deps'), a.want))
            out['never_a_file_and_no_recipe'] = z3.BoolVal(kw.get('phony') is True and kw.get('recipe') is None)
        return out


class NinjaAllGoal(AllGoal):
    target = 'bfg9000/builtins/default.py::ninja_all_rule'

    def buildfile(self):
        return Obj(nsyn.NinjaFile, {})

    def opaque_calls(self):
        return {nsyn.NinjaFile.__dict__['build']: self.rec('build'), nsyn.NinjaFile.__dict__['default']: self.rec('default')}

    def ensures(self, a, r):
        builds = [e for e in a.events if e[0] == 'build']
        defaults = [e for e in a.events if e[0] == 'default']
        out = {'exactly_one_build_statement': z3.BoolVal(len(builds) == 1)}
        if len(builds) == 1:
            kw = builds[0][2]
            out['goal_all_depends_on_the_default_set'] = z3.BoolVal(kw.get('output') == 'all' and kw.get('rule') == 'phony' and
                                                                  self.same_items(kw.get('inputs'), a.want) and
                                                                  set(kw) <= {'output', 'rule', 'inputs'})
        d = defaults[0][1][1] if len(defaults) == 1 and len(defaults[0][1]) == 2 else None
        out['all_is_the_declared_default'] = z3.BoolVal(isinstance(d, PList) and d.concrete and list(d.items) == ['all'])
        return out


class MakeCleanGoal(StepEmitter):
    """`clean` removes the path of every target of the build (0..2 targets), then cleans the packages; always out of
    date."""
    target = 'bfg9000/builtins/clean.py::make_clean_rule'
    properties = ('C04', 'C07')

    def cases(self):
        return ['%d/%s' % (n, m) for n in (0, 1, 2) for m in ('packages', 'no-packages')]

    def params(self, cx, case):
        n, m = case.split('/')
        cx.ghost('n', int(n))
        cx.ghost('packages', m == 'packages')
        targets = [Obj(object, {'path': Obj(object, {'path_of_target': i})}) for i in range(int(n))]

        def tool(I, a, k, node=None):
            name = a[0]

            def run(I, a2, k2, node=None):
                args = [list(x.items) if isinstance(x, PList) and x.concrete else x for x in a2]
                I.events.append(('tool_call', [name] + args, dict(k2)))
                return Obj(object, {'command_of': name})
            return Obj(object, {'__call__': OpaqueFn(name, run)})
        env = Obj(object, {'tool': OpaqueFn('tool', tool), 'mopack': PList([thing('a_package_file')] if m == 'packages' else [])})
        bi = Obj(object, {'targets': OpaqueFn('targets', lambda I, a, k: PList(list(targets)))})
        return {'build_inputs': bi, 'buildfile': Obj(msyn.Makefile, {}), 'env': env}

    def opaque_calls(self):
        return {msyn.Makefile.__dict__['rule']: self.rec('rule'), CL.Path: lambda I, a, k, node=None: Obj(object, {'the_build_directory': True})}

    def ensures(self, a, r):
        rules = [e for e in a.events if e[0] == 'rule']
        out = {'exactly_one_rule': z3.BoolVal(len(rules) == 1)}
        if len(rules) != 1:
            return out
        kw = rules[0][2]
        out['goal_clean_always_out_of_date'] = z3.BoolVal(kw.get('target') == 'clean' and kw.get('phony') is True and kw.get('deps') is None)
        rec_ = kw.get('recipe')
        cmds = list(rec_.items) if isinstance(rec_, PList) and rec_.concrete else None
        want = ['rm'] + (['mopack'] if a.packages else [])
        out['removal_then_package_cleaning'] = z3.BoolVal(cmds is not None and [c.attrs.get('command_of') if isinstance(c, Obj) else None for c in cmds] == want)
        rms = [e for e in a.events if e[0] == 'tool_call' and e[1][0] == 'rm']
        ok = len(rms) == 1 and len(rms[0][1]) == 2
        if ok:
            ops = rms[0][1][1]
            ok = len(ops) == a.n and all(isinstance(x, Obj) and x.attrs.get('path_of_target') == i for i, x in enumerate(ops))
        out['removes_the_path_of_every_target'] = z3.BoolVal(bool(ok))
        return out


def registry():
    return [MakeCommand(), NinjaCommand(), MakeCopyFile(), NinjaCopyFile(), CompdbCopyFile(), MakeCompile(), NinjaCompile(),
            MakeLink(), NinjaLink(), CompileGetFlags(), LinkGetFlags(), MakeInstallRule(), NinjaInstallRule(), MakeTestRule(), NinjaTestRule(),
            MakeAlias(), NinjaAlias(), MakeAllGoal(), NinjaAllGoal(), MakeCleanGoal()]
