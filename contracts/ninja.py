"""Contracts for bfg9000/backends/ninja/syntax.py (C02, C04)."""
import z3
from pyvc import terms as T
from pyvc.contract import Contract, Lemma, Args
from pyvc.values import Sym, Obj, PList, PStream, fresh_sym
from pyvc import models as M
from pyvc.interp import OutOfSubset
from specs.ninja import nj_value, nj_path, NORMAL, literal_value, PATH_END, VALUE_END
from contracts.posix_shell import frag, has_crlf, has_char, SH_ALPHABET, real_sh

import bfg9000.backends.ninja.syntax as nsyn
import bfg9000.shell as bshell
from bfg9000.safe_str import shell_literal, literal, jbos
from contracts import fragments as FR
from bfg9000.backends.ninja.syntax import Syntax

def has_pipe_crlf(w):
    return T.OR(has_char('|', w), has_crlf(w))


LEMMAS = []
_GEN = {}


def fold_of(term):
    """(Fold, w) if term is F_o(0, w) for a registered fold F; else None."""
    if z3.is_app(term) and term.decl().name() in T.FOLDS:
        f, comp = T.FOLDS[term.decl().name()]
        if comp == 'o':
            return f, term.children()[-1]
    return None


def escape_lemma(fold, kind):
    """Generated lemma about the *code's* escape fold (whatever class/template the code currently uses):
    ninja reads the escaped text back as the original, provided the original has no character that cannot be
    represented (line breaks; for paths also `|`)."""
    key = (fold.name, kind)
    if key not in _GEN:
        if kind == 'value':
            def stmt(u, fold=fold):
                return z3.Implies(z3.Not(has_crlf(u)), literal_value(nj_value, fold.out((0,), u), u))
        else:
            def stmt(u, fold=fold):
                return z3.Implies(z3.Not(has_pipe_crlf(u)), literal_value(nj_path, fold.out((0,), u), u))
        _GEN[key] = Lemma('ninja_%s_roundtrip_%s' % (kind, fold.name), [('u', T.Str)], stmt, induct=('snoc', 'u'))
    return _GEN[key]


class EscapeStr(Contract):
    target = 'bfg9000/backends/ninja/syntax.py::Writer.escape_str'
    properties = ('C02', 'C04')

    def cases(self):
        return ['shell', 'clean', 'output', 'input']

    def case_in_property(self, case, pid):
        return case in {'C02': ('shell', 'clean'), 'C04': ('output', 'input')}.get(pid, (case,))

    def params(self, cx, case):
        return {'string': cx.str('string'), 'syntax': Syntax[case]}

    def requires(self, a):
        s = M.sym_str(a.string)
        if a.syntax in (Syntax.output, Syntax.input):
            return z3.Not(T.OR(has_char('|', s), has_char('\r', s)))
        return z3.Not(has_char('\r', s))

    def raises(self, a):
        return [(ValueError, has_char('\n', M.sym_str(a.string)))]

    def ensures(self, a, r):
        s, rt = M.sym_str(a.string), M.sym_str(r)
        if a.syntax in (Syntax.output, Syntax.input):
            return {'ninja_reads_path_back': literal_value(nj_path, rt, s)}
        return {'ninja_reads_value_back': literal_value(nj_value, rt, s),
                'text_is_dollar_doubling': rt == FR.dol(s)}

    def result_value(self, I, a):
        return fresh_sym('esc', 'str')

    def proof(self, p, a, r, name, case):
        fo = fold_of(M.sym_str(r))
        if fo is None:
            return p.qed()
        fold, w = fo
        if name == 'text_is_dollar_doubling':
            p.use(FR.same_cmap_lemma(fold, FR.dollar2, 'ninja').inst(u=w))
            return p.qed()
        lem = escape_lemma(fold, 'path' if case in ('output', 'input') else 'value')
        p.need(lem)
        p.use(lem.inst(u=w))
        p.qed()

    def native_params(self, case):
        return ['string']

    def native_build(self, case, raw):
        return {'string': raw['string'], 'syntax': Syntax[case]}, Args({'string': raw['string'], 'syntax': Syntax[case]})

    def native_call(self, case, call_args):
        return nsyn.Writer.escape_str(**call_args)

    def native_alphabet(self):
        return "a$ :|\n\r'"


def written(self_obj, buf0):
    b = self_obj.attrs['stream'].buf
    if isinstance(b, str):
        b0 = T.as_pystr(buf0)
        if b0 is None or not b.startswith(b0):
            raise OutOfSubset('stream is not old-buffer + appended text')
        return T.lit(b[len(b0):])
    buf = M.sym_str(b)
    parts = T.flat_parts(z3.simplify(buf))
    if not parts or parts[0].get_id() != buf0.get_id():
        raise OutOfSubset('stream is not old-buffer + appended text')
    return T.cat(*parts[1:])


class Write(Contract):
    """Writer.write for one fragment: the C02 obligation for one argument string; and, for a jbos of fragments
    of unknown kind, the structural law that the text is the concatenation of the fragments' texts written
    with the *same* syntax and shell_quote."""
    target = 'bfg9000/backends/ninja/syntax.py::Writer.write'
    properties = ('C02', 'C04')

    KINDS = ['str', 'shell_literal', 'literal']

    def cases(self):
        cs = ['%s/%s' % (k, sx) for k in self.KINDS for sx in ('shell', 'clean', 'output', 'input')]
        cs += ['jbos/%s/%s' % (sx, sq) for sx in ('shell', 'clean', 'output', 'input') for sq in ('quote', 'inner', 'none')]
        return cs

    def loops(self):
        return {('Writer.write', 1): FR.jbos_loop_invariant('ninja', self)}

    def case_in_property(self, case, pid):
        sx = case.split('/')[1]
        return sx in {'C02': ('shell', 'clean'), 'C04': ('output', 'input')}.get(pid, (sx,))

    def result_value(self, I, a):
        return fresh_sym('nw_escaped', 'bool')

    def effects(self, I, a):
        st = a.self.attrs['stream']
        a.buf0 = M.sym_str(st.buf)
        st.buf = M.mk_str(z3.Concat(M.sym_str(st.buf), T.fresh('nw_text', T.Str)))

    def mk_self(self, cx):
        buf0 = z3.Const('buf0', T.Str)
        cx.ghost('buf0', buf0)
        return Obj(nsyn.Writer, {'stream': PStream(Sym(buf0, 'str')), 'path_vars': None, 'shell': bshell})

    def params(self, cx, case):
        kind, sx = case.split('/')[:2]
        self.cur_sq = 'quote'
        if kind == 'jbos':
            self.cur_sq = case.split('/')[2]
            bits = z3.Const('bits', FR.Bits)
            thing = Obj(jbos, {'_jbos__bits': Sym(bits, FR.BITS_TY)})
            return {'self': self.mk_self(cx), 'thing': thing, 'syntax': Syntax[sx],
                    'shell_quote': FR.sq_fn(self.cur_sq)}
        if kind == 'str':
            thing = cx.str('thing')
        elif kind == 'shell_literal':
            thing = Obj(shell_literal, {'string': cx.str('thing_string')})
        else:
            thing = Obj(literal, {'string': cx.str('thing_string')})
        return {'self': self.mk_self(cx), 'thing': thing, 'syntax': Syntax[sx]}

    def content(self, a):
        t = a.thing
        return M.sym_str(t.attrs['string']) if isinstance(t, Obj) else M.sym_str(t)

    def is_jbos(self, a):
        return isinstance(a.thing, Obj) and a.thing.cls is jbos

    def requires(self, a):
        if self.is_jbos(a):
            return z3.BoolVal(True)
        s = self.content(a)
        if isinstance(a.thing, Obj) and a.thing.cls is literal:
            return z3.BoolVal(True)
        if a.syntax in (Syntax.output, Syntax.input):
            return z3.Not(has_pipe_crlf(s))
        return z3.Not(has_crlf(s))

    def ensures(self, a, r):
        if self.is_jbos(a):
            fns = FR.frag_fns('ninja', a.syntax, FR.sq_tag(a._d.get('shell_quote')))
            bits = a.thing.attrs['_jbos__bits'].e
            n = z3.Length(bits)
            buf = M.sym_str(a.self.attrs['stream'].buf)
            return {'text_is_concatenation_of_fragment_texts': buf == z3.Concat(a.buf0, fns.CW(bits, n)),
                    'flag_is_disjunction_of_fragment_flags': T.zbool(M.lift(r)) == fns.OE(bits, n)}
        w = written(a.self, a.buf0)
        s = self.content(a)
        t = a.thing
        if isinstance(t, Obj) and t.cls is literal:
            return {'literal_verbatim': w == s}
        if a.syntax in (Syntax.output, Syntax.input):
            return {'ninja_reads_path_back': literal_value(nj_path, w, s)}
        st, out = nj_value.run((NORMAL, 1), w)
        lit_ok = T.AND(st[0] == NORMAL, st[1] == 1)
        if a.syntax == Syntax.shell and not isinstance(t, Obj):
            # ninja hands `out` to sh; sh reads exactly one word fragment with content `thing`
            return {'ninja_value_is_literal': lit_ok, 'sh_reads_back_exactly_thing': frag(out, s)}
        return {'ninja_reads_value_back': T.AND(lit_ok, out == s)}

    def apply_at_call(self, I, bound, site, frame):
        thing = bound['thing']
        if isinstance(thing, Sym) and isinstance(thing.ty, tuple) and thing.ty[0] == 'opaque':
            # a fragment of unknown kind: its text and flag are the (uninterpreted) functions of the fragment,
            # the syntax and the shell_quote that were passed
            fns = FR.frag_fns('ninja', bound['syntax'], FR.sq_tag(bound.get('shell_quote')))
            st = bound['self'].attrs['stream']
            st.buf = M.mk_str(z3.Concat(M.sym_str(st.buf), fns.Wt(thing.e)))
            return M.mk_bool(fns.We(thing.e))
        return Contract.apply_at_call(self, I, bound, site, frame)

    def native_params(self, case):
        return ['thing'] if case.startswith('str/') else None

    def native_alphabet(self):
        return "a$ :|'\\\n"

    def native_build(self, case, raw):
        import io
        kind, sx = case.split('/')
        buf0 = 'PRE'
        stream = io.StringIO()
        stream.write(buf0)
        wr = nsyn.Writer(stream, {}, bshell)
        selfv = Obj(nsyn.Writer, {'stream': PStream(buf0), 'path_vars': None, 'shell': bshell})
        a = Args({'self': selfv, 'thing': raw['thing'], 'syntax': Syntax[sx]}, {'buf0': T.lit(buf0)})
        return {'writer': wr, 'thing': raw['thing'], 'syntax': Syntax[sx], '_self': selfv}, a

    def native_call(self, case, call_args):
        wr = call_args['writer']
        r = wr.write(call_args['thing'], call_args['syntax'])
        call_args['_self'].attrs['stream'].buf = wr.stream.getvalue()
        return r

    def native_explain(self, case, raw, res):
        return None


def registry():
    from contracts import posix_shell
    return posix_shell.registry() + [EscapeStr(), Write()]


LEMMAS = []
