"""Contracts for bfg9000/backends/ninja/syntax.py (C02, C04)."""
import z3
from pyvc import terms as T
from pyvc.contract import Contract, Lemma, Args
from pyvc.values import Sym, Obj, PList, PStream, fresh_sym
from pyvc import models as M
from pyvc.interp import OutOfSubset
from specs.ninja import nj_value, nj_path, NORMAL, literal_value, PATH_END, VALUE_END
from contracts.posix_shell import frag, has_crlf, has_char, SH_ALPHABET, real_sh

import bfg9000.backends.ninja.syntax as nsyn
import bfg9000.shell as bshell
from bfg9000.safe_str import shell_literal, literal, jbos
from contracts import fragments as FR
from contracts import posix_shell as PS
from bfg9000.backends.ninja.syntax import Syntax

def has_pipe_crlf(w):
    return T.OR(has_char('|', w), has_crlf(w))


LEMMAS = []
_GEN = {}


def fold_of(term):
    """(Fold, w) if term is F_o(0, w) for a registered fold F; else None."""
    if z3.is_app(term) and term.decl().name() in T.FOLDS:
        f, comp = T.FOLDS[term.decl().name()]
        if comp == 'o':
            return f, term.children()[-1]
    return None


def escape_lemma(fold, kind):
    """Generated lemma about the *code's* escape fold (whatever class/template the code currently uses):
    ninja reads the escaped text back as the original, provided the original has no character that cannot be
    represented (line breaks; for paths also `|`)."""
    key = (fold.name, kind)
    if key not in _GEN:
        if kind == 'value':
            def stmt(u, fold=fold):
                return z3.Implies(z3.Not(has_crlf(u)), literal_value(nj_value, fold.out((0,), u), u))
        else:
            def stmt(u, fold=fold):
                return z3.Implies(z3.Not(has_pipe_crlf(u)), literal_value(nj_path, fold.out((0,), u), u))
        _GEN[key] = Lemma('ninja_%s_roundtrip_%s' % (kind, fold.name), [('u', T.Str)], stmt, induct=('snoc', 'u'))
    return _GEN[key]


class EscapeStr(Contract):
    target = 'bfg9000/backends/ninja/syntax.py::Writer.escape_str'
    properties = ('C02', 'C04')

    def cases(self):
        return ['shell', 'clean', 'output', 'input']

    def case_in_property(self, case, pid):
        return case in {'C02': ('shell', 'clean'), 'C04': ('output', 'input')}.get(pid, (case,))

    def params(self, cx, case):
        return {'string': cx.str('string'), 'syntax': Syntax[case]}

    def requires(self, a):
        s = M.sym_str(a.string)
        if a.syntax in (Syntax.output, Syntax.input):
            return z3.Not(T.OR(has_char('|', s), has_char('\r', s)))
        return z3.Not(has_char('\r', s))

    def raises(self, a):
        return [(ValueError, has_char('\n', M.sym_str(a.string)))]

    def ensures(self, a, r):
        s, rt = M.sym_str(a.string), M.sym_str(r)
        if a.syntax in (Syntax.output, Syntax.input):
            return {'ninja_reads_path_back': literal_value(nj_path, rt, s)}
        return {'ninja_reads_value_back': literal_value(nj_value, rt, s),
                'text_is_dollar_doubling': rt == FR.dol(s)}

    def apply_at_call(self, I, bound, site, frame):
        if isinstance(bound.get('string'), str):
            # a concrete string: the caller interprets the body (the result is then the concrete text)
            from pyvc.interp import InlineInstead
            raise InlineInstead()
        return Contract.apply_at_call(self, I, bound, site, frame)

    def result_value(self, I, a):
        return fresh_sym('esc', 'str')

    def proof(self, p, a, r, name, case):
        fo = fold_of(M.sym_str(r))
        if fo is None:
            return p.qed()
        fold, w = fo
        if name == 'text_is_dollar_doubling':
            p.use(FR.same_cmap_lemma(fold, FR.dollar2, 'ninja').inst(u=w))
            return p.qed()
        lem = escape_lemma(fold, 'path' if case in ('output', 'input') else 'value')
        p.need(lem)
        p.use(lem.inst(u=w))
        p.qed()

    def native_params(self, case):
        return ['string']

    def native_build(self, case, raw):
        return {'string': raw['string'], 'syntax': Syntax[case]}, Args({'string': raw['string'], 'syntax': Syntax[case]})

    def native_call(self, case, call_args):
        return nsyn.Writer.escape_str(**call_args)

    def native_alphabet(self):
        return "a$ :|\n\r'"


def written(self_obj, buf0):
    b = self_obj.attrs['stream'].buf
    if isinstance(b, str):
        b0 = T.as_pystr(buf0)
        if b0 is None or not b.startswith(b0):
            raise OutOfSubset('stream is not old-buffer + appended text')
        return T.lit(b[len(b0):])
    buf = M.sym_str(b)
    if T.is_empty(z3.simplify(buf0)):
        return z3.simplify(buf)
    parts = T.flat_parts(z3.simplify(buf))
    if not parts or parts[0].get_id() != buf0.get_id():
        raise OutOfSubset('stream is not old-buffer + appended text')
    return T.cat(*parts[1:])


class Write(Contract):
    """Writer.write for one fragment: the C02 obligation for one argument string; and, for a jbos of fragments
    of unknown kind, the structural law that the text is the concatenation of the fragments' texts written
    with the *same* syntax and shell_quote."""
    target = 'bfg9000/backends/ninja/syntax.py::Writer.write'
    properties = ('C02', 'C04')

    KINDS = ['str', 'shell_literal', 'literal']

    def cases(self):
        cs = ['%s/%s' % (k, sx) for k in self.KINDS for sx in ('shell', 'clean', 'output', 'input')]
        cs += ['jbos/%s/%s' % (sx, sq) for sx in ('shell', 'clean', 'output', 'input') for sq in ('quote', 'inner', 'none')]
        cs += ['str/shell/inner', 'path/shell/str', 'path/shell/var+str', 'path/shell/var']
        return cs

    def loops(self):
        return {('Writer.write', 1): FR.jbos_loop_invariant('ninja', self)}

    def case_in_property(self, case, pid):
        sx = case.split('/')[1]
        if case.startswith('path/') or case == 'str/shell/inner':
            return pid in ('C02', 'C04')
        return sx in {'C02': ('shell', 'clean'), 'C04': ('output', 'input')}.get(pid, (sx,))

    def result_value(self, I, a):
        return fresh_sym('nw_escaped', 'bool')

    def effects(self, I, a):
        st = a.self.attrs['stream']
        a.buf0 = M.sym_str(st.buf)
        st.buf = M.mk_str(z3.Concat(M.sym_str(st.buf), T.fresh('nw_text', T.Str)))

    def mk_self(self, cx):
        buf0 = z3.Const('buf0', T.Str)
        cx.ghost('buf0', buf0)
        return Obj(nsyn.Writer, {'stream': PStream(Sym(buf0, 'str')), 'path_vars': None, 'shell': bshell})

    def params(self, cx, case):
        kind, sx = case.split('/')[:2]
        self.cur_sq = 'quote'
        if kind == 'jbos':
            self.cur_sq = case.split('/')[2]
            bits = z3.Const('bits', FR.Bits)
            thing = Obj(jbos, {'_jbos__bits': Sym(bits, FR.BITS_TY)})
            return {'self': self.mk_self(cx), 'thing': thing, 'syntax': Syntax[sx],
                    'shell_quote': FR.sq_fn(self.cur_sq)}
        if case == 'str/shell/inner':
            self.cur_sq = 'inner'
            return {'self': self.mk_self(cx), 'thing': cx.str('thing'), 'syntax': Syntax.shell,
                    'shell_quote': FR.sq_fn('inner')}
        if kind == 'path':
            shape = case.split('/')[2]
            from bfg9000.platforms.posix import PosixPath
            cx.ghost('shape', shape)
            cx.ghost('rz', cx.str('realized_suffix').e)
            cx.ghost('V', z3.Const('var_ref', T.Str))
            cx.ghost('pm', z3.Const('var_markers', T.Str))
            return {'self': self.mk_self(cx), 'thing': Obj(PosixPath, {'is_path_param': True}), 'syntax': Syntax[sx]}
        if kind == 'str':
            thing = cx.str('thing')
        elif kind == 'shell_literal':
            thing = Obj(shell_literal, {'string': cx.str('thing_string')})
        else:
            thing = Obj(literal, {'string': cx.str('thing_string')})
        return {'self': self.mk_self(cx), 'thing': thing, 'syntax': Syntax[sx]}

    READER = 'ninja'

    def is_path(self, a):
        return isinstance(a.thing, Obj) and a.thing.attrs.get('is_path_param')

    def opaque_calls(self):
        from bfg9000.platforms.basepath import BasePath

        def realize(I, args, kwargs, node):
            a = self.cur
            if not self.is_path(a):
                raise OutOfSubset('realize() outside the path cases')
            I.events.append(('realize', args, dict(kwargs)))
            rz, V = Sym(a.rz, 'str'), Obj(literal, {'string': Sym(a.V, 'str')})
            if a.shape == 'str':
                return rz
            if a.shape == 'var':
                return V
            return Obj(jbos, {'_jbos__bits': (V, rz)})
        return {BasePath.__dict__['realize']: realize}

    def var_ok(self, a):
        V, pm = a.V, a.pm
        n = z3.Length(V)
        return z3.And(n >= 3, V[0] == ord('$'), V[n - 1] != ord("'"), PS.reads(self.READER, V, pm), FR.all_markers(pm))

    def ghosts_for(self, callee, a, frame, site):
        if isinstance(callee, PS.WrapQuotes):
            me = self.cur
            pre, pm = (T.empty(), T.empty()) if me.shape == 'str' else (me.V, me.pm)
            m = T.empty() if me.shape == 'var' else me.rz
            return {'m': m, 'pre': pre, 'pm': pm, 'reader': self.READER}
        return None

    def content(self, a):
        t = a.thing
        return M.sym_str(t.attrs['string']) if isinstance(t, Obj) else M.sym_str(t)

    def is_jbos(self, a):
        return isinstance(a.thing, Obj) and a.thing.cls is jbos

    def requires(self, a):
        if self.is_jbos(a):
            return z3.BoolVal(True)
        if self.is_path(a):
            return T.AND(z3.Not(has_crlf(a.rz)), self.var_ok(a),
                         z3.BoolVal(True) if a.shape == 'var' else z3.Length(a.rz) > 0)
        s = self.content(a)
        if isinstance(a.thing, Obj) and a.thing.cls is literal:
            return z3.BoolVal(True)
        if a.syntax in (Syntax.output, Syntax.input):
            return z3.Not(has_pipe_crlf(s))
        return z3.Not(has_crlf(s))

    def ensures(self, a, r):
        if self.is_jbos(a):
            fns = FR.frag_fns('ninja', a.syntax, FR.sq_tag(a._d.get('shell_quote')))
            bits = a.thing.attrs['_jbos__bits'].e
            n = z3.Length(bits)
            buf = M.sym_str(a.self.attrs['stream'].buf)
            return {'text_is_concatenation_of_fragment_texts': buf == z3.Concat(a.buf0, fns.CW(bits, n)),
                    'flag_is_disjunction_of_fragment_flags': T.zbool(M.lift(r)) == fns.OE(bits, n)}
        w = written(a.self, a.buf0)
        if self.is_path(a):
            ok, tt = PS.reader_out(self.READER, w)
            content = {'str': a.rz, 'var': a.pm, 'var+str': T.cat(a.pm, a.rz)}[a.shape]
            ev = [e for e in a.events if e[0] == 'realize']
            return {'path_realized_once_with_the_writers_variables': z3.BoolVal(
                        len(ev) == 1 and ev[0][1][0] is a.thing and ev[0][1][1] is a.self.attrs['path_vars']),
                    'build_tool_reads_literal_text': ok,
                    'sh_reads_exactly_the_realized_path_as_one_fragment': frag(tt, content)}
        s = self.content(a)
        t = a.thing
        if FR.sq_tag(a._d.get('shell_quote')) == 'inner' and not isinstance(t, Obj):
            q = T.zbool(M.lift(r))
            return {'text_is_dollar_doubled_inner_quoting': w == FR.dol(z3.If(q, PS.sq(s), s)),
                    'unquoted_only_if_inert': z3.Implies(z3.Not(q), T.AND(z3.Length(s) > 0, z3.Not(PS.not_inert(s))))}
        if isinstance(t, Obj) and t.cls is literal:
            return {'literal_verbatim': w == s, 'literal_counts_as_escaped': T.zbool(M.lift(r))}
        if a.syntax in (Syntax.output, Syntax.input):
            return {'ninja_reads_path_back': literal_value(nj_path, w, s)}
        st, out = nj_value.run((NORMAL, 1), w)
        lit_ok = T.AND(st[0] == NORMAL, st[1] == 1)
        if a.syntax == Syntax.shell and not isinstance(t, Obj):
            # ninja hands `out` to sh; sh reads exactly one word fragment with content `thing`
            return {'ninja_value_is_literal': lit_ok, 'sh_reads_back_exactly_thing': frag(out, s)}
        return {'ninja_reads_value_back': T.AND(lit_ok, out == s)}

    def side_proof(self, p, a, kind, name, case):
        if case.startswith('path/') and 'wrap_quotes' in name:
            rz = a.rz
            p.use(PS.L_sq_identity.inst(u=rz))
            p.use(PS.L_inert_no_quote.inst(u=rz))
        p.qed()

    def proof(self, p, a, r, name, case):
        if case.startswith('path/'):
            rz = a.rz
            p.use(PS.L_inert.inst(u=rz))
            p.use(PS.L_reader_dollar[self.READER].inst(u=rz))
            p.use(PS.L_markers_sq.inst(u=a.pm))
        p.qed()

    def apply_at_call(self, I, bound, site, frame):
        thing = bound['thing']
        if isinstance(thing, Obj) and thing.cls is jbos and isinstance(thing.attrs.get('_jbos__bits'), tuple):
            # a jbos whose bits are known: by the jbos case of this contract (proved for lists of any length) the
            # call behaves as the sequence of writes of its bits with the same syntax and shell_quote
            esc = False
            for k, bit in enumerate(thing.attrs['_jbos__bits']):
                b2 = dict(bound)
                b2['thing'] = bit
                e = self.apply_at_call(I, b2, '%s.bit%d' % (site, k), frame)
                esc = M.mk_bool(T.OR(T.zbool(M.lift(esc)), T.zbool(M.lift(e))))
            return esc
        if isinstance(thing, Sym) and isinstance(thing.ty, tuple) and thing.ty[0] == 'opaque':
            # a fragment of unknown kind: its text and flag are the (uninterpreted) functions of the fragment,
            # the syntax and the shell_quote that were passed
            fns = FR.frag_fns('ninja', bound['syntax'], FR.sq_tag(bound.get('shell_quote')))
            st = bound['self'].attrs['stream']
            st.buf = M.mk_str(z3.Concat(M.sym_str(st.buf), fns.Wt(thing.e)))
            return M.mk_bool(fns.We(thing.e))
        if not isinstance(I.active, type(self)):
            # a concrete fragment written from another function: that caller interprets Writer.write itself
            from pyvc.interp import InlineInstead
            raise InlineInstead()
        return Contract.apply_at_call(self, I, bound, site, frame)

    def native_params(self, case):
        return ['thing'] if case.startswith('str/') else None

    def native_alphabet(self):
        return "a$ :|'\\\n"

    def native_build(self, case, raw):
        import io
        parts = case.split('/')
        kind, sx = parts[0], parts[1]
        buf0 = 'PRE'
        stream = io.StringIO()
        stream.write(buf0)
        wr = nsyn.Writer(stream, {}, bshell)
        selfv = Obj(nsyn.Writer, {'stream': PStream(buf0), 'path_vars': None, 'shell': bshell})
        d = {'self': selfv, 'thing': raw['thing'], 'syntax': Syntax[sx]}
        extra = {}
        if len(parts) == 3:
            d['shell_quote'] = FR.sq_fn(parts[2])
            extra['shell_quote'] = d['shell_quote']
        a = Args(d, {'buf0': T.lit(buf0)})
        return dict({'writer': wr, 'thing': raw['thing'], 'syntax': Syntax[sx], '_self': selfv}, **extra), a

    def native_call(self, case, call_args):
        wr = call_args['writer']
        if 'shell_quote' in call_args:
            r = wr.write(call_args['thing'], call_args['syntax'], call_args['shell_quote'])
        else:
            r = wr.write(call_args['thing'], call_args['syntax'])
        call_args['_self'].attrs['stream'].buf = wr.stream.getvalue()
        return r

    def native_explain(self, case, raw, res):
        return None


def registry():
    from contracts import posix_shell
    from contracts import lists, buildfile
    return posix_shell.registry() + [EscapeStr(), Write(), lists.Tween(), lists.NinjaWriteEach(), lists.NinjaWriteShell()] + buildfile.ninja_registry()


LEMMAS = []
