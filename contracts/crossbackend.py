"""C06: Makefile, build.ninja and compile_commands.json written from one script describe the same build (bounded).

A relational property across three hand-written emitters per builtin: a product-program contract per builtin is out of
reach (DESIGN.md 8.3).  The stand-in configures generated projects once per backend with the tree under test and
compares what the tools would do: GNU make itself reports the Make side (`make -n -B` for command lines, `make -pn`
for the dependency relation); the Ninja side is read with the evaluator of specs/ninja_eval.py (no ninja binary exists
in the sandbox); command lines are cut into argument lists with the sh word spec.  Documented backend-specific
differences that are normalised away: Ninja-only `-fdiagnostics-color`; Make's directory sentinels (`x/.dir`, mkdir,
touch), its stamp file for a step with several outputs (`touch x.stamp.tmp` ... `mv x.stamp.tmp x.stamp`, and the no-op `:` that makes make look at the outputs again) and its depfixer post-processing line; the regeneration statement itself; `./` in front of a path."""
import json
import os
import re
from contracts.bounded_cmd import Bounded
from contracts.determinism import BUILD_BFG as PROJECT_A
from specs.sh import sh_words
from specs.ninja_eval import NinjaFile

PROJECT_B = """
project('q')
gen = build_step('gen out.c', cmd=['cp', source_file('template.c'), 'gen out.c'])
lib = static_library('core lib/core', files=['a.c', gen])
exe = executable('tool', files=['main.c'], libs=[lib], compile_options=['-DMSG="a b"', '-DCOST=$5'],
                 link_options=['-Wl,--as-needed'])
cp = copy_file('data/in put.txt')
command('say', cmd=['echo', 'it is', '$HOME', exe], environment={'K': 'v w'})
test([exe, '--x', 'y z'], environment={'T': '1 2'})
test_deps(cp, gen)
default(exe, cp)
"""
PROJECT_C = """
project('r')
global_link_options(['-Wl,--as-needed'])
hdr = header_file('api.h')
genh = build_step('gen.h', cmd=['cp', source_file('gen.h.in'), 'gen.h'])
lib = static_library('foo', files=['a.c'])
t = executable('t', files=['main.c'], libs=[lib])
prog = executable('prog', files=['s.c', 'main.c'], includes=[hdr, genh], libs=[lib])
tool = build_step('tool.sh', cmd=['cp', source_file('tool.sh.in'), 'tool.sh'])
out = build_step('out.txt', cmd=['sh', tool, build_step.input], files=['data.txt'], extra_deps=[source_file('notes.txt')])
gen = build_step('gen.txt', cmd=['cp', source_file('in.txt'), 'gen.txt'])
link = copy_file('link.txt', gen, mode='symlink')
final = build_step('final.txt', cmd=['cp', link, 'final.txt'])
deep = copy_file('links/deep/d.txt', gen, mode='symlink')
stamp = build_step('now.txt', cmd=['touch', 'now.txt'], always_outdated=True)
pair = build_step(['p1.txt', 'p2.txt'], cmd=['touch', 'p1.txt', 'p2.txt'], always_outdated=True)
table = build_step('table.txt', cmds=[['cp', source_file('table.in'), 'table.txt'], ['touch', 'table.txt']])
viaprog = build_step('viaprog.txt', cmd=[t, build_step.input, build_step.output], files=['in.txt'])
report = build_step('report.txt', cmd=['sh', tool, '--from=' + gen, build_step.output])
vers = shared_library('vers', files=['s2.c'], version='1.2.3', soversion='1')
test(t)
"""
# what the script of PROJECT_C describes: {target: prerequisites} for the steps it declares itself (objects and
# directory sentinels are left to the backends), and what `all` builds (everything except the test-only program)
GRAPH_C = {
    'gen.h': {'{src}/gen.h.in'}, 'tool.sh': {'{src}/tool.sh.in'},
    'out.txt': {'{src}/data.txt', 'tool.sh', '{src}/notes.txt'},
    'gen.txt': {'{src}/in.txt'}, 'link.txt': {'gen.txt'}, 'final.txt': {'link.txt'}, 'links/deep/d.txt': {'gen.txt'},
    'libfoo.a': {'libfoo.int/a.o'}, 't': {'t.int/main.o', 'libfoo.a'},
    'prog': {'prog.int/s.o', 'prog.int/main.o', 'libfoo.a'},
    'prog.int/main.o': {'{src}/main.c', '{src}/api.h', 'gen.h'}, 'prog.int/s.o': {'{src}/s.c', '{src}/api.h', 'gen.h'},
    'table.txt': {'{src}/table.in'},    # a file named in the first of two command lines
    'viaprog.txt': {'{src}/in.txt', 't'},   # the program of a step is a program built by the project
    'all': {'prog', 'libfoo.a', 'libvers.so'},   # programs and libraries (by their public name) that are not test-only
    'tests': {'t'},
    'report.txt': {'tool.sh', 'gen.txt'},   # a file named inside a command word (`'--from=' + file`); checked last (known finding)
}
# an implicitly created precompiled header with explicitly passed (source and generated) headers; a program that needs
# a runner (java) handed to test(); install() decides the default set
PROJECT_D = """
project('s')
hdr = header_file('api.h')
genh = build_step('gen.h', cmd=['cp', source_file('gen.h.in'), 'gen.h'])
prog = executable('prog', files=['s.c'], pch='pre.h', includes=[hdr, genh])
other = executable('other', files=['main.c'])
jt = executable('jt', files=['Jt.java'], entry_point='Jt')
test(jt)
"""
GRAPH_D = {
    'gen.h': {'{src}/gen.h.in'},
    'pre.h.gch': {'{src}/pre.h', '{src}/api.h', 'gen.h'},
    'prog.int/s.o': {'{src}/s.c', '{src}/api.h', 'gen.h', 'pre.h.gch'},
    'prog': {'prog.int/s.o'}, 'other': {'other.int/main.o'},
    'all': {'prog', 'other'},           # every linked binary that was not handed to test()
    'tests': {'jt.jar'},
}
GRAPH_DI = dict(GRAPH_D, all={'prog'})  # exactly what install() was given
# the same script configured for another architecture without a prefix: installation is disabled (warning), the graph
# and the default set are the same
TOOLCHAIN_X = "target_platform('linux', 'aarch64')\n"
PROJECTS = {'libraries': (PROJECT_A, None), 'steps-and-specials': (PROJECT_B, None),
            'described-graph': (PROJECT_C, GRAPH_C), 'pch-and-runner': (PROJECT_D, GRAPH_D),
            'install-decides-default': (PROJECT_D + 'install(prog)\n', GRAPH_DI),
            'install-disabled': (PROJECT_D + 'install(prog)\n', GRAPH_DI, TOOLCHAIN_X),
            # a package file but no install(): deploying the packages is the only install action (stub `mopack`)
            'package-file-only': ("project('m')\nexecutable('p', files=['main.c'])\n", None, None, True)}


def norm_path(p):
    while p.startswith('./'):
        p = p[2:]
    return p


def argv_of(line):
    """Words of a simple sh command.  Where the sh spec reads the line literally its words are used; otherwise (a
    redirection, an expansion such as $HOME) a quote-aware splitter that keeps an *active* `$` distinct from a quoted
    one (written `\uff04`), so that `$HOME` and `'$HOME'` never compare equal."""
    w = sh_words(line)
    if w is not None:
        return [x.replace('$', '\uff04') for x in w]
    out, cur, has, i, n = [], '', False, 0, len(line)
    while i < n:
        c = line[i]
        if c in ' \t':
            if has:
                out.append(cur)
            cur, has = '', False
            i += 1
        elif c == "'":
            j = line.index("'", i + 1)
            cur += line[i + 1:j].replace('$', '\uff04')
            has = True
            i = j + 1
        elif c == '"':
            i += 1
            while line[i] != '"':
                if line[i] == '\\' and line[i + 1] in '"\\$`':
                    cur += line[i + 1].replace('$', '\uff04')
                    i += 2
                else:
                    cur += line[i]
                    i += 1
            has = True
            i += 1
        elif c == '\\' and i + 1 < n:
            cur += line[i + 1].replace('$', '\uff04')
            has = True
            i += 2
        else:
            cur += c
            has = True
            i += 1
    if has:
        out.append(cur)
    return out


def split_and(line):
    """sh line -> list of simple commands separated by && (outside quotes)."""
    out, cur, q = [], '', None
    i = 0
    while i < len(line):
        c = line[i]
        if q:
            cur += c
            if c == q:
                q = None
        elif c in '\'"':
            q = c
            cur += c
        elif line[i:i + 2] == '&&':
            out.append(cur.strip())
            cur = ''
            i += 2
            continue
        else:
            cur += c
        i += 1
    if cur.strip():
        out.append(cur.strip())
    return out


_BUILD_DIRS = []


def canon(argv):
    # (the program word keeps a leading `./`: `./prog` and `prog` are not the same program; the two backends are
    # configured into two build directories, so an absolute spelling of the build directory -- flags taken from the
    # project's own uninstalled .pc files -- is compared by name)
    def same_builddir(a):
        for d in _BUILD_DIRS:
            a = a.replace(d, '<builddir>')
        return a
    return tuple(a if i == 0 else same_builddir(norm_path(a)) for i, a in enumerate(x for x in argv if x != '-fdiagnostics-color'))


class CrossBackend(Bounded):
    """Two generated projects (libraries / options / tests / install / pkg-config; build_step, command, copy_file with
    blanks, `$` and quotes in names and options) configured for Make and for Ninja: the same buildable file targets,
    the same dependency relation between files, the same command lines (program, arguments, environment
    assignments) for building, testing, installing and uninstalling, and compile_commands.json entries that match
    the compile steps of their backend."""
    target = 'bfg9000/builtins/compile.py::ninja_compile'
    properties = ('C06', 'C03')
    reason = 'relational property across three emitters per builtin: runtime contract on the real pipeline'
    native_chunk = 1

    def native_inputs(self, case, alphabet, maxlen, rng, extra=0):
        for k in PROJECTS:
            if getattr(self, 'active_property', None) == 'C03' and PROJECTS[k][1] is None:
                continue
            yield {'project': k}

    def native_check(self, case, raw):
        import shutil, subprocess, tempfile
        from pyvc.interp import REPO
        top = tempfile.mkdtemp(prefix='pyvc_xb_')
        try:
            src = top + '/src'

            def w(rel, text):
                fp = src + '/' + rel
                os.makedirs(os.path.dirname(fp), exist_ok=True)
                with open(fp, 'w') as f:
                    f.write(text)
            w('build.bfg', PROJECTS[raw['project']][0])
            for i in range(3):
                w('lib/f%d.c' % i, 'int f%d(void) { return %d; }\n' % (i, i))
                w('include/d%d/h%d.h' % (i, i), '')
            for f in ('api.h', 'gen.h.in', 'tool.sh.in', 'data.txt', 'notes.txt', 'in.txt', 'table.in'):
                w(f, '')
            for f in ('s.c', 's2.c', 's3.c', 'a.c', 'template.c'):
                w(f, 'int fn_%s(void) { return 0; }\n' % f.replace('.', '_'))
            w('main.c', 'int main(void) { return 0; }\n')
            w('pre.h', '#include <stdio.h>\n')
            w('Jt.java', 'public class Jt { public static void main(String[] a) { } }\n')
            w('README', '')
            for d in ('one', 'two', 'three', 'four'):
                w('prebuilt/%s/lib%s.so' % (d, d), '')
            w('data/in put.txt', 'x')
            os.makedirs(top + '/bin')
            for name, mod in (('bfg9000', 'bfg9000.driver'), ('bfg9000-depfixer', 'bfg9000.depfixer')):
                lp = top + '/bin/' + name
                with open(lp, 'w') as f:
                    f.write("#!/bin/sh\nPYTHONPATH=%s exec /venv/bin/python -c 'import sys; sys.argv[0] = \"%s\"; "
                            "from %s import main; sys.exit(main())' \"$@\"\n" % (REPO, lp, mod))
                os.chmod(lp, 0o755)
            with open(top + '/bin/ninja', 'w') as f:
                f.write('#!/bin/sh\necho 1.10.1\n')
            os.chmod(top + '/bin/ninja', 0o755)
            env = dict(os.environ, PATH=top + '/bin:/venv/bin:' + os.environ['PATH'])
            env.pop('MAKEFLAGS', None)

            def run(cmd, **kw):
                return subprocess.run(cmd, env=env, capture_output=True, text=True, timeout=300, **kw)
            bm, bn = top + '/bm', top + '/bn'
            _BUILD_DIRS[:] = [bm, bn]
            for be, b in (('make', bm), ('ninja', bn)):
                spec = PROJECTS[raw['project']] + (None, None)
                extra_args = ['--no-resolve-packages']
                if spec[2]:
                    w('cross.bfg', spec[2])
                    extra_args += ['--toolchain', src + '/cross.bfg']
                if spec[3]:
                    # no usable mopack in the sandbox: a stub that resolves nothing and lists the package file
                    w('mopack.yml', 'packages: {}\n')
                    with open(top + '/bin/mopack', 'w') as f:
                        f.write("#!/bin/sh\ncase \"$1\" in list-files) echo '[\"%s/mopack.yml\"]';; "
                                "resolve) mkdir -p \"$3/mopack\"; echo '{}' > \"$3/mopack/mopack.json\";; esac\nexit 0\n" % src)
                    os.chmod(top + '/bin/mopack', 0o755)
                    extra_args = ['-p', src + '/mopack.yml']
                r = run([top + '/bin/bfg9000', 'configure-into', src, b, '--backend=' + be] + extra_args)
                if r.returncode != 0:
                    return self.fail(case, raw, 'configure_succeeds', backend=be, stderr=r.stderr[-500:])
            nf = NinjaFile(open(bn + '/build.ninja').read())
            # ---- ninja side ---------------------------------------------------------------------------------
            n_cmds, n_edges, n_special = [], {}, {}
            SPECIAL = ('install', 'uninstall', 'test', 'clean', 'dist-gzip', 'dist-bzip2', 'dist-zip')
            for bld in nf.builds:
                outs = [norm_path(o) for o in bld.outputs]
                if bld.rule == 'regenerate' or outs == ['PHONY']:
                    continue
                deps = sorted({norm_path(d) for d in bld.inputs + bld.implicit} - {'PHONY'})
                cmd = nf.command(bld)
                if outs[0] in SPECIAL:
                    n_special[outs[0]] = [canon(argv_of(c)) for c in split_and(cmd)]
                    n_edges[outs[0]] = deps
                    continue
                for o in outs:
                    n_edges[o] = deps
                if bld.rule != 'phony':
                    n_cmds.append(tuple(canon(argv_of(c)) for c in split_and(cmd)))
            # ---- make side ------------------------------------------------------------------------------------
            def make_lines(*goals):
                r = run(['make', '-C', bm, '--no-print-directory', '-n', '-B'] + list(goals))
                if r.returncode != 0:
                    raise RuntimeError((r.stdout + r.stderr)[-400:])
                out = []
                for l in r.stdout.splitlines():
                    if re.match(r"^(mkdir -p '|touch '.*/\.dir'$|touch '?[^ ']*\.stamp'?(\.tmp)?$|mv '?[^ ']*\.stamp'?\.tmp '?[^ ']*\.stamp'?$|:$|make(\[\d+\])?: )", l) or 'bfg9000-depfixer <' in l or \
                            l.endswith('bfg9000 regenerate --lazy'):
                        continue
                    out.append(l)
                return out
            try:
                build_lines = make_lines('all')
                produced = [o for b_ in nf.builds if b_.rule not in ('phony', 'regenerate') for o in b_.outputs
                            if norm_path(o) not in SPECIAL]
                extra = make_lines(*([g for g in ('everything', 'say', 'tests') if g in n_edges] + produced))
            except RuntimeError as e:
                return self.fail(case, raw, 'make_dry_run_succeeds', output=str(e))
            m_cmds = {}
            for l in build_lines + extra:
                key = tuple(canon(argv_of(c)) for c in split_and(l))
                m_cmds[key] = True
            n_set = {c for c in n_cmds}
            if set(m_cmds) != n_set:
                return self.fail(case, raw, 'same_command_lines_for_every_build_step',
                                 only_make=[' '.join(a) for k in sorted(set(m_cmds) - n_set) for a in k][:6],
                                 only_ninja=[' '.join(a) for k in sorted(n_set - set(m_cmds)) for a in k][:6])
            for goal in SPECIAL:
                if goal not in n_special or goal == 'clean':
                    continue
                r = run(['make', '-C', bm, '--no-print-directory', '-n', goal])
                lines = [l for l in r.stdout.splitlines() if l.strip()]
                # the special goals depend on `all`/`tests`: their own recipe is the tail of the dry run
                want = n_special[goal]
                got = [canon(argv_of(c)) for l in lines for c in split_and(l)]
                if got[-len(want):] != want:
                    return self.fail(case, raw, 'same_command_lines_for_%s' % goal.split('-')[0],
                                     make=[' '.join(a) for a in got[-len(want):]], ninja=[' '.join(a) for a in want])
            # ---- dependency relation (make's own database) -------------------------------------------------------
            r = run(['make', '-C', bm, '--no-print-directory', '-pn', '-q', 'all'])
            m_edges, in_files = {}, False
            for l in r.stdout.splitlines():
                if l.startswith('# Files'):
                    in_files = True
                    continue
                if l.startswith('# files hash-table stats') or l.startswith('# VPATH'):
                    in_files = False
                if not in_files or not l or l[0] in '#\t ' or ':' not in l or ':=' in l or '= ' in l:
                    continue
                t, d = l.split(':', 1)
                if d.startswith(':'):
                    d = d[1:]
                deps = d.split('|')[0].split()
                tn = norm_path(t.strip().replace('\\ ', ' '))
                m_edges[tn] = sorted({norm_path(x) for x in deps})
            # Make's device for a step with several outputs: every output depends on `<first>.stamp`, which carries the
            # prerequisites and the recipe
            stamped = {}
            for t, d in list(m_edges.items()):
                if len(d) == 1 and d[0].endswith('.stamp') and d[0] in m_edges:
                    stamped[t] = d[0]
                    m_edges[t] = m_edges[d[0]]
            files_n = {o for o in n_edges if o not in ('build.ninja',) and not o.startswith('pkgconfig/')}
            for o in sorted(files_n):
                if o not in m_edges:
                    return self.fail(case, raw, 'same_buildable_targets', missing_in_make=o)
                # make -p prints a name with a blank unescaped: both sides are compared as blank-separated tokens
                nd = sorted({norm_path(t) for d in n_edges[o] for t in d.split(' ')})
                if m_edges[o] != nd:
                    return self.fail(case, raw, 'same_dependency_relation', file=o, make=m_edges[o], ninja=nd)
            # ---- steps that are always out of date, and the goals that exist ----------------------------------------
            n_phony = {norm_path(o) for b_ in nf.builds if b_.rule != 'phony' and 'PHONY' in b_.inputs + b_.implicit
                       for o in b_.outputs}
            produced_n = {norm_path(o) for b_ in nf.builds if b_.rule not in ('phony', 'regenerate') for o in b_.outputs}
            m_phony = set(m_edges.get('.PHONY', []))
            m_always = {t for t in produced_n if t in m_phony or stamped.get(t) in m_phony}
            if m_always != n_phony:
                return self.fail(case, raw, 'same_always_outdated_steps', make=sorted(m_always), ninja=sorted(n_phony))
            m_goals = {g for g in SPECIAL if g in m_edges}
            if m_goals != set(n_special):
                return self.fail(case, raw, 'same_goals', only_make=sorted(m_goals - set(n_special)),
                                 only_ninja=sorted(set(n_special) - m_goals))
            # ---- compile_commands.json of each backend against that backend's compile steps ------------------
            for b, cmds in ((bm, set(m_cmds)), (bn, n_set)):
                db = json.load(open(b + '/compile_commands.json'))
                flat = {k[0] for k in cmds if len(k) == 1}
                for e in db:
                    if e['directory'] != b:
                        return self.fail(case, raw, 'compdb_directory_is_the_build_directory', entry=e)
                    e['arguments'] = [a.replace('$', '\uff04') for a in e['arguments']]     # literal argument strings
                    if canon(e['arguments']) not in flat:
                        return self.fail(case, raw, 'compdb_entry_is_a_command_of_its_backend', backend=os.path.basename(b),
                                         arguments=e['arguments'])
                compiles = {k for k in flat if '-c' in k}
                have = {canon(e['arguments']) for e in db}
                if not compiles <= have:
                    return self.fail(case, raw, 'every_compile_step_in_compdb', backend=os.path.basename(b),
                                     missing=[' '.join(k) for k in sorted(compiles - have)][:4])
            # ---- the graph the script describes (projects that come with one) -------------------------------------
            graph = PROJECTS[raw['project']][1]
            if graph and getattr(self, 'active_property', None) in (None, 'C03'):      # (the described graph is C03's clause)
                for tgt, deps in graph.items():
                    want = sorted(norm_path(d.format(src=src)) for d in deps)
                    for be, edges in (('make', m_edges), ('ninja', n_edges)):
                        if tgt not in edges or sorted(set(edges[tgt])) != want:
                            return self.fail(case, raw, 'dependencies_are_the_ones_the_script_describes', backend=be,
                                             file=tgt, written=edges.get(tgt), described=want)
            return True
        finally:
            shutil.rmtree(top, ignore_errors=True)


def _join_escaped(words):
    """make -p prints `a\\ b` for a name with a blank: re-join words that end in a backslash."""
    out, cur = [], ''
    for w in words:
        if w.endswith('\\'):
            cur += w + ' '
        else:
            out.append(cur + w)
            cur = ''
    if cur:
        out.append(cur.rstrip())
    return out


def registry():
    return [CrossBackend()]
