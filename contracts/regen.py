"""C08: serialisation inverses used by regeneration (find cache), and the pruned walk (shared with C11)."""
import itertools as _it
import json as _json
from contracts.bounded_cmd import Bounded

import bfg9000.builtins.find as F
import bfg9000.builtins.regenerate as R
from bfg9000.glob import PathGlob, NameGlob
from bfg9000.path import Path, Root


def rt(x):
    return _json.loads(_json.dumps(x))


class FindCacheJson(Bounded):
    """to_json / from_json of everything the persisted find cache is made of is the identity, including the
    file-vs-directory flag of every path; a cache file with a newer format version is refused."""
    target = 'bfg9000/builtins/find.py::FindCache.from_json'
    properties = ('C08',)
    reason = 'JSON surgery over nested containers of library-built objects (compiled regexes): runtime contract only'
    PATTERNS = ['*.c', 'src/**/*.h', 'a/*/', '**/', 'x y/*.[ch]', 'inc/**/d?/']
    NAMES = ['*.bak', 'build/', '.*', 'x y']
    PATHS = [('a/b.c', False), ('a/', True), ('x y/z', False), ('.', True), ('d/e/', True)]

    def cases(self):
        return ['glob', 'filter', 'cache', 'file']

    def native_inputs(self, case, alphabet, maxlen, rng, extra=0):
        if case == 'glob':
            for p in self.PATTERNS:
                for t in (None, 'f', 'd', '*'):
                    yield {'pattern': p, 'type': t}
            for n in self.NAMES:
                for t in (None, 'f', 'd', '*'):
                    yield {'name': n, 'type': t}
        elif case == 'filter':
            for inc in _it.chain(([p] for p in self.PATTERNS), _it.combinations(self.PATTERNS[:4], 2)):
                for ex in (None, ['*.bak'], ['build/', '.*']):
                    for xt in (None, ['*.h']):
                        yield {'include': list(inc), 'exclude': ex, 'extra': xt}
        elif case == 'cache':
            for k in range(0, len(self.PATHS) + 1):
                for found in _it.combinations(range(len(self.PATHS)), k):
                    yield {'found': list(found), 'extra': [i for i in range(len(self.PATHS)) if i not in found][:2]}
        else:
            for v in (1, 2):
                yield {'version': v}

    def paths(self, idx):
        return [Path(s, Root.srcdir, directory=d) for s, d in (self.PATHS[i] for i in idx)]

    def native_check(self, case, raw):
        if case == 'glob':
            if 'pattern' in raw:
                try:
                    g = PathGlob(raw['pattern'], raw['type'])
                except ValueError:
                    return None
                g2 = PathGlob.from_json(rt(g.to_json()))
                probes = [Path(s, Root.srcdir, directory=d) for s, d in self.PATHS] + [Path('src/q/r.h', Root.srcdir)]
                same = g2 == g and hash(g2) == hash(g) and all(g.match(p) == g2.match(p) for p in probes)
            else:
                try:
                    g = NameGlob(raw['name'], raw['type'])
                except ValueError:
                    return None
                g2 = NameGlob.from_json(rt(g.to_json()))
                probes = [Path(s, Root.srcdir, directory=d) for s, d in self.PATHS]
                same = g2 == g and hash(g2) == hash(g) and all(g.match(p) == g2.match(p) for p in probes)
            if not same:
                return self.fail(case, raw, 'glob_json_round_trip')
            return True
        if case == 'filter':
            f = F.FileFilter(raw['include'], None, raw['extra'], raw['exclude'])
            f2 = F.FileFilter.from_json(rt(f.to_json()), {})
            if not (f2 == f and hash(f2) == hash(f)):
                return self.fail(case, raw, 'filter_json_round_trip')
            return True
        if case == 'cache':
            c = F.FindCache()
            flt = F.FileFilter(['*.c'])
            found, extra = self.paths(raw['found']), self.paths(raw['extra'])
            c.add(flt, found, extra)
            c2 = F.FindCache.from_json(rt(c.to_json()), {})
            e = c2[flt]
            ok = (list(e.found) == found and list(e.extra) == extra and
                  [p.directory for p in e.found] == [p.directory for p in found] and
                  [p.directory for p in e.extra] == [p.directory for p in extra])
            if not ok:
                return self.fail(case, raw, 'cache_json_round_trip_keeps_kinds')
            return True
        import os, tempfile
        with tempfile.TemporaryDirectory() as tmp:
            c = F.FindCache()
            c.add(F.FileFilter(['*.c']), self.paths([0]), [])
            regen = R.RegenerateFiles([Path('build.bfg', Root.srcdir)], [Path('build.ninja')])
            F.FindCacheFile(regen, c).save(tmp)
            fn = os.path.join(tmp, F.FindCacheFile.cachefile)
            st = _json.load(open(fn))
            st['version'] = raw['version']
            _json.dump(st, open(fn, 'w'))
            try:
                r2, c2 = F.FindCacheFile.load(tmp, {})
                loaded = True
            except F.CacheVersionError:
                loaded = False
            if loaded != (raw['version'] <= F.FindCacheFile.version):
                return self.fail(case, raw, 'newer_cache_version_refused', loaded=loaded)
            if loaded and (list(r2.inputs) != list(regen.inputs) or list(r2.outputs) != list(regen.outputs)):
                return self.fail(case, raw, 'regenerate_files_round_trip')
        return True


# ---- regeneration histories through the real driver and GNU make (bounded) -------------------------------------------

import os as _os


def _write(p, text):
    _os.makedirs(_os.path.dirname(p), exist_ok=True)
    with open(p, 'w') as f:
        f.write(text)


def _append(p, text):
    with open(p, 'a') as f:
        f.write(text)


def _drop_submodule(s):
    # the build script stops using the submodule and its script is deleted (a script that was a regeneration input)
    p = s + '/build.bfg'
    with open(p) as f:
        text = f.read()
    with open(p, 'w') as f:
        f.write(text.replace("submodule('sub')\n", ''))
    if _os.path.exists(s + '/sub/build.bfg'):
        _os.remove(s + '/sub/build.bfg')


def _drop_finds_add_submodule(s):
    # the build script stops searching for files and gains a new submodule (a new regeneration input)
    _write(s + '/build.bfg', "project('p')\nsubmodule('sub')\nsubmodule('sub2')\ncommand('say', cmd=['echo', argv.subname])\n"
                             "pkg_config('p', version='1.0')\n")
    if not _os.path.exists(s + '/sub/build.bfg'):        # (an earlier edit of the history may have dropped it)
        _write(s + '/sub/build.bfg', "copy_file('s.txt')\n")
    _write(s + '/sub2/build.bfg', "copy_file('u.txt')\n")
    _write(s + '/sub2/u.txt', '')
    _write(s + '/sub2/v.txt', '')


EDITS = {
    'none': lambda s: None,
    'edit-build': lambda s: _append(s + '/build.bfg', "copy_file('extra.txt')\n"),
    'touch-options': lambda s: _os.utime(s + '/options.bfg'),
    'edit-options': lambda s: _append(s + '/options.bfg', "argument('other', default='y')\n"),
    'edit-sub': lambda s: _append(s + '/sub/build.bfg', "copy_file('t.txt')\n"),
    'edit-sub-options': lambda s: _write(s + '/sub/options.bfg', "argument('subname', default='changed')\n"),
    'add-match-d1': lambda s: _write(s + '/d1/b.txt', ''),
    'add-nomatch-d1': lambda s: _write(s + '/d1/b.md', ''),
    'add-match-deep': lambda s: _write(s + '/d2/deep/z.dat', ''),       # (re-creates d2/deep after a rename)
    'rm-match': lambda s: _os.path.exists(s + '/d1/a.txt') and _os.remove(s + '/d1/a.txt'),
    'add-dir': lambda s: _write(s + '/d2/new/w.dat', ''),
    'rename-dir': lambda s: _os.path.isdir(s + '/d2/deep') and _os.rename(s + '/d2/deep', s + '/d2/deeper'),
    'add-empty-dir': lambda s: _os.makedirs(s + '/d2/empty', exist_ok=True),
    'drop-submodule': lambda s: _drop_submodule(s),
    'fill-empty-dir': lambda s: _write(s + '/d2/empty/w.dat', ''),
    'drop-finds-add-submodule': lambda s: _drop_finds_add_submodule(s),
    'create-later-dir': lambda s: _write(s + '/later/deep/new.txt', ''),
    'edit-toolchain': lambda s: _os.path.exists(s + '/tc.bfg') and _write(s + '/tc.bfg', "environ['SAID'] = 'two'\n"),
    'edit-new-submodule': lambda s: _os.path.exists(s + '/sub2/build.bfg') and _append(s + '/sub2/build.bfg', "copy_file('v.txt')\n"),
}
BUILD_FILES = ('Makefile', '.bfg_find_deps', '.bfg_find_cache', 'compile_commands.json')


def _sort_dist_members(text):
    out = []
    for l in text.split('\n'):
        if l.startswith('\t$(DOPPEL) -ipN -f ') or l.startswith('  cmd = ${doppel} -ipN -f '):
            w = l.split(' ')
            k = w.index('-P') + 2
            l = ' '.join(w[:k] + sorted(w[k:-1]) + w[-1:])
        out.append(l)
    return '\n'.join(out)


class RegenHistory(Bounded):
    """Edit sequences on a generated project (two find_files calls over different directories, a submodule, an
    options file), each followed by GNU make running the generated regeneration rule (`bfg9000 regenerate --lazy`
    through a launcher of the tree under test): afterwards Makefile, .bfg_find_deps, .bfg_find_cache and
    compile_commands.json are byte-identical to a fresh configure of the edited source into the same directory, and
    a second make regenerates nothing."""
    native_chunk = 1
    target = 'bfg9000/builtins/find.py::find_check_cache'
    properties = ('C08', 'C10', 'C11', 'C18')
    reason = 'history over the file system, mtimes and an external make process: runtime contract only'

    def native_inputs(self, case, alphabet, maxlen, rng, extra=0):
        names = [e for e in EDITS]
        for e in names:
            yield {'edits': [e]}
        pairs = [('add-match-d1', 'edit-sub'), ('edit-sub', 'add-match-d1'), ('rm-match', 'add-match-d1'),
                 ('add-dir', 'add-nomatch-d1'), ('rename-dir', 'edit-build'), ('touch-options', 'add-match-deep'),
                 ('add-nomatch-d1', 'none'), ('edit-options', 'rm-match'), ('add-empty-dir', 'add-dir'), ('add-empty-dir', 'fill-empty-dir'),
                 ('drop-finds-add-submodule', 'edit-new-submodule')]
        for a, b in pairs:
            yield {'edits': [a, b]}
        # one regeneration output only (no generated .pc file) but several inputs; and a toolchain file that is edited
        yield {'edits': ['add-match-d1', 'edit-sub'], 'single_output': True}
        yield {'edits': ['add-dir'], 'single_output': True}
        yield {'edits': ['create-later-dir'], 'later_dir': True}
        yield {'edits': ['add-match-d1', 'create-later-dir', 'edit-sub'], 'later_dir': True}
        yield {'edits': ['edit-toolchain'], 'toolchain': True}
        yield {'edits': ['edit-toolchain', 'add-match-d1'], 'toolchain': True}
        yield {'edits': ['add-match-d1', 'edit-toolchain'], 'toolchain': True, 'single_output': True}
        # the consequence of a watched-directory set that was not refreshed: only the last step is compared
        yield {'edits': ['add-empty-dir', 'fill-empty-dir'], 'compare_from': 1}
        if extra:
            for a in names:
                for b in names:
                    if a != b and (a, b) not in pairs:
                        yield {'edits': [a, b]}

    def native_check(self, case, raw):
        import shutil, subprocess, tempfile
        from pyvc.interp import REPO
        top = tempfile.mkdtemp(prefix='pyvc_regen_')
        try:
            src, b = top + '/src', top + '/b'
            _write(src + '/build.bfg', "project('p')\na = find_files('d1/*.txt', extra='*.md')\nb = find_files('d2/**/*.dat')\n"
                                      "submodule('sub')\nfor f in a + b:\n    copy_file(f)\ncommand('say', cmd=['echo', argv.subname])\n"
                                      + ("" if raw.get('single_output') else "pkg_config('p', version='1.0')\n")
                                      + ("command('said', cmd=['echo', env.getvar('SAID', 'nothing')])\n" if raw.get('toolchain') else "")
                                      # a search below a directory that does not exist when the project is configured
                                      + ("for f in find_files('later/deep/*.txt'):\n    copy_file(f)\n" if raw.get('later_dir') else ""))
            if raw.get('toolchain'):
                _write(src + '/tc.bfg', "environ['SAID'] = 'one'\n")
            _write(src + '/options.bfg', "argument('name', default='x')\nsubmodule('sub')\n")
            _write(src + '/sub/options.bfg', "argument('subname', default='y')\n")
            _write(src + '/sub/build.bfg', "copy_file('s.txt')\n")
            for f in ('sub/s.txt', 'sub/t.txt', 'extra.txt', 'd1/a.txt', 'd1/notes.md', 'd2/x.dat', 'd2/deep/y.dat'):
                _write(src + '/' + f, f)
            launcher = top + '/bin/bfg9000'
            _write(launcher, "#!/bin/sh\necho \"$@\" >> %s/calls.log\nPYTHONPATH=%s exec /venv/bin/python -c "
                   "'import sys; sys.argv[0] = \"%s\"; from bfg9000.driver import main; sys.exit(main())' \"$@\"\n"
                   % (top, REPO, launcher))
            _os.chmod(launcher, 0o755)
            env = dict(_os.environ, PATH=top + '/bin:' + _os.environ['PATH'])
            env.pop('MAKEFLAGS', None)
            conf = [launcher, 'configure-into', src, b, '--backend=make', '--no-resolve-packages'] + \
                (['--toolchain', src + '/tc.bfg'] if raw.get('toolchain') else [])

            def run(cmd):
                return subprocess.run(cmd, env=env, capture_output=True, text=True, timeout=120)

            def calls():
                try:
                    with open(top + '/calls.log') as f:
                        return [l for l in f.read().splitlines() if l.startswith('regenerate')]
                except OSError:
                    return []

            def snap(d):
                out = {}
                for n in BUILD_FILES:
                    try:
                        with open(d + '/' + n) as f:
                            out[n] = f.read()
                    except OSError:
                        out[n] = None
                return out

            def age(t):
                for root in (src, b):
                    for dp, dn, fn in _os.walk(root):
                        for n in fn + ['']:
                            _os.utime(_os.path.join(dp, n) if n else dp, (t, t))
            r = run(conf)
            if r.returncode != 0:
                return self.fail(case, raw, 'configure_succeeds', stderr=r.stderr[-400:])
            order_only = None
            for k, e in enumerate(raw['edits']):
                age(1600000000 + 1000 * k)
                EDITS[e](src)
                n0 = len(calls())
                m = run(['make', '-C', b, 'all'])
                if m.returncode != 0:
                    return self.fail(case, raw, 'make_succeeds_after_edit', step=k, edit=e, output=(m.stdout + m.stderr)[-500:])
                n1 = len(calls())
                got = snap(b)
                _os.rename(b, b + '.keep')
                f = run(conf)
                fresh = snap(b)
                shutil.rmtree(b, ignore_errors=True)
                _os.rename(b + '.keep', b)
                if f.returncode != 0:
                    return self.fail(case, raw, 'fresh_configure_succeeds', step=k, stderr=f.stderr[-400:])
                if k < raw.get('compare_from', 0):
                    continue
                for n in BUILD_FILES:
                    if n == 'Makefile' and got[n] is not None and fresh[n] is not None:
                        # the members of a `dist` archive command are listed in registration order; after a cached
                        # regeneration the extra= files are registered behind the found ones (same archive, another
                        # text): that order difference is reported under a clause of its own (a known finding), every
                        # other difference under the main clause
                        if got[n] != fresh[n] and _sort_dist_members(got[n]) == _sort_dist_members(fresh[n]) and order_only is None:
                            # (remembered, reported at the end if nothing else differs: a difference in anything but
                            # this order is a finding of its own and must not be hidden behind it)
                            order_only = self.fail(case, raw, 'dist_members_listed_in_the_order_of_a_fresh_configure', step=k, edit=e,
                                                   file=n, have=[l for l in got[n].split('\n') if '-ipN -f ' in l][:1],
                                                   fresh=[l for l in fresh[n].split('\n') if '-ipN -f ' in l][:1])
                        got[n], fresh[n] = (_sort_dist_members(x) for x in (got[n], fresh[n]))
                    if n == '.bfg_find_deps' and got[n] is not None and fresh[n] is not None:
                        # the watched directories are written in set-iteration order (varies with the hash seed
                        # even between two fresh configures: that is C13, not this property): compare as sets
                        got[n], fresh[n] = (' '.join(sorted(x.split())) for x in (got[n], fresh[n]))
                    if n == '.bfg_find_deps' and fresh[n] is None and '.bfg_find_deps' not in (got['Makefile'] or ''):
                        # a depfile left over from an earlier configuration that no build file reads any more is not
                        # a build file (a fresh configure into an empty directory simply has none)
                        continue
                    if got[n] != fresh[n]:
                        return self.fail(case, raw, 'regenerated_build_files_equal_a_fresh_configure', step=k, edit=e,
                                         file=n, regenerated_ran=n1 - n0, have=(got[n] or '')[-300:],
                                         fresh=(fresh[n] or '')[-300:])
                m2 = run(['make', '-C', b, 'all'])
                if m2.returncode != 0 or len(calls()) != n1:
                    return self.fail(case, raw, 'second_run_regenerates_nothing', step=k, edit=e,
                                     extra_regenerations=len(calls()) - n1, output=(m2.stdout + m2.stderr)[-300:])
            return order_only if order_only is not None else True
        finally:
            shutil.rmtree(top, ignore_errors=True)


class FindDepfile(Bounded):
    """find.write_depfile (Make flavour) read by the real GNU make: with the file included, the output is remade
    exactly when one of the searched directories is newer, and a searched directory that has been deleted does not
    stop make (the empty rule written for it must name that very directory)."""
    target = 'bfg9000/builtins/find.py::write_depfile'
    properties = ('C04', 'C08')
    reason = 'file output inside a with-block, read back by an external make process: runtime contract only'
    native_chunk = 4
    alphabet = "a %#:|$'"

    def native_inputs(self, case, alphabet, maxlen, rng, extra=0):
        from contracts.bounded_cmd import arg_strings
        for n in arg_strings(self.alphabet, 2):
            if not n or n.endswith(' ') or n.startswith('~') or n.startswith('-'):
                continue
            yield {'dir': n}

    def native_check(self, case, raw):
        import shutil, subprocess, tempfile
        from bfg9000.path import Path, Root
        try:
            d = Path(raw['dir'] + '/', Root.srcdir)
        except ValueError:
            return None
        if d.root != Root.srcdir or d.suffix != raw['dir']:
            return None                   # normalised to something else (`.`, drive-like prefix ...)
        top = tempfile.mkdtemp(prefix='pyvc_depf_')
        try:
            src, b = top + '/src', top + '/b'
            _os.makedirs(src + '/' + raw['dir'])
            _os.makedirs(src + '/plain')
            _os.makedirs(b)

            class Env:
                base_dirs = {Root.srcdir: Path(src, Root.absolute), Root.builddir: Path(b, Root.absolute)}
            F.write_depfile(Env, Path('deps.mk'), Path('out.stamp'), [d, Path('plain/', Root.srcdir)], makeify=True)
            _write(b + '/Makefile', 'out.stamp: ; @echo REGEN; touch out.stamp\ninclude deps.mk\n')
            env = dict(_os.environ)
            env.pop('MAKEFLAGS', None)

            def make():
                r = subprocess.run(['make', '-C', b, '--no-print-directory', 'out.stamp'], env=env,
                                   capture_output=True, text=True, timeout=30)
                return r.returncode, r.stdout + r.stderr
            old, new = 1600000000, 1600001000
            _write(b + '/out.stamp', '')
            for f in (src + '/' + raw['dir'], src + '/plain'):
                _os.utime(f, (old, old))
            _os.utime(b + '/out.stamp', (new, new))
            text = open(b + '/deps.mk').read()
            rc, out = make()
            if rc != 0 or 'REGEN' in out:
                return self.fail(case, raw, 'not_remade_when_no_searched_directory_changed', depfile=text, make=out[-300:])
            _os.utime(src + '/' + raw['dir'], (new + 50, new + 50))
            rc, out = make()
            if rc != 0 or 'REGEN' not in out:
                return self.fail(case, raw, 'remade_when_the_searched_directory_changed', depfile=text, make=out[-300:])
            _os.utime(b + '/out.stamp', (new + 100, new + 100))
            shutil.rmtree(src + '/' + raw['dir'].split('/')[0])
            rc, out = make()
            if rc != 0:
                return self.fail(case, raw, 'deleted_searched_directory_does_not_stop_make', depfile=text, make=out[-300:])
            return True
        finally:
            shutil.rmtree(top, ignore_errors=True)


def registry():
    from contracts import glob as G, paths as P
    return [FindCacheJson(), RegenHistory(), FindDepfile()] + [c for c in G.registry() + P.registry() if 'C08' in c.properties]
