"""C08: serialisation inverses used by regeneration (find cache), and the pruned walk (shared with C11)."""
import itertools as _it
import json as _json
from contracts.bounded_cmd import Bounded

import bfg9000.builtins.find as F
import bfg9000.builtins.regenerate as R
from bfg9000.glob import PathGlob, NameGlob
from bfg9000.path import Path, Root


def rt(x):
    return _json.loads(_json.dumps(x))


class FindCacheJson(Bounded):
    """to_json / from_json of everything the persisted find cache is made of is the identity, including the
    file-vs-directory flag of every path; a cache file with a newer format version is refused."""
    target = 'bfg9000/builtins/find.py::FindCache.from_json'
    properties = ('C08',)
    reason = 'JSON surgery over nested containers of library-built objects (compiled regexes): runtime contract only'
    PATTERNS = ['*.c', 'src/**/*.h', 'a/*/', '**/', 'x y/*.[ch]', 'inc/**/d?/']
    NAMES = ['*.bak', 'build/', '.*', 'x y']
    PATHS = [('a/b.c', False), ('a/', True), ('x y/z', False), ('.', True), ('d/e/', True)]

    def cases(self):
        return ['glob', 'filter', 'cache', 'file']

    def native_inputs(self, case, alphabet, maxlen, rng, extra=0):
        if case == 'glob':
            for p in self.PATTERNS:
                for t in (None, 'f', 'd', '*'):
                    yield {'pattern': p, 'type': t}
            for n in self.NAMES:
                for t in (None, 'f', 'd', '*'):
                    yield {'name': n, 'type': t}
        elif case == 'filter':
            for inc in _it.chain(([p] for p in self.PATTERNS), _it.combinations(self.PATTERNS[:4], 2)):
                for ex in (None, ['*.bak'], ['build/', '.*']):
                    for xt in (None, ['*.h']):
                        yield {'include': list(inc), 'exclude': ex, 'extra': xt}
        elif case == 'cache':
            for k in range(0, len(self.PATHS) + 1):
                for found in _it.combinations(range(len(self.PATHS)), k):
                    yield {'found': list(found), 'extra': [i for i in range(len(self.PATHS)) if i not in found][:2]}
        else:
            for v in (1, 2):
                yield {'version': v}

    def paths(self, idx):
        return [Path(s, Root.srcdir, directory=d) for s, d in (self.PATHS[i] for i in idx)]

    def native_check(self, case, raw):
        if case == 'glob':
            if 'pattern' in raw:
                try:
                    g = PathGlob(raw['pattern'], raw['type'])
                except ValueError:
                    return None
                g2 = PathGlob.from_json(rt(g.to_json()))
                probes = [Path(s, Root.srcdir, directory=d) for s, d in self.PATHS] + [Path('src/q/r.h', Root.srcdir)]
                same = g2 == g and hash(g2) == hash(g) and all(g.match(p) == g2.match(p) for p in probes)
            else:
                try:
                    g = NameGlob(raw['name'], raw['type'])
                except ValueError:
                    return None
                g2 = NameGlob.from_json(rt(g.to_json()))
                probes = [Path(s, Root.srcdir, directory=d) for s, d in self.PATHS]
                same = g2 == g and hash(g2) == hash(g) and all(g.match(p) == g2.match(p) for p in probes)
            if not same:
                return self.fail(case, raw, 'glob_json_round_trip')
            return True
        if case == 'filter':
            f = F.FileFilter(raw['include'], None, raw['extra'], raw['exclude'])
            f2 = F.FileFilter.from_json(rt(f.to_json()), {})
            if not (f2 == f and hash(f2) == hash(f)):
                return self.fail(case, raw, 'filter_json_round_trip')
            return True
        if case == 'cache':
            c = F.FindCache()
            flt = F.FileFilter(['*.c'])
            found, extra = self.paths(raw['found']), self.paths(raw['extra'])
            c.add(flt, found, extra)
            c2 = F.FindCache.from_json(rt(c.to_json()), {})
            e = c2[flt]
            ok = (list(e.found) == found and list(e.extra) == extra and
                  [p.directory for p in e.found] == [p.directory for p in found] and
                  [p.directory for p in e.extra] == [p.directory for p in extra])
            if not ok:
                return self.fail(case, raw, 'cache_json_round_trip_keeps_kinds')
            return True
        import os, tempfile
        with tempfile.TemporaryDirectory() as tmp:
            c = F.FindCache()
            c.add(F.FileFilter(['*.c']), self.paths([0]), [])
            regen = R.RegenerateFiles([Path('build.bfg', Root.srcdir)], [Path('build.ninja')])
            F.FindCacheFile(regen, c).save(tmp)
            fn = os.path.join(tmp, F.FindCacheFile.cachefile)
            st = _json.load(open(fn))
            st['version'] = raw['version']
            _json.dump(st, open(fn, 'w'))
            try:
                r2, c2 = F.FindCacheFile.load(tmp, {})
                loaded = True
            except F.CacheVersionError:
                loaded = False
            if loaded != (raw['version'] <= F.FindCacheFile.version):
                return self.fail(case, raw, 'newer_cache_version_refused', loaded=loaded)
            if loaded and (list(r2.inputs) != list(regen.inputs) or list(r2.outputs) != list(regen.outputs)):
                return self.fail(case, raw, 'regenerate_files_round_trip')
        return True


def registry():
    from contracts import glob as G, paths as P
    return [FindCacheJson()] + [c for c in G.registry() + P.registry() if 'C08' in c.properties]
