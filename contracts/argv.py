"""C01 / C02 (bounded, real tools): the argument strings and environment values that processes started from the generated
build file actually receive.

End-to-end companion of the deductive kernels (quoting, escaping, word lists): a generated project whose script states
exact argument strings -- global and per-target options, a build step with special characters and an environment, a
test driver with a child test -- is configured by the tree under test; every program in it is a spy that records its
argv (and selected environment variables) before doing its job.  The Make side is run by the real GNU make; the Ninja
side is evaluated by specs/ninja_eval.py (top-level bindings are evaluated eagerly and in order, rule bindings in the
scope of the build statement) and each command line is run by /bin/sh in dependency order."""
import os
import shlex
from contracts.bounded_cmd import Bounded

STEP_ARGS = ['out.txt', 'a b', '$HOME', 'x$y', "q'r", 'semi;colon', '', 'back\\slash', '*', '#h']
STEP_ENV = {'K': 'v w', 'D': '$x', 'E': ''}        # E: set, but empty (the parent environment has another value)
CHILD_ARGS = ['a$b', 'c d', "e'f"]
BUILD_BFG = """
project('n')
global_options(['-DG=1', '-DGS="g h"', opts.include_dir(header_directory('inc'))], lang='c')
global_link_options(['-Wl,--as-needed'])
lib = static_library('foo', files=['a.c', 'sub dir/my src&co.c'])
plain = executable('plain', files=['main.c'])
withlib = executable('withlib', files=['main2.c'], libs=[lib], compile_options=['-DT=$5'], link_options=['-Wl,-O1'])
out = build_step('out.txt', cmd=[executable('spy.sh')] + %(step)r, environment=%(env)r)
drv = test_driver([executable('driver.sh'), '--opt'])
test([executable('child.sh')] + %(child)r, driver=drv)
test([executable('single.sh')], driver=drv)
test(env.srcdir.append('stringy.sh').string() + ' "c 2" x', driver=drv)
pre = precompiled_header(file='pre.h')
obj3 = object_file(file='main3.c', pch=pre, options=['-DONLY_OBJ=1'])
third = executable('third', files=[obj3])
default(plain, withlib, out, third)
""" % {'step': STEP_ARGS, 'env': STEP_ENV, 'child': CHILD_ARGS}
SPY = """#!/bin/sh
{ printf '%%s\\0' "%(name)s" "$@"; printf '\\036'; printf 'K=%%s\\0D=%%s\\0E=%%s\\0' "${K-UNSET}" "${D-UNSET}" "${E-UNSET}"; printf '\\035'; } >> "%(log)s"
%(then)s
"""


class ProcessArguments(Bounded):
    """A generated project configured for Make (run by the real make) and for Ninja (evaluated by the manifest rules,
    run by /bin/sh): the build step receives exactly the script's argument strings and environment values; every C
    compile receives each global option once and its per-target options once; every link receives each global link
    option once, its own link options once and its libraries; the test driver receives its own option and one argument
    per child test that reads back, by sh rules, as the child's command line."""
    target = 'bfg9000/builtins/link.py::_get_flags'
    properties = ('C01', 'C02')
    reason = 'whole pipeline from the builtins through the writer to make / sh: runtime contract with the real tools'
    native_chunk = 1

    def cases(self):
        return ['make', 'ninja']

    def native_inputs(self, case, alphabet, maxlen, rng, extra=0):
        backend = {'C01': ['make'], 'C02': ['ninja']}.get(getattr(self, 'active_property', None), ['make', 'ninja'])
        if case in backend:
            yield {'backend': case}

    def native_check(self, case, raw):
        import shutil, subprocess, tempfile
        from pyvc.interp import REPO
        from specs.ninja_eval import NinjaFile
        top = tempfile.mkdtemp(prefix='pyvc_argv_')
        try:
            src, b, log = top + '/src', top + '/b', top + '/spy.log'

            def w(fp, text, mode=None):
                os.makedirs(os.path.dirname(fp), exist_ok=True)
                with open(fp, 'w') as f:
                    f.write(text)
                if mode:
                    os.chmod(fp, mode)
            w(src + '/build.bfg', BUILD_BFG)
            w(src + '/a.c', 'int a(void) { return 0; }\n')
            w(src + '/sub dir/my src&co.c', 'int b(void) { return 0; }\n')
            w(src + '/main.c', 'int main(void) { return 0; }\n')
            w(src + '/main2.c', 'int a(void);\nint main(void) { return a(); }\n')
            w(src + '/main3.c', 'int main(void) { return PRE - 3; }\n')
            w(src + '/pre.h', '#define PRE 3\n')
            w(src + '/inc/found.h', '')
            w(src + '/spy.sh', SPY % {'name': 'spy.sh', 'log': log, 'then': 'touch "$1"'}, 0o755)
            for n in ('driver.sh', 'child.sh', 'single.sh', 'stringy.sh'):
                w(src + '/' + n, SPY % {'name': n, 'log': log, 'then': 'exit 0'}, 0o755)
            w(top + '/bin/spycc', SPY % {'name': 'cc', 'log': log, 'then': 'exec cc "$@"'}, 0o755)
            for name, mod in (('bfg9000', 'bfg9000.driver'), ('bfg9000-depfixer', 'bfg9000.depfixer')):
                lp = top + '/bin/' + name
                w(lp, "#!/bin/sh\nPYTHONPATH=%s exec /venv/bin/python -c 'import sys; sys.argv[0] = \"%s\"; "
                      "from %s import main; sys.exit(main())' \"$@\"\n" % (REPO, lp, mod), 0o755)
            w(top + '/bin/ninja', '#!/bin/sh\necho 1.10.1\n', 0o755)
            env = dict(os.environ, PATH=top + '/bin:/venv/bin:' + os.environ['PATH'], CC=top + '/bin/spycc', HOME='/home/spy', E='inherited-from-parent')
            for k in ('MAKEFLAGS', 'CFLAGS', 'CPPFLAGS', 'LDFLAGS', 'LDLIBS', 'K', 'D'):
                env.pop(k, None)

            def run(cmd, **kw):
                return subprocess.run(cmd, env=env, capture_output=True, text=True, timeout=300, **kw)
            r = run([top + '/bin/bfg9000', 'configure-into', src, b, '--backend=' + case, '--no-resolve-packages'])
            if r.returncode != 0:
                return self.fail(case, raw, 'configure_succeeds', stderr=r.stderr[-500:])
            open(log, 'w').close()          # forget what configuration itself ran (compiler detection)
            if case == 'make':
                for goal in ('all', 'test'):
                    m = run(['make', '-C', b, goal])
                    if m.returncode != 0:
                        return self.fail(case, raw, 'build_succeeds', goal=goal, output=(m.stdout + m.stderr)[-600:])
            else:
                nf = NinjaFile(open(b + '/build.ninja').read())
                producer = {o: bld for bld in nf.builds for o in bld.outputs}
                done = set()

                def build(target, depth=0):
                    bld = producer.get(target)
                    if bld is None or id(bld) in done or depth > 50:
                        return None
                    done.add(id(bld))
                    if bld.rule == 'regenerate':
                        return None
                    for d in bld.inputs + bld.implicit + bld.order_only:
                        res = build(d, depth + 1)
                        if res is not None:
                            return res
                    cmd = nf.command(bld)
                    if not cmd:
                        return None
                    for o in bld.outputs:
                        os.makedirs(os.path.dirname(os.path.join(b, o)) or b, exist_ok=True)
                    p = subprocess.run(['/bin/sh', '-c', cmd], cwd=b, env=env, capture_output=True, text=True, timeout=300)
                    if p.returncode != 0:
                        return self.fail(case, raw, 'build_succeeds', goal=target, command=cmd,
                                         output=(p.stdout + p.stderr)[-600:])
                    return None
                for goal in ('all', 'test'):
                    res = build(goal)
                    if res is not None:
                        return res
            # ---- what the processes received -------------------------------------------------------------------
            recs = []
            for chunk in open(log, 'rb').read().decode('utf-8', 'replace').split('\x1d'):
                if not chunk:
                    continue
                argv, envs = chunk.split('\x1e')
                argv = argv.split('\0')[:-1]
                recs.append((argv[0], argv[1:], dict(e.split('=', 1) for e in envs.split('\0') if e)))
            step = [r_ for r_ in recs if r_[0] == 'spy.sh']
            if len(step) != 1 or step[0][1] != STEP_ARGS:
                return self.fail(case, raw, 'build_step_receives_exactly_its_arguments', got=[r_[1] for r_ in step], expected=STEP_ARGS)
            if step[0][2] != STEP_ENV:
                return self.fail(case, raw, 'build_step_receives_exactly_its_environment', got=step[0][2], expected=STEP_ENV)
            cc = [r_[1] for r_ in recs if r_[0] == 'cc']
            compiles = [a for a in cc if '-c' in a]
            links = [a for a in cc if '-c' not in a]
            if len(compiles) != 6 or len(links) != 3:
                return self.fail(case, raw, 'every_step_runs_once', compiles=compiles, links=links)
            sources = sorted(x for a in compiles for x in a if x.endswith('.c') and not x.startswith('-'))
            want_sources = sorted(src + '/' + f for f in ('a.c', 'main.c', 'main2.c', 'main3.c', 'sub dir/my src&co.c'))
            if sources != want_sources:
                return self.fail(case, raw, 'compile_receives_its_source_as_one_argument', got=sources, expected=want_sources)
            for a in compiles:
                per_target = ['-DT=$5'] if any(x.endswith('main2.c') for x in a) else []
                per_target += ['-DONLY_OBJ=1'] if any(x.endswith('main3.c') for x in a) else []
                # (the precompiled header is a step of its own: the options of the object that uses it are not its options)
                if 'c-header' in a and any(x.startswith('-DONLY_OBJ') for x in a):
                    return self.fail(case, raw, 'compile_receives_only_its_own_options', argv=a)
                for opt in ['-DG=1', '-DGS="g h"', '-I' + src + '/inc'] + per_target:
                    if a.count(opt) != 1:
                        return self.fail(case, raw, 'compile_receives_each_option_once', option=opt, argv=a)
                if not per_target and any(x.startswith('-DT') for x in a):
                    return self.fail(case, raw, 'compile_receives_only_its_own_options', argv=a)
            for a in links:
                own = '-Wl,-O1' in a or any(x.endswith('libfoo.a') or x == '-lfoo' for x in a)
                is_withlib = 'withlib' in a[a.index('-o') + 1] if '-o' in a else False
                want = {'-Wl,--as-needed': 1, '-Wl,-O1': 1 if is_withlib else 0}
                for opt, n in want.items():
                    if a.count(opt) != n:
                        return self.fail(case, raw, 'link_receives_each_option_once', option=opt, expected_count=n, argv=a)
                libs = [x for x in a if x.endswith('libfoo.a') or x == '-lfoo']
                if len(libs) != (1 if is_withlib else 0) or (own and not is_withlib):
                    return self.fail(case, raw, 'link_receives_its_libraries', argv=a)
            drv = [r_ for r_ in recs if r_[0] == 'driver.sh']
            if len(drv) != 1 or len(drv[0][1]) != 4 or drv[0][1][0] != '--opt':
                return self.fail(case, raw, 'driver_receives_one_argument_per_child', got=[r_[1] for r_ in drv])
            try:
                child = shlex.split(drv[0][1][1])
                single = shlex.split(drv[0][1][2])
                stringy = shlex.split(drv[0][1][3])
            except ValueError as e:
                return self.fail(case, raw, 'child_command_line_reads_back', got=drv[0][1], error=str(e))
            want_children = [[src + '/child.sh'] + CHILD_ARGS, [src + '/single.sh'], [src + '/stringy.sh', 'c 2', 'x']]
            if [child, single, stringy] != want_children:
                return self.fail(case, raw, 'child_command_line_reads_back', got=[child, single, stringy], expected=want_children)
            return True
        finally:
            shutil.rmtree(top, ignore_errors=True)


class InstallArguments(Bounded):
    """The install commands of a generated project configured with a staging directory (DESTDIR) and a prefix that
    contain blanks and a `;`: for Make (`make -n install`, after a build) and for Ninja (the `install` statement
    evaluated by the manifest rules), every destination operand is exactly <DESTDIR><prefix>/<kind>/<name>, one word."""
    target = 'bfg9000/builtins/install.py::_add_install_paths'
    properties = ('C01', 'C02')
    reason = 'whole pipeline to the command line of the install tool: runtime contract, command lines read by the sh word spec'
    native_chunk = 1

    def cases(self):
        return ['make', 'ninja']

    def native_inputs(self, case, alphabet, maxlen, rng, extra=0):
        backend = {'C01': ['make'], 'C02': ['ninja']}.get(getattr(self, 'active_property', None), ['make', 'ninja'])
        if case in backend:
            for dd in ('st age;x', 'plain', ''):
                yield {'backend': case, 'destdir': dd}

    def native_check(self, case, raw):
        import shutil, subprocess, tempfile
        from pyvc.interp import REPO
        from specs.ninja_eval import NinjaFile
        from contracts.crossbackend import argv_of, split_and
        top = tempfile.mkdtemp(prefix='pyvc_inst_argv_')
        try:
            src, b = top + '/src', top + '/b'
            destdir = (top + '/' + raw['destdir']) if raw['destdir'] else ''
            prefix = '/opt/pre fix'

            def w(fp, text, mode=None):
                os.makedirs(os.path.dirname(fp), exist_ok=True)
                with open(fp, 'w') as f:
                    f.write(text)
                if mode:
                    os.chmod(fp, mode)
            w(src + '/build.bfg', "project('i')\nexe = executable('prog', files=['main.c'])\nhdr = header_file('api.h')\ninstall(exe, hdr)\n")
            w(src + '/main.c', 'int main(void) { return 0; }\n')
            w(src + '/api.h', '')
            for name, mod in (('bfg9000', 'bfg9000.driver'), ('bfg9000-depfixer', 'bfg9000.depfixer')):
                lp = top + '/bin/' + name
                w(lp, "#!/bin/sh\nPYTHONPATH=%s exec /venv/bin/python -c 'import sys; sys.argv[0] = \"%s\"; "
                      "from %s import main; sys.exit(main())' \"$@\"\n" % (REPO, lp, mod), 0o755)
            w(top + '/bin/ninja', '#!/bin/sh\necho 1.10.1\n', 0o755)
            env = dict(os.environ, PATH=top + '/bin:/venv/bin:' + os.environ['PATH'])
            env.pop('MAKEFLAGS', None)
            env.pop('DESTDIR', None)
            if destdir:
                env['DESTDIR'] = destdir
            r = subprocess.run([top + '/bin/bfg9000', 'configure-into', src, b, '--backend=' + case, '--no-resolve-packages',
                                '--prefix=' + prefix], env=env, capture_output=True, text=True, timeout=120)
            if r.returncode != 0:
                return self.fail(case, raw, 'configure_succeeds', stderr=r.stderr[-400:])
            env.pop('DESTDIR', None)        # the staging directory is the configured one, not an ambient one
            if case == 'make':
                m = subprocess.run(['make', '-C', b], env=env, capture_output=True, text=True, timeout=300)
                m = subprocess.run(['make', '-C', b, '--no-print-directory', '-n', 'install'], env=env, capture_output=True, text=True, timeout=60)
                if m.returncode != 0:
                    return self.fail(case, raw, 'install_commands_can_be_listed', output=(m.stdout + m.stderr)[-400:])
                lines = [l for l in m.stdout.splitlines() if l.strip()]
            else:
                nf = NinjaFile(open(b + '/build.ninja').read())
                inst = [x for x in nf.builds if 'install' in x.outputs]
                if len(inst) != 1:
                    return self.fail(case, raw, 'install_commands_can_be_listed', statements=len(inst))
                lines = [nf.command(inst[0])]
            words = [a.replace('\uff04', '$') for l in lines for c in split_and(l) for a in argv_of(c)]
            for dest in (destdir + prefix + '/bin/prog', destdir + prefix + '/include/api.h'):
                if words.count(dest) != 1:
                    return self.fail(case, raw, 'destination_is_destdir_plus_configured_directory_as_one_word', expected=dest,
                                     words=[x for x in words if 'prog' in x or 'api.h' in x or 'opt' in x][:12])
            return True
        finally:
            shutil.rmtree(top, ignore_errors=True)


class TestsRunApart(Bounded):
    """Two tests, the first given as a command *string* that changes the working directory and exports a variable
    before it runs its program: under both backends the second test is started from the build directory without that
    variable (a test is a command of its own, not the continuation of the previous one)."""
    target = 'bfg9000/builtins/tests.py::ninja_test_rule'
    properties = ('C06',)
    reason = 'what the second process sees depends on the shell that runs the generated text: runtime contract with the real sh / make'
    native_chunk = 1

    def cases(self):
        return ['make', 'ninja']

    def native_inputs(self, case, alphabet, maxlen, rng, extra=0):
        yield {'backend': case}

    def native_check(self, case, raw):
        import shutil, subprocess, tempfile
        from pyvc.interp import REPO
        from specs.ninja_eval import NinjaFile
        top = tempfile.mkdtemp(prefix='pyvc_tests_')
        try:
            src, b, log = top + '/src', top + '/b', top + '/spy.log'

            def w(fp, text, mode=None):
                os.makedirs(os.path.dirname(fp), exist_ok=True)
                with open(fp, 'w') as f:
                    f.write(text)
                if mode:
                    os.chmod(fp, mode)
            w(src + '/build.bfg', "project('t')\ntest('cd sub && K=leak && export K && ' + env.srcdir.append('first.sh').string())\n"
                                  "test([executable('second.sh')])\n")
            spy = SPY.replace('"%(name)s" "$@"', '"%(name)s" "$PWD"')
            for n in ('first.sh', 'second.sh'):
                w(src + '/' + n, spy % {'name': n, 'log': log, 'then': 'exit 0'}, 0o755)
            lp = top + '/bin/bfg9000'
            w(lp, "#!/bin/sh\nPYTHONPATH=%s exec /venv/bin/python -c 'import sys; sys.argv[0] = \"%s\"; "
                  "from bfg9000.driver import main; sys.exit(main())' \"$@\"\n" % (REPO, lp), 0o755)
            w(top + '/bin/ninja', '#!/bin/sh\necho 1.10.1\n', 0o755)
            env = dict(os.environ, PATH=top + '/bin:/venv/bin:' + os.environ['PATH'])
            for k in ('MAKEFLAGS', 'K', 'D', 'E'):
                env.pop(k, None)
            r = subprocess.run([lp, 'configure-into', src, b, '--backend=' + case, '--no-resolve-packages'], env=env,
                               capture_output=True, text=True, timeout=120)
            if r.returncode != 0:
                return self.fail(case, raw, 'configure_succeeds', stderr=r.stderr[-400:])
            os.makedirs(b + '/sub')
            if case == 'make':
                m = subprocess.run(['make', '-C', b, 'test'], env=env, capture_output=True, text=True, timeout=120)
                ok, out = m.returncode == 0, m.stdout + m.stderr
            else:
                nf = NinjaFile(open(b + '/build.ninja').read())
                bld = [x for x in nf.builds if 'test' in x.outputs][0]
                p = subprocess.run(['/bin/sh', '-c', nf.command(bld)], cwd=b, env=env, capture_output=True, text=True, timeout=120)
                ok, out = p.returncode == 0, p.stdout + p.stderr
            if not ok:
                return self.fail(case, raw, 'tests_run', output=out[-400:])
            recs = {}
            for chunk in open(log, 'rb').read().decode('utf-8', 'replace').split('\x1d'):
                if chunk:
                    argv, envs = chunk.split('\x1e')
                    argv = argv.split('\0')[:-1]
                    recs[argv[0]] = (argv[1], dict(e.split('=', 1) for e in envs.split('\0') if e))
            if sorted(recs) != ['first.sh', 'second.sh'] or recs['first.sh'] != (os.path.realpath(b) + '/sub', dict(recs['first.sh'][1], K='leak')):
                return self.fail(case, raw, 'first_test_runs_as_written', got={k: list(v) for k, v in recs.items()})
            cwd, ev = recs['second.sh']
            if os.path.realpath(cwd) != os.path.realpath(b) or ev.get('K') != 'UNSET':
                return self.fail(case, raw, 'second_test_starts_from_the_build_directory_with_its_own_environment',
                                 working_directory=cwd, K=ev.get('K'), build_directory=b)
            return True
        finally:
            shutil.rmtree(top, ignore_errors=True)


def registry():
    return [ProcessArguments(), InstallArguments(), TestsRunApart()]
