"""C13: the primary build files as a function of project and configuration only (bounded, real driver).

A two-run hyperproperty of the whole pipeline: no single-call contract can state it.  The stand-in configures one
generated project (most builtins: find_files, header directories, static/shared libraries, executables, tests with an
environment, install, pkg-config, alias, extra_dist, global and per-target options) several times with different hash
seeds, unrelated environment variables, invocation directories and relative/absolute spellings of the directories,
and compares the files."""
import os
from contracts.bounded_cmd import Bounded

BUILD_BFG = """
project('p', version='1.0')
global_options([opts.define('G', '1'), opts.pic()], lang='c')
srcs = find_files('lib/*.c')
hdrs = find_files('include/**/*.h')
inc = header_directory('include', include='**/*.h')
a = static_library('a', files=srcs, includes=[inc])
s = shared_library('sub/s', files=['s.c'], includes=[inc], libs=[a])
s2 = shared_library('other/s2', files=['s2.c'])
s3 = shared_library('s3', files=['s3.c'])
e1 = executable('e1', files=['main.c'], libs=[s, s2, s3, a], compile_options=[opts.define('X', '2')])
e2 = executable('bin/e2', files=['main.c'], libs=[a])
test(e1)
test(e2, environment={'A': '1', 'B': '2', 'C': '3'})
install(e1, e2, inc)
pkg_config('p', version='1.0', includes=[inc], libs=[s, a], conflicts=[('foo', '>=1,<2,!=1.5,!=1.7'), ('bar', '>=1.0,!=1.0'),
                                                                   ('baz', '<=2.0,!=2.0,>=2.0a1'),
                                                                   ('qux', '>1.0'), ('qux', '>=1.0'), ('quux', '<3.0'), ('quux', '<=3.0')])
multi = build_step(['gen/alpha/a.txt', 'gen/beta/b.txt', 'gen/gamma/c.txt', 'gen/delta/d.txt'],
                   cmd=['touch', 'gen/alpha/a.txt', 'gen/beta/b.txt', 'gen/gamma/c.txt', 'gen/delta/d.txt'])
pre = [shared_library('prebuilt/%s/lib%s.so' % (d, d)) for d in ('one', 'two', 'three', 'four')]
e3 = executable('e3', files=['main.c'], libs=pre)
pk = [pkg_config(n, version='1.0', libs=[l]) for n, l in (('pd', s2), ('pb', s3), ('pc', s), ('pa', a))]
e4 = executable('e4', files=['main.c'], packages=pk)
alias('everything', [e1, e2])
extra_dist(files=['README'])
"""
CONTEXTS = {
    # name: (hash seed, where bfg9000 is invoked from, spelling of srcdir, spelling of builddir)
    'reference': ('0', '{top}', '{src}', 'b'),
    'other-seed-from-root': ('1', '/', '{src}', '{top}/b'),
    'from-srcdir-relative': ('12345', '{src}', '.', '../b'),
    'seed-77': ('77', '{top}', 'src', 'b'),
    'seed-4242-absolute': ('4242', '{top}', '{src}', '{top}/b'),
    'seed-2': ('2', '{top}', 'src', 'b'), 'seed-3': ('3', '{top}', 'src', 'b'), 'seed-5': ('5', '{top}', 'src', 'b'),
    'seed-8': ('8', '{top}', 'src', 'b'), 'seed-13': ('13', '{top}', 'src', 'b'),
}
PRIMARY_SUFFIXES = ('Makefile', 'compile_commands.json', '.pc', 'build.ninja')


class Determinism(Bounded):
    target = 'bfg9000/driver.py::configure'
    properties = ('C13',)
    reason = 'two-run hyperproperty of the whole pipeline: runtime contract only'
    native_chunk = 1
    __doc__ = ("Configuring the same generated project under a different hash seed, unrelated environment, invocation "
               "directory and directory spelling gives byte-identical primary build files (Makefile, "
               "compile_commands.json, .pc) and auxiliary files that are equal as sets of entries.")

    def cases(self):
        return ['make', 'ninja']

    def native_inputs(self, case, alphabet, maxlen, rng, extra=0):
        for k in CONTEXTS:
            if k != 'reference':
                yield {'context': k}
        # the same saved configuration (package file, individually set absolute directories), regenerated under
        # another hash seed: the build files are those of the configure run
        for seed in ('1', '7'):
            yield {'context': 'reference', 'regenerate_with_seed': seed}

    def configure(self, top, src, backend, ctx, packages=False, regenerate_seed=None):
        import shutil, subprocess
        from pyvc.interp import REPO
        seed, cwd, s_arg, b_arg = (x.format(top=top, src=src) for x in CONTEXTS[ctx])
        b = top + '/b'
        env = dict(os.environ, PATH=top + '/bin:/venv/bin:' + os.environ['PATH'], PYTHONHASHSEED=seed,
                   PYVC_UNRELATED='value-' + seed)
        for k in ('MAKEFLAGS', 'MOPACK_NESTED_INVOCATION'):
            env.pop(k, None)
        if regenerate_seed is None:
            shutil.rmtree(b, ignore_errors=True)
            more = ['-p', src + '/mopack.yml', '--bindir=/opt/demo/bin', '--libdir=/opt/demo/lib',
                    '--includedir=/opt/demo/inc'] if packages else ['--no-resolve-packages']
            r = subprocess.run([top + '/bin/bfg9000', 'configure-into', s_arg, b_arg, '--backend=' + backend] + more,
                               cwd=cwd, env=env, capture_output=True, text=True, timeout=120)
        else:
            env['PYTHONHASHSEED'] = regenerate_seed
            r = subprocess.run([top + '/bin/bfg9000', 'regenerate', b], cwd=cwd, env=env, capture_output=True, text=True,
                               timeout=120)
        if r.returncode != 0:
            return None, r.stderr[-400:]
        snap = {}
        for dp, dn, fn in os.walk(b):
            for f in fn:
                with open(os.path.join(dp, f), errors='replace') as fh:
                    snap[os.path.relpath(os.path.join(dp, f), b)] = fh.read()
        return snap, None

    def native_check(self, case, raw):
        import shutil, tempfile
        from pyvc.interp import REPO
        top = tempfile.mkdtemp(prefix='pyvc_det_')
        try:
            src = top + '/src'

            def w(rel, text):
                fp = src + '/' + rel
                os.makedirs(os.path.dirname(fp), exist_ok=True)
                with open(fp, 'w') as f:
                    f.write(text)
            w('build.bfg', BUILD_BFG)
            for i in range(6):
                w('lib/f%d.c' % i, 'int f%d(void) { return %d; }\n' % (i, i))
                w('include/d%d/h%d.h' % (i, i), '')
            w('s.c', 'int s(void) { return 0; }\n')
            w('s2.c', 'int s2(void) { return 0; }\n')
            w('s3.c', 'int s3(void) { return 0; }\n')
            w('main.c', 'int main(void) { return 0; }\n')
            w('README', '')
            for d in ('one', 'two', 'three', 'four'):
                w('prebuilt/%s/lib%s.so' % (d, d), '')
            lp = top + '/bin/bfg9000'
            os.makedirs(top + '/bin')
            with open(lp, 'w') as f:
                f.write("#!/bin/sh\nPYTHONPATH=%s exec /venv/bin/python -c 'import sys; sys.argv[0] = \"%s\"; "
                        "from bfg9000.driver import main; sys.exit(main())' \"$@\"\n" % (REPO, lp))
            os.chmod(lp, 0o755)
            # no ninja binary exists in the sandbox: bfg9000 only asks it for its version before writing build.ninja
            with open(top + '/bin/ninja', 'w') as f:
                f.write('#!/bin/sh\necho 1.10.1\n')
            os.chmod(top + '/bin/ninja', 0o755)
            regen = raw.get('regenerate_with_seed')
            if regen:
                # no usable mopack in the sandbox: a stub that resolves nothing and lists the package file
                w('mopack.yml', 'packages: {}\n')
                with open(top + '/bin/mopack', 'w') as f:
                    f.write("#!/bin/sh\ncase \"$1\" in list-files) echo '[\"%s/mopack.yml\"]';; "
                            "resolve) mkdir -p \"$3/mopack\"; echo '{}' > \"$3/mopack/mopack.json\";; esac\nexit 0\n" % src)
                os.chmod(top + '/bin/mopack', 0o755)
            ref, err = self.configure(top, src, case, 'reference', packages=bool(regen))
            if ref is None:
                if case == 'ninja' and 'ninja' in (err or ''):
                    return None        # backend not available
                return self.fail(case, raw, 'configure_succeeds', stderr=err)
            if regen:
                got, err = self.configure(top, src, case, 'reference', packages=True, regenerate_seed=regen)
                got = {k: v for k, v in (got or {}).items() if k in ref or k.endswith(PRIMARY_SUFFIXES)} if got is not None else None
                ref = {k: v for k, v in ref.items() if k in got} if got is not None else ref
            else:
                got, err = self.configure(top, src, case, raw['context'])
            if got is None:
                return self.fail(case, raw, 'configure_succeeds', stderr=err)
            if sorted(ref) != sorted(got):
                return self.fail(case, raw, 'same_set_of_files', only_reference=sorted(set(ref) - set(got)),
                                 only_other=sorted(set(got) - set(ref)))
            for f in sorted(ref):
                if ref[f] == got[f]:
                    continue
                if f.endswith(PRIMARY_SUFFIXES):
                    import difflib
                    d = list(difflib.unified_diff(ref[f].splitlines(), got[f].splitlines(), lineterm='', n=0))
                    return self.fail(case, raw, 'primary_build_files_byte_identical', file=f, diff=d[:12])
                if f == '.bfg_environ':
                    continue            # the saved configuration records the environment itself
                if sorted(ref[f].split()) != sorted(got[f].split()):
                    return self.fail(case, raw, 'auxiliary_files_equal_as_sets_of_entries', file=f)
            return True
        finally:
            shutil.rmtree(top, ignore_errors=True)


def registry():
    return [Determinism()]
