"""C14: forwarded link requirements (order, closure, de-duplication) and relative rpaths."""
import ast
import itertools as _it
import z3
from pyvc import terms as T
from pyvc.contract import Contract, Args
from pyvc.values import Sym, Obj, PList, opaque_sort, fresh_sym
from pyvc import models as MD
from contracts.bounded_cmd import Bounded

import bfg9000.options as O

Opt = opaque_sort('Opt')
Opts = z3.SeqSort(Opt)
OPT_TY = ('opaque', 'Opt')
MATCHES = z3.Function('option_matches', Opt, Opt, T.Bool)       # option.matches(other)
ANYM = T.RecDef('ANYMATCH', [Opts, Opt], T.Bool, lambda os_, o: z3.BoolVal(False),
                lambda os_, o, k, prev: z3.Or(prev, MATCHES(o, os_[k])))


class OptionAppend(Contract):
    """option_list.append: a string is always appended; an option object is appended unless it `matches` an element
    already in the list (so the first occurrence is the one that is kept, and the list is otherwise unchanged)."""
    target = 'bfg9000/options.py::option_list.append'
    properties = ('C14',)
    expr_overrides = True

    def cases(self):
        return ['option', 'string']

    def params(self, cx, case):
        os_ = z3.Const('options', Opts)
        cx.ghost('old', os_)
        selfv = Obj(O.option_list, {'_options': PList(None, os_, OPT_TY)})
        if case == 'string':
            e0, e1 = Sym(z3.Const('o0', Opt), OPT_TY), Sym(z3.Const('o1', Opt), OPT_TY)
            cx.ghost('old_items', [e0, e1])
            return {'self': Obj(O.option_list, {'_options': PList([e0, e1])}), 'option': cx.str('option_string')}
        o = Obj(O.Option, {})
        o.term = z3.Const('option', Opt)
        return {'self': selfv, 'option': o}

    def expr_override(self, I, node, fr):
        if isinstance(node, ast.Call):
            try:
                src = ast.unparse(node)
            except Exception:       # noqa
                return NotImplemented
            if src == 'any((option.matches(i) for i in self._options))':
                # library contract of any() over a generator: exists an element of the list ...
                loc = fr.envs[0]
                lst = loc['self'].attrs['_options']
                e = MD.list_to_seq(I, lst, OPT_TY)
                return MD.mk_bool(ANYM(e, loc['option'].term, z3.Length(e)))
        return NotImplemented

    def ensures(self, a, r):
        new = a.self.attrs['_options']
        if isinstance(a.option, Obj):
            ne = MD.list_to_seq(None, new, OPT_TY)
            dup = ANYM(a.old, a.option.term, z3.Length(a.old))
            return {'appended_iff_no_match_else_unchanged':
                    z3.If(dup, ne == a.old, ne == z3.Concat(a.old, z3.Unit(a.option.term)))}
        # strings: the list (as a Python list) has grown by exactly that string; modelled lists are homogeneous, so
        # the check is structural: one append happened
        ok = (new.concrete and len(new.items) == 3 and new.items[0] is a.old_items[0] and new.items[1] is a.old_items[1]
              and new.items[2] is a.option)
        return {'string_always_appended': z3.BoolVal(ok)}


SS = z3.SeqSort(T.Str)
# the first k elements of a list of strings, one after the other
PRE = T.RecDef('FIRST_K', [SS], SS, lambda xs: z3.Empty(SS), lambda xs, k, prev: z3.Concat(prev, z3.Unit(xs[k])))


class OptionCollect(Contract):
    """option_list.collect: every string handed over (directly or inside a list) is appended, in order -- including
    the empty string, which is an argument like any other; None is skipped."""
    target = 'bfg9000/options.py::option_list.collect'
    properties = ('C01', 'C02')
    STRS = ('seq', 'str')

    def cases(self):
        return ['string', 'none', 'strings']

    def params(self, cx, case):
        old = z3.Const('options', z3.SeqSort(T.Str))
        cx.ghost('old', old)
        selfv = Obj(O.option_list, {'_options': PList(None, old, 'str')})
        if case == 'string':
            return {'self': selfv, 'args': (cx.str('option_string'),)}
        if case == 'none':
            return {'self': selfv, 'args': (None,)}
        return {'self': selfv, 'args': (PList(None, z3.Const('given', z3.SeqSort(T.Str)), 'str'),)}

    def new_seq(self, a):
        return MD.list_to_seq(None, a.self.attrs['_options'], 'str')

    def ensures(self, a, r):
        x = a.args[0]
        if x is None:
            return {'none_is_skipped': self.new_seq(a) == a.old}
        if isinstance(x, PList):
            return {'every_string_appended_in_order': self.new_seq(a) == z3.Concat(a.old, PRE(x.e, z3.Length(x.e)))}
        return {'string_appended_even_if_empty': self.new_seq(a) == z3.Concat(a.old, z3.Unit(MD.sym_str(x)))}

    def apply_at_call(self, I, bound, site, frame):
        args = bound['args']
        if len(args) == 1 and isinstance(args[0], Sym) and args[0].ty == 'str' and isinstance(I.active, OptionCollect):
            # the recursive call on one element of the list: the 'string' case of this contract
            lst = bound['self'].attrs['_options']
            e = MD.list_to_seq(I, lst, 'str')
            bound['self'].attrs['_options'] = PList(None, z3.Concat(e, z3.Unit(args[0].e)), 'str')
            return None
        from pyvc.interp import InlineInstead
        raise InlineInstead()

    def loops(self):
        def inv(I, loc, i, seq):
            a = self.cur
            cur = MD.list_to_seq(I, loc['self'].attrs['_options'], 'str')
            return {'appended_so_far': cur == z3.Concat(a.old, PRE(seq.e, i))}

        def havoc_obj(I, nm, o):
            if nm == 'self':
                o.attrs['_options'] = PList(None, T.fresh('h_options', z3.SeqSort(T.Str)), 'str')
                return
            from pyvc.interp import OutOfSubset
            raise OutOfSubset('loop mutates %s' % nm)
        from pyvc.contract import LoopInv
        return {('option_list.collect', 2): LoopInv(inv, var_types={'j': 'str', 'i': ('list', 'str')}, havoc_obj=havoc_obj)}

    def native_check(self, case, raw):
        if case != 'strings':
            return None
        ol = O.option_list(['-first'])
        ol.collect(list(raw['xs']))
        got = list(ol)
        if got != ['-first'] + list(raw['xs']):
            return {'contract': type(self).__name__, 'target': self.target, 'case': case, 'input': raw,
                    'clause': 'every_string_appended_in_order', 'got': got}
        return True

    def native_inputs(self, case, alphabet, maxlen, rng, extra=0):
        if case != 'strings':
            return
        import itertools as _it
        for n in range(0, 4):
            for t in _it.product(['', '-I', 'a b', '-I'], repeat=n):
                yield {'xs': list(t)}


# ---- bounded: order of forwarded static libraries on the final link line ------------------------------------------

class FakeLib:
    def __init__(self, name):
        self.name = name
        self.forward_opts = None
        self.lang = 'c'
        self.format = 'elf'

    def __repr__(self):
        return self.name


def all_dags(n):
    """forward-lib lists for libs 0..n-1 where lib i may forward libs with larger index (any order)."""
    per = []
    for i in range(n):
        later = list(range(i + 1, n))
        choices = []
        for k in range(0, min(len(later), 2) + 1):
            choices += list(_it.permutations(later, k))
        per.append(choices)
    return _it.product(*per)


class LinkOrder(Bounded):
    """`Link.__init__` + `_fill_options` kernel on the real ForwardOptions / option_list / opts.lib: in the final list
    of lib options every static library comes before some occurrence of each library it forwards (closure: every
    reachable library is present)."""
    target = 'bfg9000/options.py::ForwardOptions.recurse'
    properties = ('C14',)
    reason = 'quantifies over DAGs of libraries; recursion over an object graph with getattr defaults: runtime contract only'

    def native_inputs(self, case, alphabet, maxlen, rng, extra=0):
        for n in (2, 3, 4):
            for dag in all_dags(n):
                for users in ([0], [0, 1] if n > 2 else [0]):
                    yield {'n': n, 'forward': [list(x) for x in dag], 'user_libs': users}

    def native_check(self, case, raw):
        n = raw['n']
        from bfg9000.file_types import StaticLibrary
        from bfg9000.path import Path
        libs = [StaticLibrary(Path('libL%d.a' % i), 'elf', 'c') for i in range(n)]
        for i, l in enumerate(libs):
            l.name = 'L%d' % i
        for i, fw in enumerate(raw['forward']):
            if fw:
                libs[i].forward_opts = O.ForwardOptions(libs=[libs[j] for j in fw])
        user = [libs[i] for i in raw['user_libs']]
        fwd = O.ForwardOptions.recurse(user)
        all_libs = user + fwd.libs                                   # Link.__init__
        ol = O.option_list(O.lib(i) for i in all_libs)               # DynamicLink._fill_options
        order = [o.library for o in ol]
        # closure
        reach, todo = set(), list(raw['user_libs'])
        while todo:
            i = todo.pop()
            if i in reach:
                continue
            reach.add(i)
            todo += raw['forward'][i]
        if {l.name for l in order} != {'L%d' % i for i in reach}:
            return self.fail(case, raw, 'every_reachable_library_is_linked', order=[l.name for l in order])
        paths = {}

        def count(i, seen):
            paths[i] = paths.get(i, 0) + 1
            for j in raw['forward'][i]:
                count(j, seen)
        for u in raw['user_libs']:
            count(u, None)
        diamond = any(v > 1 for v in paths.values())
        for i in reach:
            for j in raw['forward'][i]:
                pi = order.index(libs[i])
                if not any(k > pi and order[k] is libs[j] for k in range(len(order))):
                    return self.fail(case, dict(raw, shared_dependency=diamond), 'usable_link_order',
                                     order=[l.name for l in order], needs='L%d before L%d' % (i, j))
        return True


class LocalRpath(Bounded):
    """patchelf.local_rpath: for a project shared library in the build directory the rpath is `$ORIGIN`-relative and
    dirname(output) joined with it is the library's directory, wherever the build directory is."""
    target = 'bfg9000/tools/patchelf.py::local_rpath'
    properties = ('C14',)
    reason = 'BasePath.relpath over posixpath (library): runtime contract only'
    DIRS = ['', 'lib', 'a/b', 'out/x y', 'a/lib']

    def native_inputs(self, case, alphabet, maxlen, rng, extra=0):
        for ld, od in _it.product(self.DIRS, repeat=2):
            yield {'libdir': ld, 'outdir': od}

    def native_check(self, case, raw):
        import posixpath
        from bfg9000.path import Path, Root
        from bfg9000.tools.patchelf import local_rpath

        class F:
            def __init__(self, p):
                self.path = p

        class Lib:
            def __init__(self, p):
                self.runtime_file = F(p)

        _P = Path

        class Plat:
            Path = _P

        class Env:
            target_platform = Plat
        lib = Lib(Path(posixpath.join(raw['libdir'], 'libx.so')))
        out = F(Path(posixpath.join(raw['outdir'], 'prog')))
        r = local_rpath(Env, lib, out)
        if not isinstance(r, str) or not (r == '$ORIGIN' or r.startswith('$ORIGIN/')):
            return self.fail(case, raw, 'rpath_is_origin_relative', rpath=repr(r))
        for build in ('/b', '/somewhere/else/bld'):
            origin = posixpath.normpath(posixpath.join(build, raw['outdir']))
            got = posixpath.normpath(r.replace('$ORIGIN', origin))
            want = posixpath.normpath(posixpath.join(build, raw['libdir']))
            if got != want:
                return self.fail(case, raw, 'origin_plus_rpath_is_library_directory', rpath=r, got=got, expected=want)
        return True


# ---- generated library DAGs built with the real toolchain and run in place / moved / installed (bounded) -----------

import os as _os

DAGS = {
    # name: (build.bfg body, {file: text}, [executables relative to builddir], install?)
    'static-chain-package': ("""
from bfg9000 import options as opts
from bfg9000.packages import CommonPackage
libm = CommonPackage('m', format=env.target_platform.object_format, link_options=opts.option_list(opts.lib('m')))
b = static_library('sub/b/b', ['b.c'], packages=[libm])
a = static_library('a/a', ['a.c'], libs=[b])
exe = executable('bin/exe', ['main.c'], libs=[a])
""", {'b.c': '#include <math.h>\ndouble b_fn(double x) { return pow(x, 2.0) + cos(x); }\n',
      'a.c': 'double b_fn(double); double a_fn(double x) { return b_fn(x); }\n',
      'main.c': 'double a_fn(double); int main(int c, char **v) { return a_fn(c + 1.0) > 3.0 ? 0 : 1; }\n'},
                             ['bin/exe'], False),
    'nested-shared': ("""
s = shared_library('sub/core/core', ['s.c'])
exe = executable('bin/exe', ['main.c'], libs=[s])
top = executable('top', ['main.c'], libs=[s])
""", {'s.c': 'int s_fn(void) { return 5; }\n', 'main.c': 'int s_fn(void); int main(void) { return s_fn() - 5; }\n'},
                      ['bin/exe', 'top'], True),
    'shared-behind-static': ("""
s = shared_library('deep/two/s', ['s.c'])
a = static_library('libs/a', ['a.c'], libs=[s])
exe = executable('bin/exe', ['main.c'], libs=[a])
install(exe)
""", {'s.c': 'int s_fn(void) { return 5; }\n', 'a.c': 'int s_fn(void); int a_fn(void) { return s_fn(); }\n',
      'main.c': 'int a_fn(void); int main(void) { return a_fn() - 5; }\n'}, ['bin/exe'], True),
    'versioned-shared': ("""
v = shared_library('libs/ver', ['s.c'], version='1.2.3', soversion='1')
st = static_library('mid/st', ['a.c'], libs=[v])
exe = executable('bin/exe', ['main.c'], libs=[st])
direct = executable('direct', ['main2.c'], libs=[v])
""", {'s.c': 'int s_fn(void) { return 5; }\n', 'a.c': 'int s_fn(void); int a_fn(void) { return s_fn(); }\n',
      'main.c': 'int a_fn(void); int main(void) { return a_fn() - 5; }\n',
      'main2.c': 'int s_fn(void); int main(void) { return s_fn() - 5; }\n'}, ['bin/exe', 'direct'], False),
    'diamond-shared': ("""
base = shared_library('x/base', ['s.c'])
mid1 = shared_library('y/mid1', ['m1.c'], libs=[base])
mid2 = static_library('z/mid2', ['m2.c'], libs=[base])
exe = executable('exe', ['main2.c'], libs=[mid1, mid2])
install(exe)
""", {'s.c': 'int s_fn(void) { return 5; }\n', 'm1.c': 'int s_fn(void); int m1(void) { return s_fn(); }\n',
      'm2.c': 'int s_fn(void); int m2(void) { return s_fn(); }\n',
      'main2.c': 'int m1(void); int m2(void); int main(void) { return m1() + m2() - 10; }\n'}, ['exe'], True),
    # a shared library built on a static-only library whose code refers to its own exported objects (needs
    # position-independent code in the static library)
    'shared-on-static': ("""
core = static_library('lib/core/core', ['core.c'])
front = shared_library('lib/front/front', ['front.c'], libs=[core])
exe = executable('bin/exe', ['main.c'], libs=[front])
""", {'core.c': 'int core_state = 5;\nint core_get(void) { return core_state; }\nint core_fn(void) { return core_get(); }\n',
      'front.c': 'int core_fn(void); int front_fn(void) { return core_fn(); }\n',
      'main.c': 'int front_fn(void); int main(void) { return front_fn() - 5; }\n'}, ['bin/exe'], False),
    # library directories where one is below the other (lib/ and lib/nested/), and a library next to the program
    # listed before one elsewhere
    'nested-library-directories': ("""
topl = shared_library('lib/top', ['s.c'])
deep = shared_library('lib/nested/deep', ['d.c'], version='1.0.0', soversion='1')
mid = static_library('mid', ['m.c'], libs=[topl, deep])
exe = executable('bin/exe', ['main.c'], libs=[mid])
here = shared_library('here', ['h.c'])
beside = executable('beside', ['main2.c'], libs=[here, deep])
""", {'s.c': 'int s_fn(void) { return 5; }\n', 'd.c': 'int d_fn(void) { return 2; }\n', 'h.c': 'int h_fn(void) { return 1; }\n',
      'm.c': 'int s_fn(void); int d_fn(void); int m_fn(void) { return s_fn() + d_fn(); }\n',
      'main.c': 'int m_fn(void); int main(void) { return m_fn() - 7; }\n',
      'main2.c': 'int h_fn(void); int d_fn(void); int main(void) { return h_fn() + d_fn() - 3; }\n'}, ['bin/exe', 'beside'], False),
    # code of another language in a static library: the language runtime has to follow it on the command line
    'mixed-language-static': ("""
f = static_library('fl', files=['f.f90'])
exe = executable('bin/exe', files=['main2.cpp'], libs=[f])
cxx = static_library('cxx', files=['lib.cpp'])
plain = executable('plain', files=['main.c'], libs=[cxx], lang='c')
""", {'f.f90': 'function fsq(x) bind(C, name="fsq") result(r)\n  use iso_c_binding\n  real(c_double), value :: x\n'
               '  real(c_double) :: r\n  character(len=20) :: buf\n  write(buf, \'(F8.2)\') x\n  r = x * x\nend function\n',
      'main2.cpp': 'extern "C" double fsq(double);\nint main() { return fsq(3.0) == 9.0 ? 0 : 1; }\n',
      'lib.cpp': '#include <string>\n#include <vector>\nextern "C" int cxx_len(void) { std::vector<std::string> v; '
                 'v.push_back("abc"); return (int)v[0].size(); }\n',
      'main.c': 'int cxx_len(void);\nint main(void) { return cxx_len() - 3; }\n'}, ['bin/exe', 'plain'], False, {},
                              ['gfortran', 'g++']),
    # a static library taken as a whole archive still forwards what it was built on
    'whole-archive-forwards': ("""
inner = static_library('in/inner', ['i.c'])
mid = static_library('mid/mid', ['m.c'], libs=[inner])
exe = executable('bin/exe', ['main.c'], libs=[whole_archive(mid)])
sh = shared_library('so/sh', ['s.c'], libs=[whole_archive(mid)])
exe2 = executable('exe2', ['main2.c'], libs=[sh])
""", {'i.c': 'int i_fn(void) { return 4; }\n', 'm.c': 'int i_fn(void); int m_fn(void) { return i_fn(); }\n',
      's.c': 'int m_fn(void); int s_fn(void) { return m_fn(); }\n',
      'main.c': 'int m_fn(void); int main(void) { return m_fn() - 4; }\n',
      'main2.c': 'int s_fn(void); int main(void) { return s_fn() - 4; }\n'}, ['bin/exe', 'exe2'], False),
    # the generic library() with a version, built in both flavours
    'versioned-dual-use': ("""
foo = library('foo', ['f.c'], version='1.2.3', soversion='1')
exe = executable('bin/exe', ['main.c'], libs=[foo])
""", {'f.c': 'int f_fn(void) { return 6; }\n', 'main.c': 'int f_fn(void); int main(void) { return f_fn() - 6; }\n'},
                           ['bin/exe'], False, {}, [], ['--enable-shared', '--enable-static']),
    # a pre-built shared library in the source tree, required through a static library
    'prebuilt-behind-static': ("""
vendor = shared_library('vendor/libvendor.so')
mid = static_library('mid', ['m.c'], libs=[vendor])
exe = executable('bin/exe', ['main.c'], libs=[mid])
""", {'m.c': 'int v_fn(void); int m_fn(void) { return v_fn(); }\n',
      'main.c': 'int m_fn(void); int main(void) { return m_fn() - 9; }\n'}, ['bin/exe'], False,
                               {'vendor/libvendor.so': 'int v_fn(void) { return 9; }\n'}),
}


class LinkRun(Bounded):
    """Generated DAGs of static and shared libraries in nested, different output directories, configured by the tree
    under test and built with the real cc/ar through GNU make: every executable links, runs from an unrelated working
    directory, still runs after the whole build directory has been moved, and (where install() is used) the
    installed program runs once the build directory is gone -- so every requirement of a static library (libraries,
    packages) reached the final link and every run-time dependency was recorded."""
    target = 'bfg9000/builtins/link.py::DynamicLink._fill_options'
    properties = ('C14',)
    reason = 'whole configure pipeline plus the external compiler, linker, make, doppel and patchelf: runtime contract'
    native_chunk = 1

    def native_inputs(self, case, alphabet, maxlen, rng, extra=0):
        for k in DAGS:
            yield {'dag': k}
        if extra:
            # thorough tier: random DAGs of static / shared libraries in nested directories, listed in random order
            for t in range(24):
                n = rng.choice((3, 4, 5))
                kinds = [rng.choice(('static', 'shared')) for _ in range(n)]
                deps = [sorted(rng.sample(range(i + 1, n), rng.randint(0, min(2, n - i - 1)))) for i in range(n)]
                dirs = [rng.choice(('', 'a', 'a/b', 'c d', 'x/y/z')) for _ in range(n)]
                tops = sorted(rng.sample(range(n), rng.randint(1, 2)))
                yield {'random': {'kinds': kinds, 'deps': deps, 'dirs': dirs, 'tops': tops, 'exe_dir': rng.choice(('', 'bin', 'o/p'))}}

    @staticmethod
    def random_project(spec):
        n = len(spec['kinds'])
        lines, sources = [], {}
        for i in reversed(range(n)):            # dependencies are declared first
            name = (spec['dirs'][i] + '/' if spec['dirs'][i] else '') + 'l%d' % i
            fn = 'static_library' if spec['kinds'][i] == 'static' else 'shared_library'
            lines.append("l%d = %s(%r, files=['l%d.c'], libs=[%s])" % (i, fn, name, i, ', '.join('l%d' % j for j in spec['deps'][i])))
            decl = ''.join('int f%d(void); ' % j for j in spec['deps'][i])
            sources['l%d.c' % i] = '%sint f%d(void) { return %d%s; }\n' % (decl, i, 1 << i, ''.join(' + f%d()' % j for j in spec['deps'][i]))

        def value(i):
            return (1 << i) + sum(value(j) for j in spec['deps'][i])
        exe = (spec['exe_dir'] + '/' if spec['exe_dir'] else '') + 'exe'
        lines.append("exe = executable(%r, files=['main.c'], libs=[%s])" % (exe, ', '.join('l%d' % j for j in spec['tops'])))
        lines.append('install(exe)')
        sources['main.c'] = '%sint main(void) { return (%s) - %d; }\n' % (
            ''.join('int f%d(void); ' % j for j in spec['tops']), ' + '.join('f%d()' % j for j in spec['tops']),
            sum(value(j) for j in spec['tops']))
        # a static library reachable along two paths: the recorded link-order finding
        paths = {}

        def count(i):
            paths[i] = paths.get(i, 0) + 1
            for j in spec['deps'][i]:
                count(j)
        for j in spec['tops']:
            count(j)
        diamond = any(c > 1 for i, c in paths.items())
        return '\n'.join(lines) + '\n', sources, [exe], diamond

    def native_check(self, case, raw):
        import shutil, subprocess, tempfile
        from pyvc.interp import REPO
        diamond = False
        if 'random' in raw:
            body, sources, exes, diamond = self.random_project(raw['random'])
            inst = True
        else:
            body, sources, exes, inst = DAGS[raw['dag']][:4]
        prebuilt = DAGS[raw['dag']][4] if 'dag' in raw and len(DAGS[raw['dag']]) > 4 else {}
        needs = DAGS[raw['dag']][5] if 'dag' in raw and len(DAGS[raw['dag']]) > 5 else []
        copts = DAGS[raw['dag']][6] if 'dag' in raw and len(DAGS[raw['dag']]) > 6 else []
        if any(shutil.which(t) is None for t in needs):
            return None             # that compiler is not installed
        top = tempfile.mkdtemp(prefix='pyvc_link_')
        try:
            src, b = top + '/src', top + '/b'
            _os.makedirs(src)
            with open(src + '/build.bfg', 'w') as f:
                f.write("project('p')\n" + body)
            for n, t in sources.items():
                with open(src + '/' + n, 'w') as f:
                    f.write(t)
            _os.makedirs(top + '/bin')
            for name, mod in (('bfg9000', 'bfg9000.driver'), ('bfg9000-depfixer', 'bfg9000.depfixer')):
                lp = top + '/bin/' + name
                with open(lp, 'w') as f:
                    f.write("#!/bin/sh\nPYTHONPATH=%s exec /venv/bin/python -c 'import sys; sys.argv[0] = \"%s\"; "
                            "from %s import main; sys.exit(main())' \"$@\"\n" % (REPO, lp, mod))
                _os.chmod(lp, 0o755)
            env = dict(_os.environ, PATH=top + '/bin:/venv/bin:' + _os.environ['PATH'])
            for k in ('MAKEFLAGS', 'DESTDIR', 'LD_LIBRARY_PATH'):
                env.pop(k, None)

            def run(cmd, **kw):
                return subprocess.run(cmd, env=env, capture_output=True, text=True, timeout=300, **kw)
            for lib, csrc in prebuilt.items():
                _os.makedirs(_os.path.dirname(src + '/' + lib), exist_ok=True)
                with open(src + '/' + lib + '.c', 'w') as f:
                    f.write(csrc)
                if run(['cc', '-shared', '-fPIC', '-o', src + '/' + lib, src + '/' + lib + '.c']).returncode != 0:
                    return None
            r = run([top + '/bin/bfg9000', 'configure-into', src, b, '--backend=make', '--no-resolve-packages',
                     '--prefix=' + top + '/pre'] + copts)
            if r.returncode != 0:
                return self.fail(case, raw, 'configure_succeeds', stderr=r.stderr[-500:])
            r = run(['make', '-C', b])
            if r.returncode != 0:
                return self.fail(case, dict(raw, shared_dependency=diamond) if diamond else raw,
                                 'every_target_links_with_the_real_toolchain', output=(r.stdout + r.stderr)[-700:])
            for e in exes:
                pr = run([b + '/' + e], cwd='/')
                if pr.returncode != 0:
                    return self.fail(case, raw, 'runs_in_place_from_another_directory', exe=e, exit=pr.returncode,
                                     stderr=pr.stderr[-300:])
            if inst and 'install(' in body:
                r = run(['make', '-C', b, 'install'])
                if r.returncode != 0:
                    return self.fail(case, raw, 'install_succeeds', output=(r.stdout + r.stderr)[-500:])
            moved = top + '/moved elsewhere'
            _os.rename(b, moved)
            for e in exes:
                pr = run([moved + '/' + e], cwd='/')
                if pr.returncode != 0:
                    return self.fail(case, raw, 'runs_after_the_build_directory_was_moved', exe=e, exit=pr.returncode,
                                     stderr=pr.stderr[-300:])
            if inst and 'install(' in body:
                shutil.rmtree(moved)
                for e in exes:
                    found = [_os.path.join(dp, f) for dp, dn, fn in _os.walk(top + '/pre/bin') for f in fn
                             if f == _os.path.basename(e)]
                    if len(found) != 1:
                        return self.fail(case, raw, 'installed_program_runs_without_the_build_directory', exe=e,
                                         installed=found)
                    pr = run([found[0]], cwd='/')
                    if pr.returncode != 0:
                        return self.fail(case, raw, 'installed_program_runs_without_the_build_directory', exe=e,
                                         exit=pr.returncode, stderr=pr.stderr[-300:])
            return True
        finally:
            shutil.rmtree(top, ignore_errors=True)


def registry():
    return [OptionAppend(), OptionCollect(), LinkOrder(), LocalRpath(), LinkRun()]
