"""C14: forwarded link requirements (order, closure, de-duplication) and relative rpaths."""
import ast
import itertools as _it
import z3
from pyvc import terms as T
from pyvc.contract import Contract, Args
from pyvc.values import Sym, Obj, PList, opaque_sort, fresh_sym
from pyvc import models as MD
from contracts.bounded_cmd import Bounded

import bfg9000.options as O

Opt = opaque_sort('Opt')
Opts = z3.SeqSort(Opt)
OPT_TY = ('opaque', 'Opt')
MATCHES = z3.Function('option_matches', Opt, Opt, T.Bool)       # option.matches(other)
ANYM = T.RecDef('ANYMATCH', [Opts, Opt], T.Bool, lambda os_, o: z3.BoolVal(False),
                lambda os_, o, k, prev: z3.Or(prev, MATCHES(o, os_[k])))


class OptionAppend(Contract):
    """option_list.append: a string is always appended; an option object is appended unless it `matches` an element
    already in the list (so the first occurrence is the one that is kept, and the list is otherwise unchanged)."""
    target = 'bfg9000/options.py::option_list.append'
    properties = ('C14',)
    expr_overrides = True

    def cases(self):
        return ['option', 'string']

    def params(self, cx, case):
        os_ = z3.Const('options', Opts)
        cx.ghost('old', os_)
        selfv = Obj(O.option_list, {'_options': PList(None, os_, OPT_TY)})
        if case == 'string':
            e0, e1 = Sym(z3.Const('o0', Opt), OPT_TY), Sym(z3.Const('o1', Opt), OPT_TY)
            cx.ghost('old_items', [e0, e1])
            return {'self': Obj(O.option_list, {'_options': PList([e0, e1])}), 'option': cx.str('option_string')}
        o = Obj(O.Option, {})
        o.term = z3.Const('option', Opt)
        return {'self': selfv, 'option': o}

    def expr_override(self, I, node, fr):
        if isinstance(node, ast.Call):
            try:
                src = ast.unparse(node)
            except Exception:       # noqa
                return NotImplemented
            if src == 'any((option.matches(i) for i in self._options))':
                # library contract of any() over a generator: exists an element of the list ...
                loc = fr.envs[0]
                lst = loc['self'].attrs['_options']
                e = MD.list_to_seq(I, lst, OPT_TY)
                return MD.mk_bool(ANYM(e, loc['option'].term, z3.Length(e)))
        return NotImplemented

    def ensures(self, a, r):
        new = a.self.attrs['_options']
        if isinstance(a.option, Obj):
            ne = MD.list_to_seq(None, new, OPT_TY)
            dup = ANYM(a.old, a.option.term, z3.Length(a.old))
            return {'appended_iff_no_match_else_unchanged':
                    z3.If(dup, ne == a.old, ne == z3.Concat(a.old, z3.Unit(a.option.term)))}
        # strings: the list (as a Python list) has grown by exactly that string; modelled lists are homogeneous, so
        # the check is structural: one append happened
        ok = (new.concrete and len(new.items) == 3 and new.items[0] is a.old_items[0] and new.items[1] is a.old_items[1]
              and new.items[2] is a.option)
        return {'string_always_appended': z3.BoolVal(ok)}


# ---- bounded: order of forwarded static libraries on the final link line ------------------------------------------

class FakeLib:
    def __init__(self, name):
        self.name = name
        self.forward_opts = None
        self.lang = 'c'
        self.format = 'elf'

    def __repr__(self):
        return self.name


def all_dags(n):
    """forward-lib lists for libs 0..n-1 where lib i may forward libs with larger index (any order)."""
    per = []
    for i in range(n):
        later = list(range(i + 1, n))
        choices = []
        for k in range(0, min(len(later), 2) + 1):
            choices += list(_it.permutations(later, k))
        per.append(choices)
    return _it.product(*per)


class LinkOrder(Bounded):
    """`Link.__init__` + `_fill_options` kernel on the real ForwardOptions / option_list / opts.lib: in the final list
    of lib options every static library comes before some occurrence of each library it forwards (closure: every
    reachable library is present)."""
    target = 'bfg9000/options.py::ForwardOptions.recurse'
    properties = ('C14',)
    reason = 'quantifies over DAGs of libraries; recursion over an object graph with getattr defaults: runtime contract only'

    def native_inputs(self, case, alphabet, maxlen, rng, extra=0):
        for n in (2, 3, 4):
            for dag in all_dags(n):
                for users in ([0], [0, 1] if n > 2 else [0]):
                    yield {'n': n, 'forward': [list(x) for x in dag], 'user_libs': users}

    def native_check(self, case, raw):
        n = raw['n']
        from bfg9000.file_types import StaticLibrary
        from bfg9000.path import Path
        libs = [StaticLibrary(Path('libL%d.a' % i), 'elf', 'c') for i in range(n)]
        for i, l in enumerate(libs):
            l.name = 'L%d' % i
        for i, fw in enumerate(raw['forward']):
            if fw:
                libs[i].forward_opts = O.ForwardOptions(libs=[libs[j] for j in fw])
        user = [libs[i] for i in raw['user_libs']]
        fwd = O.ForwardOptions.recurse(user)
        all_libs = user + fwd.libs                                   # Link.__init__
        ol = O.option_list(O.lib(i) for i in all_libs)               # DynamicLink._fill_options
        order = [o.library for o in ol]
        # closure
        reach, todo = set(), list(raw['user_libs'])
        while todo:
            i = todo.pop()
            if i in reach:
                continue
            reach.add(i)
            todo += raw['forward'][i]
        if {l.name for l in order} != {'L%d' % i for i in reach}:
            return self.fail(case, raw, 'every_reachable_library_is_linked', order=[l.name for l in order])
        paths = {}

        def count(i, seen):
            paths[i] = paths.get(i, 0) + 1
            for j in raw['forward'][i]:
                count(j, seen)
        for u in raw['user_libs']:
            count(u, None)
        diamond = any(v > 1 for v in paths.values())
        for i in reach:
            for j in raw['forward'][i]:
                pi = order.index(libs[i])
                if not any(k > pi and order[k] is libs[j] for k in range(len(order))):
                    return self.fail(case, dict(raw, shared_dependency=diamond), 'usable_link_order',
                                     order=[l.name for l in order], needs='L%d before L%d' % (i, j))
        return True


class LocalRpath(Bounded):
    """patchelf.local_rpath: for a project shared library in the build directory the rpath is `$ORIGIN`-relative and
    dirname(output) joined with it is the library's directory, wherever the build directory is."""
    target = 'bfg9000/tools/patchelf.py::local_rpath'
    properties = ('C14',)
    reason = 'BasePath.relpath over posixpath (library): runtime contract only'
    DIRS = ['', 'lib', 'a/b', 'out/x y', 'a/lib']

    def native_inputs(self, case, alphabet, maxlen, rng, extra=0):
        for ld, od in _it.product(self.DIRS, repeat=2):
            yield {'libdir': ld, 'outdir': od}

    def native_check(self, case, raw):
        import posixpath
        from bfg9000.path import Path, Root
        from bfg9000.tools.patchelf import local_rpath

        class F:
            def __init__(self, p):
                self.path = p

        class Lib:
            def __init__(self, p):
                self.runtime_file = F(p)

        _P = Path

        class Plat:
            Path = _P

        class Env:
            target_platform = Plat
        lib = Lib(Path(posixpath.join(raw['libdir'], 'libx.so')))
        out = F(Path(posixpath.join(raw['outdir'], 'prog')))
        r = local_rpath(Env, lib, out)
        if not isinstance(r, str) or not (r == '$ORIGIN' or r.startswith('$ORIGIN/')):
            return self.fail(case, raw, 'rpath_is_origin_relative', rpath=repr(r))
        for build in ('/b', '/somewhere/else/bld'):
            origin = posixpath.normpath(posixpath.join(build, raw['outdir']))
            got = posixpath.normpath(r.replace('$ORIGIN', origin))
            want = posixpath.normpath(posixpath.join(build, raw['libdir']))
            if got != want:
                return self.fail(case, raw, 'origin_plus_rpath_is_library_directory', rpath=r, got=got, expected=want)
        return True


def registry():
    return [OptionAppend(), LinkOrder(), LocalRpath()]
