"""Contracts for bfg9000/platforms/basepath.py and bfg9000/path.py (C12).

BasePath is a thin layer over posixpath / ntpath / os.path: the algebraic laws of the property are laws about
that library's normpath/join/relpath/dirname/basename on all strings.  PyVC has no model of those functions
(a model would be a restatement of posixpath); the deductive part is therefore limited to the kernels whose
logic is bfg9000's own -- the root-containment test, equality/hash agreement and the JSON shape -- and the laws
themselves are checked as runtime contracts on the real classes, exhaustively up to a stated bound, for both
platform flavours.
"""
import itertools as _it
import z3
from pyvc import terms as T
from pyvc.contract import Contract, Lemma, Args
from pyvc.values import Sym, Obj, PList, fresh_sym
from pyvc import models as MD
from contracts.bounded_cmd import Bounded

from bfg9000.platforms.basepath import BasePath, Root, InstallRoot
from bfg9000.platforms.posix import PosixPath
from bfg9000.platforms.windows import WindowsPath
import bfg9000.path as bpath

DOT, SEP = ord('.'), ord('/')


class EqHash(Contract):
    """a == b  ==>  hash(a) == hash(b): __eq__ compares root, suffix and destdir; __hash__ hashes the suffix."""
    target = 'bfg9000/platforms/basepath.py::BasePath.__eq__'
    properties = ('C12',)

    def params(self, cx, case):
        def p(n):
            return Obj(PosixPath, {'root': Sym(z3.Const(n + '_root', T.Int), ('enum', Root)),
                                   'suffix': cx.str(n + '_suffix'), 'destdir': cx.bool(n + '_destdir'),
                                   'directory': cx.bool(n + '_dir')})
        return {'self': p('a'), 'rhs': p('b')}

    def ensures(self, a, r):
        eq = T.zbool(MD.lift(r)) if not isinstance(r, bool) else z3.BoolVal(r)
        same_hash_input = MD.sym_str(a.self.attrs['suffix']) == MD.sym_str(a.rhs.attrs['suffix'])
        same = z3.And(MD.lift(a.self.attrs['root']) == MD.lift(a.rhs.attrs['root']), same_hash_input,
                      T.zbool(MD.lift(a.self.attrs['destdir'])) == T.zbool(MD.lift(a.rhs.attrs['destdir'])))
        return {'equal_paths_hash_equal': z3.Implies(eq, same_hash_input),
                'equality_is_root_suffix_destdir': eq == same}


class Hash(Contract):
    target = 'bfg9000/platforms/basepath.py::BasePath.__hash__'
    properties = ('C12',)

    def params(self, cx, case):
        return {'self': Obj(PosixPath, {'suffix': cx.str('a_suffix')})}

    def opaque_calls(self):
        import builtins

        def h(I, args, kwargs, node):
            I.events.append(('hash', args[0]))
            return fresh_sym('hashval', 'int')
        return {builtins.hash: h}

    def ensures(self, a, r):
        ev = [e for e in a.events if e[0] == 'hash']
        return {'hash_depends_on_the_suffix_only': z3.BoolVal(len(ev) == 1 and ev[0][1] is a.self.attrs['suffix'])}


class ToJson(Contract):
    """to_json: [suffix', root name, destdir] where suffix' ends with the separator exactly for directories (this
    is how from_json recovers the directory flag)."""
    target = 'bfg9000/platforms/basepath.py::BasePath.to_json'
    properties = ('C12', 'C08', 'C09')

    def cases(self):
        return ['dir', 'file']

    def params(self, cx, case):
        return {'self': Obj(PosixPath, {'root': Root.srcdir, 'suffix': cx.str('suffix'), 'destdir': cx.bool('destdir'),
                                        'directory': case == 'dir'})}

    def requires(self, a):
        # normalised suffixes never end with the separator (BasePath.__init__ invariant, see the bounded run)
        s = MD.sym_str(a.self.attrs['suffix'])
        n = z3.Length(s)
        return z3.Or(n == 0, s[n - 1] != SEP)

    def ensures(self, a, r):
        s = MD.sym_str(a.self.attrs['suffix'])
        items = r.items if isinstance(r, PList) else None
        if items is None or len(items) != 3:
            return {'three_fields': z3.BoolVal(False)}
        out = MD.sym_str(items[0])
        n = z3.Length(out)
        ends = z3.And(n > 0, out[n - 1] == SEP)
        isdir = a.self.attrs['directory']
        body = z3.If(z3.Length(s) == 0, T.lit('./'), T.cat(s, T.lit('/'))) if isdir else s
        return {'suffix_field': out == body,
                'trailing_separator_iff_directory': ends == z3.BoolVal(bool(isdir)) if isdir else z3.Not(ends),
                'root_and_destdir_fields': z3.BoolVal(items[1] == 'srcdir' and items[2] is a.self.attrs['destdir'])}


# ---- bounded: the algebraic laws on the real classes --------------------------------------------------------

COMPS = ['', '.', '..', 'a', 'b.c', 'a b', '..x']
TILDE_COMPS = ['.', '~', 'a', '~x']       # a first component that starts with `~` (known finding)


def oracle_norm(comps):
    """Reference normalisation on component lists: returns (list, escaped?)"""
    out = []
    for c in comps:
        if c in ('', '.'):
            continue
        if c == '..':
            if out and out[-1] != '..':
                out.pop()
            else:
                out.append('..')
        else:
            out.append(c)
    return out, bool(out) and out[0] == '..'


class Laws(Bounded):
    """Law-style contracts: the harness only calls the path API on inputs it has already accepted, so an exception
    escaping from a law is the API raising on a valid path -- a violation, not a crash of the check."""

    def native_check(self, case, raw):
        try:
            return self.laws(case, raw)
        except Exception as e:      # noqa
            import traceback
            where = traceback.extract_tb(e.__traceback__)[-1]
            return self.fail(case, raw, 'operation_on_a_valid_path_raises', error=repr(e)[:200],
                             where='%s:%s' % (where.filename.rsplit('/', 1)[-1], where.name))


class PathLaws(Laws):
    target = 'bfg9000/platforms/basepath.py::BasePath.__init__'
    properties = ('C12', 'C05')
    reason = 'laws of posixpath/ntpath/os.path composition (library), both platform flavours: runtime contract only'

    def cases(self):
        return ['posix', 'windows']

    def native_inputs(self, case, alphabet, maxlen, rng, extra=0):
        for n in range(0, 5):
            for t in _it.product(COMPS, repeat=n):
                yield {'comps': list(t)}
        for n in range(2, 4):
            for t in _it.product(TILDE_COMPS, repeat=n):
                if t[0] == '.' and any(c.startswith('~') for c in t):
                    yield {'comps': list(t), 'tilde': True}

    def laws(self, case, raw):
        P = PosixPath if case == 'posix' else WindowsPath
        comps = raw['comps']
        s = '/'.join(comps)
        if s.startswith('/'):
            return None             # absolute forms are outside this law set (the root then is Root.absolute)
        want, escapes = oracle_norm(comps)
        try:
            p = P(s, Root.srcdir)
        except ValueError:
            if not escapes:
                return self.fail(case, raw, 'only_escaping_paths_are_rejected', string=s)
            return True
        if escapes:
            return self.fail(case, raw, 'escaping_path_rejected', string=s, suffix=p.suffix)
        if p.split() != want:
            return self.fail(case, raw, 'normalised', string=s, split=p.split(), expected=want)
        if P(s.replace('/', '\\'), Root.srcdir) != p:
            return self.fail(case, raw, 'separator_agnostic', string=s)
        j = P.from_json(p.to_json())
        if j != p or j.directory != p.directory:
            return self.fail(case, raw, 'json_round_trip', string=s, json=p.to_json(), back=repr(j))
        if hash(j) != hash(p):
            return self.fail(case, raw, 'equal_paths_hash_equal', string=s)
        if p.suffix:
            if p.parent().append(p.basename()) != p:
                return self.fail(case, raw, 'parent_append_basename', string=s)
        # relpath/append inverse against every ancestor and a sibling
        starts = [P('/'.join(want[:k]), Root.srcdir) for k in range(len(want) + 1)] + [P('zz', Root.srcdir)]
        # directories whose name is a string prefix / extension of a component (src, src.gen, srcs): siblings, not ancestors
        for k in range(1, len(want) + 1):
            last = want[k - 1]
            for sib in (last[:-1], last + 's', last + '.gen', last + ' x'):
                if sib and sib not in ('.', '..') and not sib.startswith('~'):
                    starts.append(P('/'.join(want[:k - 1] + [sib]), Root.srcdir))
        for start in starts:
            rel = p.relpath(start, localize=False)
            back = start.append(rel)
            if back != p:
                return self.fail(case, raw, 'relpath_append_inverse', string=s, start=start.suffix, rel=rel, back=back.suffix)
        # realisation equals ordinary joining
        base = {Root.srcdir: P('/src/dir', Root.absolute), Root.builddir: P('/b', Root.absolute)}
        import posixpath
        got = p.string(base)
        exp = posixpath.normpath(posixpath.join('/src/dir', p.suffix)) if p.suffix else '/src/dir'
        if case == 'windows':
            exp = exp.replace('/', '\\')
        if got != exp:
            return self.fail(case, raw, 'string_is_join_of_base_and_suffix', string=s, got=got, expected=exp)
        # base directories given as plain strings, written with either separator
        import ntpath
        for b in (['/src/dir', '/src/dir/sub'] if case == 'posix' else ['C:/work/src', 'C:\\work\\src', '//server/share/d']):
            got = p.string({Root.srcdir: b, Root.builddir: b})
            if case == 'posix':
                exp = posixpath.normpath(posixpath.join(b, p.suffix)) if p.suffix else b
            else:
                exp = ntpath.normpath(ntpath.join(b, *p.split()))
            if got != exp:
                return self.fail(case, raw, 'string_is_join_of_string_base_and_suffix', string=s, base=b, got=got, expected=exp)
        return True


class InstallChain(Laws):
    """string() through chains of Path-valued base directories (bindir under exec_prefix under prefix)."""
    target = 'bfg9000/platforms/basepath.py::BasePath.string'
    properties = ('C12',)
    reason = 'loop over nested realisations of Path-valued variables (library-heavy): runtime contract only'

    def native_inputs(self, case, alphabet, maxlen, rng, extra=0):
        for a, b, c in _it.product(['', 'x', 'x/y'], ['', 'bin', 'lib/z'], ['tool', 'd/t']):
            yield {'prefix': '/usr/local', 'exec': a, 'bindir': b, 'leaf': c}

    def laws(self, case, raw):
        import posixpath
        P = PosixPath
        base = {InstallRoot.prefix: P(raw['prefix'], Root.absolute),
                InstallRoot.exec_prefix: P(raw['exec'], InstallRoot.prefix),
                InstallRoot.bindir: P(raw['bindir'], InstallRoot.exec_prefix)}
        p = P(raw['leaf'], InstallRoot.bindir)
        got = p.string(base)
        exp = posixpath.normpath(posixpath.join(raw['prefix'], raw['exec'], raw['bindir'], raw['leaf']))
        if got != exp:
            return self.fail(case, raw, 'string_through_nested_bases', got=got, expected=exp)
        return True


class CommonPrefix(Laws):
    target = 'bfg9000/path.py::commonprefix'
    properties = ('C12',)
    reason = 'min/max over lists of component lists (lexicographic list order): runtime contract only'
    NAMES = ['a', 'a.b', 'a b', 'a-b', 'b']

    def native_inputs(self, case, alphabet, maxlen, rng, extra=0):
        paths = [()] + [(x,) for x in self.NAMES] + [(x, y) for x in self.NAMES[:4] for y in ('c', 'a')]
        for n in (1, 2, 3):
            combos = list(_it.combinations(range(len(paths)), n))
            if len(combos) > 1200:
                combos = rng.sample(combos, 1200)
            for t in combos:
                yield {'paths': ['/'.join(paths[i]) for i in t]}

    def laws(self, case, raw):
        ps = [PosixPath(s, Root.srcdir) for s in raw['paths']]
        splits = [p.split() for p in ps]
        k = 0
        while all(len(s) > k for s in splits) and len({s[k] for s in splits}) == 1:
            k += 1
        want = splits[0][:k]
        got = bpath.commonprefix(ps)
        if got is None or got.split() != want:
            return self.fail(case, raw, 'longest_common_ancestor', got=None if got is None else got.suffix, expected='/'.join(want))
        ut = bpath.uniquetrees(ps)
        us = [u.split() for u in ut]
        for s in splits:
            if not any(s[:len(u)] == u for u in us):
                return self.fail(case, raw, 'uniquetrees_covers_every_input', trees=[u.suffix for u in ut])
        for i, u in enumerate(us):
            for j, v in enumerate(us):
                if i != j and v[:len(u)] == u:
                    return self.fail(case, raw, 'uniquetrees_minimal', trees=[x.suffix for x in ut])
        return True


class AbsolutePathLaws(Laws):
    """The same laws for absolute and drive-prefixed forms (`/…`, `C:/…`, `C:\\…`): normal form (`..` at the top stays
    at the top), separator-agnostic, JSON round trip, hash, and parent / append / basename as inverses."""
    target = 'bfg9000/platforms/basepath.py::BasePath.parent'
    properties = ('C12',)
    reason = PathLaws.reason
    PREFIXES = ['/', 'C:/', 'C:\\', '//server/share/', '\\\\server\\share\\']

    def cases(self):
        return ['posix', 'windows']

    def native_inputs(self, case, alphabet, maxlen, rng, extra=0):
        for pre in self.PREFIXES:
            for n in range(0, 4):
                for t in _it.product(COMPS, repeat=n):
                    yield {'prefix': pre, 'comps': list(t)}

    def laws(self, case, raw):
        P = PosixPath if case == 'posix' else WindowsPath
        pre, comps = raw['prefix'], raw['comps']
        s = pre + '/'.join(comps)
        unc = pre.replace('\\', '/').startswith('//')
        if not unc and (s.startswith('//') or s.startswith('\\\\')):
            return None         # an empty first component would turn the drive-less form into a UNC share name
        want = []
        for c in comps:
            if c in ('', '.'):
                continue
            if c == '..':
                if want:
                    want.pop()
            else:
                want.append(c)
        top = 'C:/' if pre.startswith('C:') else ('//server/share/' if unc else '/')
        try:
            p = P(s, Root.srcdir)
        except ValueError as e:
            return self.fail(case, raw, 'absolute_path_accepted', string=s, error=str(e))
        if p.root != Root.absolute or p.suffix != top + '/'.join(want):
            return self.fail(case, raw, 'normalised', string=s, suffix=p.suffix, expected=top + '/'.join(want))
        if P(s.replace('/', '\\'), Root.srcdir) != p or P(s.replace('\\', '/'), Root.srcdir) != p:
            return self.fail(case, raw, 'separator_agnostic', string=s)
        j = P.from_json(p.to_json())
        if j != p or j.directory != p.directory or hash(j) != hash(p):
            return self.fail(case, raw, 'json_round_trip', string=s, json=p.to_json(), back=repr(j))
        # the same path below DESTDIR (an install location) is another path and keeps that through JSON
        pd = P(s, Root.absolute, True)
        jd = P.from_json(pd.to_json())
        if jd != pd or not jd.destdir or pd == p:
            return self.fail(case, raw, 'json_round_trip_keeps_the_destdir_flag', string=s, json=pd.to_json(), back=repr(jd))
        if want:
            try:
                par = p.parent()
            except ValueError as e:
                return self.fail(case, raw, 'parent_of_a_non_root_path_exists', string=s, error=str(e))
            if par.suffix != top + '/'.join(want[:-1]) or not par.directory:
                return self.fail(case, raw, 'parent_is_the_enclosing_directory', string=s, parent=par.suffix)
            if p.basename() != want[-1] or par.append(p.basename()) != p:
                return self.fail(case, raw, 'parent_append_basename', string=s, parent=par.suffix, basename=p.basename())
            if P(p.basename(), par) != p:
                return self.fail(case, raw, 'relative_to_parent_is_the_path', string=s, got=P(p.basename(), par).suffix)
        # `..` steps up one level and stops at the top of the drive / share; appending a name and stepping up is the identity
        try:
            up = p.append('..')
            down = p.append('zz').append('..')
        except ValueError as e:
            return self.fail(case, raw, 'append_parent_reference_stays_on_the_drive', string=s, error=str(e))
        if up.suffix != top + '/'.join(want[:-1]) or down.suffix != p.suffix or up.root != Root.absolute:
            return self.fail(case, raw, 'append_parent_reference_stays_on_the_drive', string=s, up=up.suffix, down=down.suffix)
        return True


class TreeFunctions(Laws):
    """commonprefix / uniquetrees over absolute paths, drive roots and several kinds of root: a true common ancestor
    (or None when there is none) and a minimal covering set."""
    target = 'bfg9000/path.py::uniquetrees'
    properties = ('C12',)
    reason = CommonPrefix.reason if False else 'min/max and sort over lists of component lists: runtime contract only'

    POOL = [('//s/m/a', 'absolute'), ('//s/m/b/c', 'absolute'), ('//s/x/a', 'absolute'),
            ('/', 'absolute'), ('/a', 'absolute'), ('/a/b', 'absolute'), ('/c/d', 'absolute'), ('C:/', 'absolute'),
            ('C:/a', 'absolute'), ('D:/a', 'absolute'), ('a', 'srcdir'), ('a/b', 'srcdir'), ('a', 'builddir'),
            ('a/b', 'prefix'), ('', 'srcdir'), ('a.b', 'srcdir'), ('', 'prefix')]

    def native_inputs(self, case, alphabet, maxlen, rng, extra=0):
        for n in (1, 2, 3):
            for t in _it.combinations(range(len(self.POOL)), n):
                yield {'paths': [list(self.POOL[i]) for i in t]}

    @staticmethod
    def key(p):
        """(kind of root, components) with the top of an absolute tree as its first component"""
        s = p.suffix
        if p.root == Root.absolute and s.startswith('//'):
            # a UNC share (`//server/share`) is the top of its tree, like a drive
            parts = [b for b in s.split('/') if b]
            bits = ['//' + '/'.join(parts[:2])] + parts[2:]
        elif p.root == Root.absolute:
            bits = [b for b in s.split('/') if b] if not s.startswith('/') else [''] + [b for b in s.split('/') if b]
        else:
            bits = s.split('/') if s else []
        return (type(p.root).__name__, p.root.name), bits

    def laws(self, case, raw):
        roots = {'absolute': Root.absolute, 'srcdir': Root.srcdir, 'builddir': Root.builddir, 'prefix': InstallRoot.prefix}
        ps = [PosixPath(s, roots[r]) for s, r in raw['paths']]
        keys = [self.key(p) for p in ps]
        # ---- commonprefix
        same_root = len({k[0] for k in keys}) == 1
        bits = [k[1] for k in keys]
        n = 0
        while all(len(b) > n for b in bits) and len({b[n] for b in bits}) == 1:
            n += 1
        common = bits[0][:n]
        is_abs = ps[0].root == Root.absolute
        exists = same_root and (not is_abs or n >= 1)
        try:
            got = bpath.commonprefix(ps)
        except ValueError as e:
            return self.fail(case, raw, 'commonprefix_returns_a_common_ancestor_or_none', error=str(e), expected=common if exists else None)
        if exists:
            if got is None or self.key(got) != (keys[0][0], common):
                return self.fail(case, raw, 'commonprefix_returns_a_common_ancestor_or_none',
                                 got=None if got is None else got.suffix, expected=common)
        elif got is not None:
            return self.fail(case, raw, 'commonprefix_returns_a_common_ancestor_or_none', got=got.suffix, expected=None)
        # ---- uniquetrees
        ut = bpath.uniquetrees(ps)
        uk = [self.key(u) for u in ut]

        def covers(a, b):
            return a[0] == b[0] and b[1][:len(a[1])] == a[1]
        for k in keys:
            if not any(covers(u, k) for u in uk):
                return self.fail(case, raw, 'uniquetrees_covers_every_input', trees=[(u.root.name, u.suffix) for u in ut])
        for i, u in enumerate(uk):
            for j, v in enumerate(uk):
                if i != j and covers(u, v):
                    return self.fail(case, raw, 'uniquetrees_minimal', trees=[(x.root.name, x.suffix) for x in ut])
        if any(u not in keys for u in uk):
            return self.fail(case, raw, 'uniquetrees_returns_given_paths', trees=[(x.root.name, x.suffix) for x in ut])
        return True


def registry():
    return [EqHash(), Hash(), ToJson(), PathLaws(), AbsolutePathLaws(), InstallChain(), CommonPrefix(), TreeFunctions()]
