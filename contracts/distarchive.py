"""C18: members of the source archive written by the generated `dist` target (bounded, real driver + make + doppel).

A statement over all builtins and the external archive tool: no per-function contract carries it.  The stand-in is one
generated project that creates file objects through many builtins (find_files with extra=, header_directory with a
pattern, libraries, executables, header / man / generic files, copy_file, build_step and command inputs, a submodule
with its own options file, extra_dist, a dist=False source) and compares the archive members with the files the
project description says are read."""
import os
from contracts.bounded_cmd import Bounded

BUILD_BFG = """
project('p', version='1.0')
srcs = find_files('lib/*.c', extra='*.txt')
inc = header_directory('include', include='**/*.h')
a = static_library('a', files=srcs, includes=[inc])
e1 = executable('e1', files=['main.c', 'gen/g.c'], libs=[a])
hdr = header_file('api.h')
nodist = source_file('private.c', dist=False)
e2 = executable('e2', files=[nodist])
data = generic_file('data/blob.bin')
man = man_page('e1.1')
sub = submodule('sub')
copy_file('data/copy me.txt')
build_step('out.txt', cmd=['cp', source_file('script in.txt'), 'out.txt'])
command('hello', cmd=['sh', source_file('tools/run.sh')])
test(e1)
install(e1, hdr, inc, man)
extra_dist(files=['README', 'docs/guide.md'], dirs=['licenses'])
vend = find_files('vendor/*.bin', dist=False)
uncached = find_files('nocache/*.c', extra='*.hpp', cache=False)
build_step('stamp.txt', cmd=['touch', 'stamp.txt'], extra_deps=['assets/', 'lone.dep'])
plat = find_files('plat/**/*.c', filter=filter_by_platform)
ext = header_directory(%(ext)r)
genh = header_file(env.builddir.append('config.h'))
e3 = executable('e3', files=['main3.c'] + plat, includes=[ext])
"""
FILES = {
    # file -> must it be in the archive?  (None: either way is acceptable)
    'build.bfg': True, 'options.bfg': True, 'sub/build.bfg': True, 'sub/options.bfg': True,
    'lib/f0.c': True, 'lib/f1.c': True, 'lib/notes.txt': True,        # found, and found as extra=
    'lib/other.dat': False,                                            # matches neither pattern
    'include/a.h': True, 'include/d/b.h': True, 'include/skip.txt': False,
    'main.c': True, 'gen/g.c': True, 'api.h': True, 'private.c': False,   # dist=False
    'data/blob.bin': True, 'e1.1': True, 'sub/sp.c': True, 'data/copy me.txt': True, 'script in.txt': True,
    'tools/run.sh': True, 'README': True, 'docs/guide.md': True, 'licenses/MIT': True,
    'licenses/sub/BSD': None,        # extra_dist(dirs=) lists the directory one level deep; the deeper file has no
                                     # influence on the build and the property text does not settle it
    'unrelated.txt': False,
    'vendor/v.bin': False,            # found twice (the second time from the cache), both times dist=False
    'nocache/n.c': True, 'nocache/n.hpp': True,      # an uncached search with extra=
    # sources for other platforms are not built here but belong to the distribution
    'plat/common.c': True, 'plat/impl_linux.c': True, 'plat/impl_winnt.c': True, 'plat/winnt/only.c': True,
    'plat/net_darwin/deep/sock.c': True, 'main3.c': True,
    'lone.dep': True,                 # extra_deps given by name: a file, and a directory (the build file names the directory
    'assets/pic.png': None,           # itself; its content is not referenced)
}
C_MAIN = ('main.c', 'private.c', 'sub/sp.c', 'main3.c')


class DistArchive(Bounded):
    """`make dist` of a generated project: the archive contains every file the project description reads (scripts of
    all levels, sources, listed and found headers, extra= matches, inputs of copy_file / build_step / command,
    extra_dist entries), not the dist=False source, nothing that was not mentioned and nothing from the build
    directory; the unpacked archive configures and builds the distributed targets."""
    target = 'bfg9000/builtins/dist.py::_dist_command'
    properties = ('C18',)
    reason = 'universal statement over all builtins plus the external archive tool: runtime contract with the real tools'
    native_chunk = 1

    def native_inputs(self, case, alphabet, maxlen, rng, extra=0):
        for fmt in ('gzip', 'bzip2', 'zip'):
            yield {'format': fmt}

    def native_check(self, case, raw):
        import shutil, subprocess, tempfile, tarfile, zipfile
        from pyvc.interp import REPO
        top = tempfile.mkdtemp(prefix='pyvc_dist_')
        try:
            src, b = top + '/src', top + '/b'

            def w(rel, text):
                fp = src + '/' + rel
                os.makedirs(os.path.dirname(fp), exist_ok=True)
                with open(fp, 'w') as f:
                    f.write(text)
            # a header directory outside the source tree (absolute path) is used, never distributed
            os.makedirs(top + '/ext/inc')
            with open(top + '/ext/inc/e.h', 'w') as f:
                f.write('')
            w('build.bfg', BUILD_BFG % {'ext': top + '/ext/inc'})
            w('options.bfg', "argument('name', default='x')\nsubmodule('sub')\n")
            w('sub/build.bfg', "executable('subprog', files=['sp.c'])\nfind_files('../vendor/*.bin', dist=False)\n")
            w('sub/options.bfg', "argument('subname', default='y')\n")
            for f in FILES:
                if f.endswith('.bfg'):
                    continue
                if f in C_MAIN:
                    w(f, 'int main(void) { return 0; }\n')
                elif f.endswith('.c'):
                    w(f, 'int fn_%s(void) { return 0; }\n' % os.path.basename(f)[:-2])
                else:
                    w(f, 'x\n')
            os.makedirs(top + '/bin')
            for name, mod in (('bfg9000', 'bfg9000.driver'), ('bfg9000-depfixer', 'bfg9000.depfixer')):
                lp = top + '/bin/' + name
                with open(lp, 'w') as f:
                    f.write("#!/bin/sh\nPYTHONPATH=%s exec /venv/bin/python -c 'import sys; sys.argv[0] = \"%s\"; "
                            "from %s import main; sys.exit(main())' \"$@\"\n" % (REPO, lp, mod))
                os.chmod(lp, 0o755)
            env = dict(os.environ, PATH=top + '/bin:/venv/bin:' + os.environ['PATH'])
            env.pop('MAKEFLAGS', None)

            def run(cmd, **kw):
                return subprocess.run(cmd, env=env, capture_output=True, text=True, timeout=300, **kw)
            conf = [top + '/bin/bfg9000', 'configure-into', '--backend=make', '--no-resolve-packages']
            r = run(conf + [src, b])
            if r.returncode != 0:
                return self.fail(case, raw, 'configure_succeeds', stderr=r.stderr[-500:])
            r = run(['make', '-C', b, 'dist-' + raw['format']])
            if r.returncode != 0:
                return self.fail(case, raw, 'dist_target_succeeds', output=(r.stdout + r.stderr)[-600:])
            arch = [f for f in os.listdir(b) if f.startswith('p-1.0.')]
            if len(arch) != 1:
                return self.fail(case, raw, 'one_archive_written', found=arch)
            ap = b + '/' + arch[0]
            un = top + '/unpacked'
            if raw['format'] == 'zip':
                with zipfile.ZipFile(ap) as z:
                    names = z.namelist()
                    z.extractall(un)
            else:
                with tarfile.open(ap) as t:
                    names = t.getnames()
                    t.extractall(un)
            root = 'p-1.0/'
            files = set()
            for dp, dn, fn in os.walk(un):
                for f in fn:
                    files.add(os.path.relpath(os.path.join(dp, f), un))
            outside = sorted(f for f in files if not f.startswith(root))
            if outside:
                return self.fail(case, raw, 'members_below_the_project_prefix', outside=outside)
            members = {f[len(root):] for f in files}
            missing = sorted(f for f, want in FILES.items() if want is True and f not in members)
            unexpected = sorted(f for f in members if FILES.get(f, False) is False)
            if missing or unexpected:
                return self.fail(case, raw, 'exactly_the_files_the_build_reads', missing=missing, unexpected=unexpected)
            # the unpacked archive configures, and the distributed targets build
            b2 = top + '/b2'
            r = run(conf + [un + '/p-1.0', b2])
            if r.returncode != 0:
                return self.fail(case, raw, 'unpacked_archive_configures', stderr=r.stderr[-500:])
            r = run(['make', '-C', b2, 'e1', 'sub/subprog', 'out.txt', 'data/copy me.txt', 'stamp.txt'])
            if r.returncode != 0:
                return self.fail(case, raw, 'unpacked_archive_builds_the_distributed_targets', output=(r.stdout + r.stderr)[-600:])
            return True
        finally:
            shutil.rmtree(top, ignore_errors=True)


def registry():
    return [DistArchive()]
