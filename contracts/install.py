"""C15: mapping from built files to installed files, and install/uninstall symmetry (bounded stand-ins)."""
import itertools as _it
from contracts.bounded_cmd import Bounded

import bfg9000.builtins.install as INST
from bfg9000 import file_types as FT
from bfg9000.path import Path, Root, InstallRoot


class FakeEnv:
    pass


def mk(kind, suffix, root=Root.builddir):
    p = Path(suffix, root)
    if kind == 'exe':
        return FT.Executable(p, 'elf', 'c')
    if kind == 'shared':
        return FT.SharedLibrary(p, 'elf', 'c')
    if kind == 'static':
        return FT.StaticLibrary(p, 'elf', 'c')
    if kind == 'header':
        return FT.HeaderFile(p, 'c')
    if kind == 'man':
        return FT.ManPage(p, '1')
    raise ValueError(kind)


EXPECT_ROOT = {'exe': InstallRoot.bindir, 'shared': InstallRoot.libdir, 'static': InstallRoot.libdir,
               'header': InstallRoot.includedir, 'man': InstallRoot.mandir}


class InstallMapping(Bounded):
    """installify / InstallOutputs.add on the real file classes: every file goes to DESTDIR + the directory of its
    kind (or the given directory below it), named by its install suffix; run-time dependencies are added too;
    external files are refused; a second, different destination for the same file is an error; and the paths
    removed by uninstall are exactly the destinations install writes."""
    target = 'bfg9000/builtins/install.py::installify'
    properties = ('C15',)
    reason = 'file_types clone() machinery and getattr-based kind tables: runtime contract only'
    NAMES = ['prog', 'sub/prog', 'x y/tool', 'lib/libz.so', 'inc/a b.h', 'man/foo.1']

    def native_inputs(self, case, alphabet, maxlen, rng, extra=0):
        for kind in EXPECT_ROOT:
            for n in self.NAMES:
                if kind == 'man' and not n.endswith('.1'):
                    continue
                for d in (None, 'custom', 'c d/e'):
                    yield {'kind': kind, 'name': n, 'directory': d}
        yield {'kind': 'exe', 'name': 'prog', 'directory': None, 'dep': 'lib/libz.so'}
        yield {'kind': 'exe', 'name': '/usr/bin/true', 'directory': None, 'external': True}
        yield {'kind': 'exe', 'name': 'prog', 'directory': None, 'readd': 'other'}

    def native_check(self, case, raw):
        kind = raw['kind']
        if raw.get('external'):
            f = mk(kind, raw['name'], Root.absolute)
            try:
                INST.installify(f)
                return self.fail(case, raw, 'external_files_are_refused')
            except ValueError:
                return True
        f = mk(kind, raw['name'])
        io = INST.InstallOutputs(None)
        if raw.get('dep'):
            dep = mk('shared', raw['dep'])
            f.runtime_deps.append(dep)
        t = io.add(f, raw['directory'])
        root = EXPECT_ROOT[kind]
        want_root = Path(raw['directory'], root) if raw['directory'] else root
        want = Path(f.install_suffix, want_root, destdir=True)
        got = io.host[f].path
        base = {r: Path('/p/' + r.name, Root.absolute) for r in InstallRoot}
        if got != want or not got.destdir or got.string(base) != want.string(base):
            return self.fail(case, raw, 'installed_under_the_directory_of_its_kind', got=repr(got), expected=repr(want))
        if raw.get('dep'):
            if dep not in io.host or io.host[dep].path.root != InstallRoot.libdir:
                return self.fail(case, raw, 'run_time_dependencies_installed_too')
        if raw.get('readd'):
            try:
                io.add(f, raw['readd'])
                return self.fail(case, raw, 'second_destination_for_the_same_file_rejected')
            except ValueError:
                pass
        # uninstall removes exactly what install wrote

        class Rm:
            def __call__(self, paths):
                return list(paths)

        class Env:
            def tool(self, name):
                return Rm()
        removed = INST._uninstall_files(io, Env())
        removed = removed[0] if removed else []
        installed = [h.path for h in io.host.values()]
        if sorted(map(repr, removed)) != sorted(map(repr, installed)):
            return self.fail(case, raw, 'uninstall_removes_exactly_the_installed_paths', removed=list(map(repr, removed)),
                             installed=list(map(repr, installed)))
        return True


# ---- the real install / uninstall targets, run by GNU make with the real doppel and patchelf (bounded) --------------

import os as _os

BUILD_BFG = """
project('p', version='1.0')
lib = shared_library('sub/shlib', files=['lib.c'])
st = static_library('stlib', files=['st.c'])
%(pre)s
exe = executable('prog', files=['main.c'], libs=[%(libs)s])
hdr = header_file('api.h')
hdir = header_directory('include', include='**/*.hpp')
hnone = header_directory('include2', include='*.zzz')
hone = header_directory('include3', include='*.h')
man = man_page('prog.1')
man2 = man_page('doc/tool.1')
install(exe, st, hdr, hdir, hnone, hone, man, man2)
install(generic_file('data.txt'), directory=Path('share/p data', InstallRoot.prefix))
install(directory('data dir', include='**'), directory=Path('share/p data/tree', InstallRoot.prefix))
"""

CONFIGS = {
    # name: (configure options with {top}, DESTDIR with {top} or None, prebuilt source-tree library?)
    'in-place': (['--prefix={top}/pre fix'], None, False),
    'exec-prefix': (['--prefix={top}/pre', '--exec-prefix={top}/ex ec'], None, False),
    'destdir': (['--prefix=/opt/my pre', '--exec-prefix=/opt/ex'], '{top}/dest dir', False),
    'dirs': (['--prefix=/usr/local', '--bindir=/cb in', '--libdir=/cl ib', '--includedir=/ci nc', '--mandir=/cm an'],
             '{top}/dd', False),
    'prebuilt-lib': (['--prefix={top}/pre'], None, True),
    'prebuilt-only': (['--prefix={top}/pre'], None, 'only'),
    # the build files are those of a regeneration from the saved configuration (default exec-prefix: "same as prefix")
    'regenerated': (['--prefix=/opt/my pre'], '{top}/dest dir', False, 'regenerate'),
    'regenerated-in-place': (['--prefix={top}/pre fix', '--libdir={top}/l ib'], None, False, 'regenerate'),
}


PROJECTS = {
    # a dual-use library that needs another one: both halves and the dependencies of both halves are installed
    'dual-use': ("""
bar = library('bar', files=['bar.c'])
foo = library('foo', files=['foo.c'], libs=[bar])
install(foo)
""", {'bar.c': 'int bar(void) { return 1; }\n', 'foo.c': 'int bar(void); int foo(void) { return bar(); }\n'},
                 ['--enable-shared', '--enable-static'], {}, ['libfoo.so', 'libfoo.a', 'libbar.so', 'libbar.a'], []),
    # only the program is installed; its library and that library's prebuilt dependency come along, and every
    # installed binary has installed search paths
    'implicit-chain': ("""
pre = shared_library('prebuilt/libpre.so')
a = shared_library('sub/a', files=['a.c'], libs=[pre])
exe = executable('prog', files=['main.c'], libs=[a])
install(exe)
""", {'a.c': 'int h(void); int a_fn(void) { return h(); }\n', 'main.c': 'int a_fn(void); int main(void) { return a_fn(); }\n'},
                       [], {'prebuilt/libpre.so': 'int h(void) { return 0; }\n'}, ['liba.so', 'libpre.so'], ['prog']),
    # a versioned library: the program is installed alone; what the loader looks up (the soname) and the real file come along
    'versioned-dependency': ("""
foo = shared_library('foo', files=['foo.c'], version='1.2.3', soversion='1')
exe = executable('prog', files=['main.c'], libs=[foo])
install(exe)
""", {'foo.c': 'int foo(void) { return 0; }\n', 'main.c': 'int foo(void); int main(void) { return foo(); }\n'},
                             [], {}, ['libfoo.so.1', 'libfoo.so.1.2.3'], ['prog']),
    # a search directory the script asks for explicitly (valid before and after installation) survives the rewrite
    'explicit-search-directory': ("""
foo = shared_library('foo', files=['foo.c'])
exe = executable('prog', files=['main.c'], libs=[foo], link_options=[opts.rpath_dir(Path('/opt/vendor lib', Root.absolute))])
install(exe)
""", {'foo.c': 'int foo(void) { return 0; }\n', 'main.c': 'int foo(void); int main(void) { return foo(); }\n'},
                                  [], {}, ['libfoo.so'], ['prog'], {'prog': ['/opt/vendor lib']}),
}


def _w(p, text):
    _os.makedirs(_os.path.dirname(p), exist_ok=True)
    with open(p, 'w') as f:
        f.write(text)


class InstallRun(Bounded):
    """A generated project (executable linked to a project shared library in a subdirectory, static library, header,
    header directory with an include pattern, one whose pattern matches nothing and one with a single match, man page, data file
    with directory=) configured by the tree under test and installed / uninstalled by GNU make with the real doppel
    and patchelf: the installed file set is exactly the declared one under the configured directories (DESTDIR
    honoured), run-time search paths of the installed program name installed library directories only, the installed
    program runs when no DESTDIR is used, and uninstall leaves no file behind."""
    target = 'bfg9000/builtins/install.py::_install_files'
    properties = ('C15',)
    reason = 'whole configure pipeline plus external make, doppel, patchelf, cc: runtime contract with the real tools'
    native_chunk = 1

    def native_inputs(self, case, alphabet, maxlen, rng, extra=0):
        for k in CONFIGS:
            yield {'config': k}
        for k in PROJECTS:
            yield {'project': k}

    def check_project(self, case, raw):
        """Small projects with their own expected file set: name -> (build.bfg, sources, configure options, prebuilt
        libraries, expected installed base names under libdir / bindir)."""
        import shutil, subprocess, tempfile
        from pyvc.interp import REPO
        body, sources, opts, prebuilt, want_lib, want_bin = PROJECTS[raw['project']][:6]
        asked = PROJECTS[raw['project']][6] if len(PROJECTS[raw['project']]) > 6 else {}
        top = tempfile.mkdtemp(prefix='pyvc_inst_')
        try:
            src, b, prefix = top + '/src', top + '/b', top + '/pre'
            _w(src + '/build.bfg', "project('p')\n" + body)
            for k, v in sources.items():
                _w(src + '/' + k, v)
            env = dict(_os.environ, PATH=top + '/bin:/venv/bin:' + _os.environ['PATH'])
            for k in ('MAKEFLAGS', 'DESTDIR', 'LD_LIBRARY_PATH'):
                env.pop(k, None)

            def run(cmd, **kw):
                return subprocess.run(cmd, env=env, capture_output=True, text=True, timeout=300, **kw)
            for lib, csrc in prebuilt.items():
                _w(src + '/' + lib + '.c', csrc)
                if run(['cc', '-shared', '-fPIC', '-o', src + '/' + lib, src + '/' + lib + '.c']).returncode != 0:
                    return None
            for name, mod in (('bfg9000', 'bfg9000.driver'), ('bfg9000-depfixer', 'bfg9000.depfixer')):
                lp = top + '/bin/' + name
                _w(lp, "#!/bin/sh\nPYTHONPATH=%s exec /venv/bin/python -c 'import sys; sys.argv[0] = \"%s\"; "
                       "from %s import main; sys.exit(main())' \"$@\"\n" % (REPO, lp, mod))
                _os.chmod(lp, 0o755)
            r = run([top + '/bin/bfg9000', 'configure-into', src, b, '--backend=make', '--no-resolve-packages',
                     '--prefix=' + prefix] + opts)
            if r.returncode != 0:
                return self.fail(case, raw, 'configure_succeeds', stderr=r.stderr[-500:])
            r = run(['make', '-C', b, 'install'])
            if r.returncode != 0:
                return self.fail(case, raw, 'install_succeeds', output=(r.stdout + r.stderr)[-700:])
            found = {}
            for dp, dn, fn in _os.walk(prefix):
                for f in fn:
                    found[_os.path.join(dp, f)] = f
            libs = sorted(f for p_, f in found.items() if p_.startswith(prefix + '/lib/'))
            bins = sorted(f for p_, f in found.items() if p_.startswith(prefix + '/bin/'))
            if libs != sorted(want_lib) or bins != sorted(want_bin) or len(found) != len(want_lib) + len(want_bin):
                return self.fail(case, raw, 'exactly_the_declared_files_and_their_dependencies', libdir=libs, bindir=bins,
                                 expected_lib=sorted(want_lib), expected_bin=sorted(want_bin), all=sorted(found))
            libdirs = {_os.path.dirname(p_) for p_ in found if p_.startswith(prefix + '/lib/')}
            for p_ in found:
                if p_.endswith('.a'):
                    continue
                rp = run(['patchelf', '--print-rpath', p_])
                entries = [e for e in rp.stdout.strip().split(':') if e]
                extra_ok = asked.get(_os.path.basename(p_), [])
                if rp.returncode == 0 and (any(e not in libdirs and e not in extra_ok for e in entries) or
                                           any(e not in entries for e in extra_ok)):
                    return self.fail(case, raw, 'installed_search_paths_name_the_installed_library_directories',
                                     file=p_[len(prefix):], rpath=rp.stdout.strip(), allowed=sorted(libdirs), asked_for=extra_ok)
            shutil.rmtree(b)
            for lib in prebuilt:
                _os.remove(src + '/' + lib)
            for f in want_bin:
                pr = run([prefix + '/bin/' + f], cwd='/')
                if pr.returncode != 0:
                    return self.fail(case, raw, 'installed_program_runs', exit=pr.returncode, stderr=pr.stderr[-300:])
            return True
        finally:
            shutil.rmtree(top, ignore_errors=True)

    def native_check(self, case, raw):
        import shutil, subprocess, tempfile
        from pyvc.interp import REPO
        if 'project' in raw:
            return self.check_project(case, raw)
        opts, destdir, prebuilt = CONFIGS[raw['config']][:3]
        regenerate = len(CONFIGS[raw['config']]) > 3
        top = tempfile.mkdtemp(prefix='pyvc_inst_')
        try:
            src, b = top + '/src', top + '/b'
            _w(src + '/build.bfg', BUILD_BFG % {
                'pre': "pre = shared_library('prebuilt/libpre.so')" if prebuilt else '',
                'libs': {False: 'lib', True: 'lib, pre', 'only': 'pre'}[prebuilt]})
            _w(src + '/lib.c', 'int f(void) { return 7; }\n')
            _w(src + '/st.c', 'int g(void) { return 1; }\n')
            _w(src + '/main.c', {False: 'int f(void); int main(void) { return f() - 7; }\n',
                                 True: 'int f(void); int h(void); int main(void) { return f() - 7 + h(); }\n',
                                 'only': 'int h(void); int main(void) { return h(); }\n'}[prebuilt])
            for f in ('api.h', 'include/a.hpp', 'include/deep/b.hpp', 'include/notes.txt', 'include2/readme.txt',
                      'include3/only.h', 'data.txt', 'data dir/top.txt', 'data dir/sub/deep.txt'):
                _w(src + '/' + f, f)
            _w(src + '/prog.1', '.TH prog 1\n')
            _w(src + '/doc/tool.1', '.TH tool 1\n')
            env = dict(_os.environ, PATH=top + '/bin:/venv/bin:' + _os.environ['PATH'])
            env.pop('MAKEFLAGS', None)
            env.pop('DESTDIR', None)

            def run(cmd, **kw):
                return subprocess.run(cmd, env=env, capture_output=True, text=True, timeout=300, **kw)
            if prebuilt:
                _w(src + '/prebuilt/pre.c', 'int h(void) { return 0; }\n')
                r = run(['cc', '-shared', '-fPIC', '-o', src + '/prebuilt/libpre.so', src + '/prebuilt/pre.c'])
                if r.returncode != 0:
                    return None
            for name, mod in (('bfg9000', 'bfg9000.driver'), ('bfg9000-depfixer', 'bfg9000.depfixer')):
                lp = top + '/bin/' + name
                _w(lp, "#!/bin/sh\nPYTHONPATH=%s exec /venv/bin/python -c 'import sys; sys.argv[0] = \"%s\"; "
                       "from %s import main; sys.exit(main())' \"$@\"\n" % (REPO, lp, mod))
                _os.chmod(lp, 0o755)
            opts = [o.format(top=top) for o in opts]
            destdir = destdir.format(top=top) if destdir else None
            r = run([top + '/bin/bfg9000', 'configure-into', src, b, '--backend=make', '--no-resolve-packages'] + opts)
            if r.returncode != 0:
                return self.fail(case, raw, 'configure_succeeds', stderr=r.stderr[-500:])
            if regenerate:
                r = run([top + '/bin/bfg9000', 'regenerate', b])
                if r.returncode != 0:
                    return self.fail(case, raw, 'regeneration_succeeds', stderr=r.stderr[-500:])
            dd = ['DESTDIR=' + destdir] if destdir else []
            r = run(['make', '-C', b, 'install'] + dd)
            if r.returncode != 0:
                return self.fail(case, raw, 'install_succeeds', output=(r.stdout + r.stderr)[-700:])
            # expected layout, from the options
            o = {}
            for x in opts:
                k, v = x[2:].split('=', 1)
                o[k] = v
            prefix = o['prefix']
            ex = o.get('exec-prefix', prefix)
            dirs = {'bin': o.get('bindir', ex + '/bin'), 'lib': o.get('libdir', ex + '/lib'),
                    'include': o.get('includedir', prefix + '/include'), 'man': o.get('mandir', prefix + '/share/man')}
            root = destdir or ''
            found = set()
            scan = [root + d for d in set(dirs.values()) | {prefix}] if not destdir else [destdir]
            for sc in scan:
                for dp, dn, fn in _os.walk(sc):
                    for f in fn:
                        found.add(_os.path.join(dp, f)[len(root):])
            libs = [f for f in found if f.endswith('/libshlib.so')]
            if prebuilt == 'only':
                if libs:
                    return self.fail(case, raw, 'exactly_the_declared_files_under_the_configured_directories', unexpected=libs)
            elif len(libs) != 1 or not libs[0].startswith(dirs['lib'] + '/'):
                return self.fail(case, raw, 'run_time_dependency_installed_under_libdir', found=sorted(found), libdir=dirs['lib'])
            want = {dirs['bin'] + '/prog', dirs['lib'] + '/libstlib.a', dirs['include'] + '/api.h',
                    dirs['include'] + '/a.hpp', dirs['include'] + '/deep/b.hpp', dirs['include'] + '/only.h',
                    prefix + '/share/p data/data.txt', prefix + '/share/p data/tree/top.txt',
                    prefix + '/share/p data/tree/sub/deep.txt'} | set(libs)
            # manual pages go to man<section>/ by their base name (compressed or not), whatever directory they came from
            mans = {f for f in found if f.startswith(dirs['man'] + '/man1/prog.1') or f.startswith(dirs['man'] + '/man1/tool.1')}
            pre = {f for f in found if f.endswith('/libpre.so')}
            if prebuilt and not (len(pre) == 1 and list(pre)[0].startswith(dirs['lib'] + '/')):
                return self.fail(case, raw, 'run_time_dependency_installed_under_libdir', found=sorted(found), which='libpre.so')
            if len(mans) != 2 or found - mans - pre != want:
                return self.fail(case, raw, 'exactly_the_declared_files_under_the_configured_directories',
                                 unexpected=sorted(found - mans - pre - want), missing=sorted(want - found), man=sorted(mans))
            prog = root + dirs['bin'] + '/prog'
            rp = run(['patchelf', '--print-rpath', prog])
            allowed = {_os.path.dirname(x) for x in libs} | {_os.path.dirname(x) for x in pre}
            entries = [e for e in rp.stdout.strip().split(':') if e]
            if rp.returncode != 0 or not entries or any(e not in allowed for e in entries) or \
                    any(_os.path.dirname(x) not in entries for x in libs):
                return self.fail(case, raw, 'installed_search_paths_name_the_installed_library_directories',
                                 rpath=rp.stdout.strip(), allowed=sorted(allowed))
            if not destdir:
                shutil.rmtree(b + '/sub', ignore_errors=True)       # the build-tree copy must not be what is found
                pr = run([prog])
                if pr.returncode != 0:
                    return self.fail(case, raw, 'installed_program_runs', exit=pr.returncode, stderr=pr.stderr[-300:])
            r = run(['make', '-C', b, 'uninstall'] + dd)
            left = []
            for sc in scan:
                for dp, dn, fn in _os.walk(sc):
                    left += [_os.path.join(dp, f)[len(root):] for f in fn]
            if r.returncode != 0 or left:
                return self.fail(case, raw, 'uninstall_removes_every_installed_file', left=sorted(left),
                                 output=(r.stdout + r.stderr)[-300:])
            return True
        finally:
            shutil.rmtree(top, ignore_errors=True)


def registry():
    return [InstallMapping(), InstallRun()]
