"""C15: mapping from built files to installed files, and install/uninstall symmetry (bounded stand-ins)."""
import itertools as _it
from contracts.bounded_cmd import Bounded

import bfg9000.builtins.install as INST
from bfg9000 import file_types as FT
from bfg9000.path import Path, Root, InstallRoot


class FakeEnv:
    pass


def mk(kind, suffix, root=Root.builddir):
    p = Path(suffix, root)
    if kind == 'exe':
        return FT.Executable(p, 'elf', 'c')
    if kind == 'shared':
        return FT.SharedLibrary(p, 'elf', 'c')
    if kind == 'static':
        return FT.StaticLibrary(p, 'elf', 'c')
    if kind == 'header':
        return FT.HeaderFile(p, 'c')
    if kind == 'man':
        return FT.ManPage(p, '1')
    raise ValueError(kind)


EXPECT_ROOT = {'exe': InstallRoot.bindir, 'shared': InstallRoot.libdir, 'static': InstallRoot.libdir,
               'header': InstallRoot.includedir, 'man': InstallRoot.mandir}


class InstallMapping(Bounded):
    """installify / InstallOutputs.add on the real file classes: every file goes to DESTDIR + the directory of its
    kind (or the given directory below it), named by its install suffix; run-time dependencies are added too;
    external files are refused; a second, different destination for the same file is an error; and the paths
    removed by uninstall are exactly the destinations install writes."""
    target = 'bfg9000/builtins/install.py::installify'
    properties = ('C15',)
    reason = 'file_types clone() machinery and getattr-based kind tables: runtime contract only'
    NAMES = ['prog', 'sub/prog', 'x y/tool', 'lib/libz.so', 'inc/a b.h', 'man/foo.1']

    def native_inputs(self, case, alphabet, maxlen, rng, extra=0):
        for kind in EXPECT_ROOT:
            for n in self.NAMES:
                if kind == 'man' and not n.endswith('.1'):
                    continue
                for d in (None, 'custom', 'c d/e'):
                    yield {'kind': kind, 'name': n, 'directory': d}
        yield {'kind': 'exe', 'name': 'prog', 'directory': None, 'dep': 'lib/libz.so'}
        yield {'kind': 'exe', 'name': '/usr/bin/true', 'directory': None, 'external': True}
        yield {'kind': 'exe', 'name': 'prog', 'directory': None, 'readd': 'other'}

    def native_check(self, case, raw):
        kind = raw['kind']
        if raw.get('external'):
            f = mk(kind, raw['name'], Root.absolute)
            try:
                INST.installify(f)
                return self.fail(case, raw, 'external_files_are_refused')
            except ValueError:
                return True
        f = mk(kind, raw['name'])
        io = INST.InstallOutputs(None)
        if raw.get('dep'):
            dep = mk('shared', raw['dep'])
            f.runtime_deps.append(dep)
        t = io.add(f, raw['directory'])
        root = EXPECT_ROOT[kind]
        want_root = Path(raw['directory'], root) if raw['directory'] else root
        want = Path(f.install_suffix, want_root, destdir=True)
        got = io.host[f].path
        base = {r: Path('/p/' + r.name, Root.absolute) for r in InstallRoot}
        if got != want or not got.destdir or got.string(base) != want.string(base):
            return self.fail(case, raw, 'installed_under_the_directory_of_its_kind', got=repr(got), expected=repr(want))
        if raw.get('dep'):
            if dep not in io.host or io.host[dep].path.root != InstallRoot.libdir:
                return self.fail(case, raw, 'run_time_dependencies_installed_too')
        if raw.get('readd'):
            try:
                io.add(f, raw['readd'])
                return self.fail(case, raw, 'second_destination_for_the_same_file_rejected')
            except ValueError:
                pass
        # uninstall removes exactly what install wrote

        class Rm:
            def __call__(self, paths):
                return list(paths)

        class Env:
            def tool(self, name):
                return Rm()
        removed = INST._uninstall_files(io, Env())
        removed = removed[0] if removed else []
        installed = [h.path for h in io.host.values()]
        if sorted(map(repr, removed)) != sorted(map(repr, installed)):
            return self.fail(case, raw, 'uninstall_removes_exactly_the_installed_paths', removed=list(map(repr, removed)),
                             installed=list(map(repr, installed)))
        return True


def registry():
    return [InstallMapping()]
