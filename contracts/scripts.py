"""C19: project-defined arguments (--x- aliases), script isolation, path stack."""
import ast
import itertools as _it
import z3
from pyvc import terms as T
from pyvc.contract import Contract, Args
from pyvc.values import Sym, Obj, PList, PDict, fresh_sym
from pyvc import models as MD
from pyvc.interp import fn_source
from contracts.bounded_cmd import Bounded

import bfg9000.arguments.parser as AP
import bfg9000.build as B


class AddUserArgument(Contract):
    """add_user_argument: option strings must start with `--` and must not use the reserved `--x-` prefix
    (ValueError otherwise); when parsing, every `--name` is registered together with its `--x-name` alias, in one
    add_argument call with the caller's keyword arguments."""
    target = 'bfg9000/arguments/parser.py::add_user_argument'
    properties = ('C19',)

    def cases(self):
        return ['parse/1', 'parse/2', 'help/1']

    def params(self, cx, case):
        usage, n = case.split('/')
        names = tuple(cx.str('name%d' % i) for i in range(int(n)))
        cx.ghost('names', names)
        return {'parser': Obj(AP.ArgumentParser, {'usage': usage}), '*args': names}

    def bad(self, a):
        cs = []
        for nme in a.names:
            s = MD.sym_str(nme)
            cs.append(z3.Not(z3.PrefixOf(T.lit('--'), s)))
            cs.append(z3.PrefixOf(T.lit('--x-'), s))
        return z3.Or(*cs)

    def raises(self, a):
        return [(ValueError, self.bad(a))]

    def opaque_calls(self):
        def add_argument(I, args, kwargs, node):
            I.events.append(('add_argument', args[1:], dict(kwargs)))
            return Obj(object, {'tag': 'action'})
        import argparse
        return {argparse._ActionsContainer.add_argument: add_argument}

    def ensures(self, a, r):
        ev = [e for e in a.events if e[0] == 'add_argument']
        out = {'one_registration': z3.BoolVal(len(ev) == 1)}
        if len(ev) != 1:
            return out
        got = ev[0][1]
        parse = a.parser.attrs['usage'] == 'parse'
        want = [MD.sym_str(n) for n in a.names]
        if parse:
            want += [T.cat(T.lit('--x-'), z3.Extract(MD.sym_str(n), z3.IntVal(2), z3.Length(MD.sym_str(n)) - 2)) for n in a.names]
        ok = len(got) == len(want)
        out['registered_strings_are_the_names_and_their_x_aliases'] = (
            T.AND(*[MD.sym_str(g) == w for g, w in zip(got, want)]) if ok else z3.BoolVal(False))
        return out


class ScriptGlobals(Contract):
    """build._execute_script: the globals mapping handed to exec() is a dict display created anew at every call and
    containing only `__file__` and `__builtins__` -- so no variable assigned by one script is visible in another.
    This is a *syntactic* obligation on the function's AST (no solver needed): it holds for every execution."""
    target = 'bfg9000/build.py::_execute_script'
    properties = ('C19',)
    syntactic = True

    def syntactic_obligations(self):
        fnode, clsname, qual, path = fn_source(self.fn)
        execs = [n for n in ast.walk(fnode) if isinstance(n, ast.Call) and isinstance(n.func, ast.Name) and n.func.id == 'exec']
        out = {'exactly_one_exec_call': len(execs) == 1}
        if len(execs) == 1:
            c = execs[0]
            g = c.args[1] if len(c.args) >= 2 else None
            out['globals_is_a_fresh_dict_display'] = isinstance(g, ast.Dict) and len(c.args) == 2 and not c.keywords
            if isinstance(g, ast.Dict):
                keys = [k.value if isinstance(k, ast.Constant) else None for k in g.keys]
                out['globals_has_only_file_and_builtins'] = sorted(map(str, keys)) == ['__builtins__', '__file__']
                out['no_name_other_than_the_context_builtins_leaks_in'] = all(
                    not isinstance(v, ast.Name) for v in g.values)
        return out


class UserArguments(Bounded):
    """Real ArgumentParser: every declared user argument accepts the plain and the --x- spelling with the same
    result, for plain values, enable/disable and with/without pairs."""
    target = 'bfg9000/arguments/parser.py::ToggleAction.__call__'
    properties = ('C19',)
    reason = 'argparse dispatch (library) and a regex outside the supported families in ToggleAction._prefix'

    def native_inputs(self, case, alphabet, maxlen, rng, extra=0):
        for name in ['foo', 'foo-bar', 'x', 'xfoo', 'enable', 'x-ray'[2:]]:
            for kind in ('store', 'enable', 'with'):
                yield {'name': name, 'kind': kind}

    def native_check(self, case, raw):
        name, kind = raw['name'], raw['kind']
        p = AP.ArgumentParser()
        g = p.add_argument_group('user')
        g.usage = 'parse'
        if kind == 'store':
            AP.add_user_argument(g, '--' + name, dest='v')
            pairs = [(['--%s=1' % name], '1'), (['--x-%s=1' % name], '1')]
        else:
            AP.add_user_argument(g, '--' + name, action=kind, dest='v')
            pos, neg = ('enable', 'disable') if kind == 'enable' else ('with', 'without')
            pairs = [(['--%s-%s' % (pos, name)], True), (['--x-%s-%s' % (pos, name)], True),
                     (['--%s-%s' % (neg, name)], False), (['--x-%s-%s' % (neg, name)], False)]
        for argv, want in pairs:
            try:
                ns = p.parse_args(argv)
            except SystemExit:
                return self.fail(case, raw, 'both_spellings_accepted', argv=argv)
            if ns.v != want:
                return self.fail(case, raw, 'both_spellings_same_value', argv=argv, got=ns.v, expected=want)
        for bad in ('--x-' + name, name):
            try:
                AP.add_user_argument(g, bad, dest='w')
                return self.fail(case, raw, 'reserved_or_malformed_name_rejected', name=bad)
            except ValueError:
                pass
        return True


class PathStack(Bounded):
    """StackContext.push_path: after the with-block (normal or exceptional exit) the stack is what it was; every
    pushed path is recorded once in seen_paths; exports are refused at depth 1 and fresh per entry."""
    target = 'bfg9000/builtins/builtin.py::StackContext.push_path'
    properties = ('C19', 'C08')
    reason = 'context-manager generator with try/finally: outside the subset'

    def native_inputs(self, case, alphabet, maxlen, rng, extra=0):
        for depth in (1, 2, 3, 4):
            for fail_at in (None,) + tuple(range(1, depth + 1)):
                yield {'depth': depth, 'fail_at': fail_at}

    def native_check(self, case, raw):
        from bfg9000.builtins.builtin import StackContext
        from bfg9000.path import Path

        class Ctx(StackContext):
            kind = 'build'

            def __init__(self):
                self.seen_paths = []
                self.path_stack = []
                self.builtins = {}
        ctx = Ctx()
        paths = [Path('d%d/build.bfg' % i) for i in range(raw['depth'])]
        exports_seen = []

        def go(i):
            if i == raw['depth']:
                return
            before = list(ctx.path_stack)
            try:
                with ctx.push_path(paths[i]):
                    if ctx.path != paths[i]:
                        raise AssertionError('path')
                    if i == 0:
                        try:
                            ctx.exports
                            raise AssertionError('exports allowed at root')
                        except ValueError:
                            pass
                    else:
                        e = ctx.exports
                        if e:
                            raise AssertionError('exports not fresh')
                        e['k%d' % i] = i
                        exports_seen.append(e)
                    if raw['fail_at'] == i + 1:
                        raise RuntimeError('script failed')
                    go(i + 1)
            finally:
                if ctx.path_stack != before:
                    raise AssertionError('stack not restored at depth %d' % i)
        try:
            go(0)
        except RuntimeError:
            pass
        except AssertionError as e:
            return self.fail(case, raw, 'path_stack_discipline', error=str(e))
        if ctx.path_stack:
            return self.fail(case, raw, 'path_stack_discipline', error='stack not empty at the end')
        n_expected = raw['depth'] if raw['fail_at'] is None else raw['fail_at']
        if ctx.seen_paths != paths[:n_expected]:
            return self.fail(case, raw, 'every_executed_script_recorded_once', seen=[p.suffix for p in ctx.seen_paths])
        return True


# ---- whole script trees through the real configure pipeline (bounded) --------------------------------------------

TREES = {
    # name -> {script dir: [submodule() arguments, in call order]}
    'chain2': {'': ['a'], 'a': []},
    'chain3': {'': ['a'], 'a': ['b'], 'a/b': []},
    'chain4': {'': ['a'], 'a': ['b'], 'a/b': ['c'], 'a/b/c': []},
    'sibling-twice': {'': ['a', 'b'], 'a': ['../b'], 'b': []},
    'parent-ref': {'': ['a'], 'a': ['../c'], 'c': ['d'], 'c/d': []},
    'wide': {'': ['a', 'b'], 'a': [], 'b': ['x y'], 'b/x y': []},
}
OUTPUT_BUILTINS = {
    # builtin -> script text producing `t` (an output file declared in the script's own directory)
    'copy_file': "t = copy_file('in.txt')",
    'build_step': "t = build_step('gen.txt', cmd=['touch', 'gen.txt'])",
    'object_file': "t = object_file(file='in.c')",
    'executable': "t = executable('prog', files=['in.c'])",
    'static_library': "t = static_library('lb', files=['in.c'])",
    # every file of a versioned library (the real file, the soname link, the link name)
    'versioned_shared_library': "t = shared_library('ver', files=['in.c'], version='1.2.3', soversion='1')",
    'generated_source': "t = generated_source(file='in.l')",
}


def _norm(parent, ref):
    import posixpath
    return posixpath.normpath(posixpath.join(parent, ref)).lstrip('./') if posixpath.join(parent, ref) else ''


def run_configure(files, extra_args):
    """Real Environment + build.configure_build over a temporary source tree; returns env.trace."""
    import os, shutil, tempfile, traceback
    from bfg9000 import build
    from bfg9000.environment import Environment
    from bfg9000.path import InstallRoot, abspath
    top = tempfile.mkdtemp(prefix='pyvc_scripts_')
    try:
        srcdir, builddir = os.path.join(top, 'src'), os.path.join(top, 'build')
        os.makedirs(builddir)
        for name, text in files.items():
            fp = os.path.join(srcdir, name)
            os.makedirs(os.path.dirname(fp), exist_ok=True)
            with open(fp, 'w') as f:
                f.write(text)
        env = Environment(abspath(os.path.join(top, 'bfgdir')), None, None, abspath(srcdir), abspath(builddir))
        env.finalize({InstallRoot.prefix: abspath(os.path.join(top, 'pre'))}, (False, False), False,
                     extra_args=extra_args)
        env.trace = []
        try:
            build.configure_build(env)
        except BaseException:          # noqa
            env.trace.append(('FAILED', traceback.format_exc(limit=-3)))
        return env.trace
    finally:
        shutil.rmtree(top)


class ScriptTree(Bounded):
    """Trees of build.bfg / options.bfg scripts through the real configure_build: each script runs once per
    submodule() call, in call order, in the context kind of its caller; what a script exports reaches exactly the
    script that called it; no variable of one script is visible in another; input paths are relative to the script's
    source directory and output paths to the matching build directory; arguments declared in nested options.bfg files
    are usable and have the given values in every build script."""
    native_chunk = 1
    target = 'bfg9000/builtins/core.py::submodule'
    properties = ('C19', 'C08')
    reason = 'exec() of script text, context managers and the whole builtin layer: runtime contract only'

    INPUT_BUILTINS = {
        # builtin -> script text producing the list `ins` of input file objects named by plain strings in the script
        'source-list': "t = executable('prog', files=['in.c'])\nins = [t.creator.files[0].creator.file]",
        'copy_file': "t = copy_file('in.txt')\nins = [t.creator.file]",
        'includes': "t = object_file(file='in.c', includes=['inc'])\nins = [t.creator.includes[0]]",
        'man_page': "t = man_page('tool.1', compress=False)\nins = [t]",
        'extra_deps-of-a-library': "t = static_library('lb', files=['in.c'], extra_deps=['in.txt'])\nins = list(t.creator.extra_deps)",
        'extra_deps-of-a-step': "t = build_step('gen2.txt', cmd=['touch', 'gen2.txt'], extra_deps=['in.txt'])\nins = list(t.creator.extra_deps)",
    }

    def cases(self):
        return ['build', 'options', 'outputs', 'inputs']

    def case_in_property(self, case, pid):
        return case == 'build' if pid == 'C08' else True

    def native_inputs(self, case, alphabet, maxlen, rng, extra=0):
        if case == 'outputs':
            for b in OUTPUT_BUILTINS:
                for d in ('a', 'a/b'):
                    yield {'builtin': b, 'dir': d}
            return
        if case == 'inputs':
            for b in self.INPUT_BUILTINS:
                for d in ('a', 'a/b'):
                    yield {'builtin': b, 'dir': d}
            return
        for name in TREES:
            yield {'tree': name}
        if extra:
            # thorough tier: random trees (depth <= 4, up to three children, `../leaf-sibling` references)
            for t in range(20):
                tree = {'': []}
                frontier = ['']
                for depth in range(rng.randint(1, 4)):
                    nxt = []
                    for d in frontier:
                        kids = [rng.choice(('a', 'b', 'c d', 'e.f')) for _ in range(rng.randint(0, 3 if depth == 0 else 2))]
                        for k in dict.fromkeys(kids):
                            child = (d + '/' if d else '') + k
                            tree[d].append(k)
                            tree[child] = []
                            nxt.append(child)
                    frontier = nxt
                for d in list(tree):
                    sib = [o for o in tree if o and o != d and o.rsplit('/', 1)[0] == (d.rsplit('/', 1)[0] if '/' in d else '')
                           and ('/' in o) == ('/' in d) and not tree[o] and d]
                    if sib and rng.random() < 0.4 and d.count('/') == sib[0].count('/'):
                        tree[d].append('../' + sib[0].rsplit('/', 1)[-1])
                if len(tree) > 1:
                    yield {'tree': 'random-%d' % t, 'spec': tree}

    @staticmethod
    def expected(tree, d, acc):
        """DFS in call order: (dir, [exports received per call])."""
        idx = len(acc)
        acc.append(None)
        got = []
        for ref in tree[d]:
            child = _norm(d, ref)
            ScriptTree.expected(tree, child, acc)
            got.append({'from': child})
        acc[idx] = (d, got)
        return acc

    def native_check(self, case, raw):
        if case == 'outputs':
            return self.check_outputs(case, raw)
        if case == 'inputs':
            return self.check_inputs(case, raw)
        tree = raw.get('spec') or TREES[raw['tree']]
        fname = 'build.bfg' if case == 'build' else 'options.bfg'
        files = {}
        visits = []
        self.expected(tree, '', visits)
        once = {d for d in tree if sum(1 for v in visits if v[0] == d) == 1}
        for d, subs in tree.items():
            var = 'v_' + ''.join(ch if ch.isalnum() else '_' for ch in d)
            lines = ['%s = 1' % var, 'got = []']
            for ref in subs:
                lines.append('got.append(dict(submodule(%r)))' % ref)
            others = [k for k in ('v_' + ''.join(ch if ch.isalnum() else '_' for ch in o) for o in tree) if k != var]
            lines.append('leaked = sorted(set(%r) & set(globals()))' % others)
            lines.append("src = relpath('in.txt')")
            lines.append('env.trace.append((%r, %r, got, leaked, src.suffix, str(src.root)))' % (case, d))
            if d:
                # (exporting a name again replaces the earlier value: the caller sees the last one)
                lines.append('export(**{"from": "an earlier value"})')
                lines.append('export(**{"from": %r})' % d)
            if case == 'options' and d in once:      # declaring the same argument twice is (rightly) an error
                lines.append('argument(%r, default="unset")' % ('arg-' + var.replace('_', '-')))
            files[(d + '/' if d else '') + fname] = '\n'.join(lines) + '\n'
            files[(d + '/' if d else '') + 'in.txt'] = ''
        argv = []
        if case == 'options':
            # the build scripts only report the argument values they see
            args = ['arg_' + 'v_' + ''.join(ch if ch.isalnum() else '_' for ch in d) for d in tree if d in once]
            files['build.bfg'] = 'env.trace.append(("argv", {k: getattr(argv, k, None) for k in %r}))\n' % args
            argv = ['--x-%s=%d' % (a.replace('_', '-'), i) for i, a in enumerate(args)]
        trace = run_configure(files, argv)
        if any(t[0] == 'FAILED' for t in trace):
            return self.fail(case, raw, 'configure_succeeds', error=[t[1] for t in trace if t[0] == 'FAILED'][0][-600:])
        want = []
        self.expected(tree, '', want)
        # scripts report when they *finish*: post-order of the expected DFS
        def post(d, out):
            for ref in tree[d]:
                post(_norm(d, ref), out)
            out.append(d)
            return out
        order = post('', [])
        runs = [t for t in trace if t[0] == case]
        if [t[1] for t in runs] != order:
            return self.fail(case, raw, 'each_submodule_call_runs_the_callees_script_of_the_same_kind',
                             ran=[t[1] for t in runs], expected=order)
        for t in runs:
            d = t[1]
            exp_got = [{'from': _norm(d, ref)} for ref in tree[d]]
            if t[2] != exp_got:
                return self.fail(case, raw, 'exports_reach_exactly_the_caller', script=d, received=t[2], expected=exp_got)
            if t[3]:
                return self.fail(case, raw, 'no_variable_visible_in_another_script', script=d, leaked=t[3])
            if (t[4], t[5]) != ((d + '/' if d else '') + 'in.txt', 'Root.srcdir'):
                return self.fail(case, raw, 'input_path_relative_to_the_scripts_source_directory', script=d, path=t[4:6])
        if case == 'options':
            seen = [t for t in trace if t[0] == 'argv']
            exp = {a: str(i) for i, a in enumerate(args)}
            if len(seen) != 1 or seen[0][1] != exp:
                return self.fail(case, raw, 'nested_arguments_have_the_configured_values', seen=seen, expected=exp)
        return True

    def check_outputs(self, case, raw):
        b, d = raw['builtin'], raw['dir']
        parts = d.split('/')
        files = {'in.txt': '', 'in.c': ''}
        for i in range(len(parts)):
            here = '/'.join(parts[:i])
            files[(here + '/' if here else '') + 'build.bfg'] = 'submodule(%r)\n' % parts[i]
        files[d + '/in.txt'] = ''
        files[d + '/in.c'] = 'int main() { return 0; }\n'
        files[d + '/in.l'] = ''
        files[d + '/build.bfg'] = (OUTPUT_BUILTINS[b] + '\n' +
                                   'seen = [t] + list(t.creator.output)\n'
                                   'for o in list(seen):\n'
                                   '    seen += [getattr(o, k) for k in ("soname", "link", "runtime_file") if getattr(o, k, None) is not None]\n'
                                   'for o in seen:\n'
                                   '    env.trace.append(("out", o.path.suffix, str(o.path.root)))\n')
        trace = run_configure(files, [])
        if any(t[0] == 'FAILED' for t in trace):
            return self.fail(case, raw, 'configure_succeeds', error=[t[1] for t in trace if t[0] == 'FAILED'][0][-600:])
        out = [t for t in trace if t[0] == 'out']
        if not out or any(o[2] != 'Root.builddir' or not o[1].startswith(d + '/') for o in out):
            return self.fail(case, raw, 'output_path_in_the_matching_build_subdirectory', got=out)
        return True


def _check_inputs(self, case, raw):
    b, d = raw['builtin'], raw['dir']
    files = {}
    parts = d.split('/')
    for i in range(len(parts)):
        here = '/'.join(parts[:i])
        files[(here + '/' if here else '') + 'build.bfg'] = 'submodule(%r)\n' % parts[i]
    files[d + '/in.txt'] = ''
    files[d + '/in.c'] = 'int main() { return 0; }\n'
    files[d + '/inc/h.h'] = ''
    files[d + '/tool.1'] = ''
    files[d + '/build.bfg'] = (ScriptTree.INPUT_BUILTINS[b] + '\n' +
                               'for o in ins:\n    env.trace.append(("in", o.path.suffix, str(o.path.root)))\n')
    trace = run_configure(files, [])
    if any(t[0] == 'FAILED' for t in trace):
        return self.fail(case, raw, 'configure_succeeds', error=[t[1] for t in trace if t[0] == 'FAILED'][0][-600:])
    ins = [t for t in trace if t[0] == 'in']
    names = {'source-list': 'in.c', 'copy_file': 'in.txt', 'includes': 'inc', 'man_page': 'tool.1'}
    want = d + '/' + names.get(b, 'in.txt')
    if not ins or any(o[2] != 'Root.srcdir' or o[1].rstrip('/') != want for o in ins):
        return self.fail(case, raw, 'input_path_relative_to_the_submodule_source_directory', got=ins)
    return True


ScriptTree.check_inputs = _check_inputs


class DeclaredStepOutputs(Bounded):
    """build_step() with a list of output names and a `type` given once, per output, or as a list of another length:
    every declared name becomes an output of the step (in order), or the script is refused -- a name is never dropped
    silently."""
    native_chunk = 1
    target = 'bfg9000/builtins/command.py::build_step'
    properties = ('C03',)
    reason = 'exec() of script text and the builtin layer: runtime contract only'
    TYPES = {'one-for-all': 'generic_file', 'per-output': '[generic_file, header_file, generic_file]', 'none': 'None',
             'too-few': '[generic_file, generic_file]', 'too-many': '[generic_file] * 4', 'single-in-a-list': '[generic_file]'}

    def native_inputs(self, case, alphabet, maxlen, rng, extra=0):
        for k in self.TYPES:
            yield {'type': k}

    def native_check(self, case, raw):
        names = ['t1.txt', 'sub/t2.h', 't3.txt']
        script = ("project('p')\nouts = build_step(%r, type=%s, cmd=['touch'] + %r)\n"
                  "env.trace.append(('outs', [o.path.suffix for o in outs]))\n" % (names, self.TYPES[raw['type']], names))
        trace = run_configure({'build.bfg': script}, [])
        if any(t[0] == 'FAILED' for t in trace):
            if raw['type'] in ('one-for-all', 'per-output', 'none'):
                return self.fail(case, raw, 'well_formed_step_is_accepted', error=[t[1] for t in trace if t[0] == 'FAILED'][0][-300:])
            return True
        got = [t[1] for t in trace if t[0] == 'outs']
        if got != [names]:
            return self.fail(case, raw, 'every_declared_output_is_an_output_of_the_step', declared=names, got=got)
        return True


def registry():
    return [AddUserArgument(), ScriptGlobals(), UserArguments(), PathStack(), ScriptTree(), DeclaredStepOutputs()]
