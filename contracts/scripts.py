"""C19: project-defined arguments (--x- aliases), script isolation, path stack."""
import ast
import itertools as _it
import z3
from pyvc import terms as T
from pyvc.contract import Contract, Args
from pyvc.values import Sym, Obj, PList, PDict, fresh_sym
from pyvc import models as MD
from pyvc.interp import fn_source
from contracts.bounded_cmd import Bounded

import bfg9000.arguments.parser as AP
import bfg9000.build as B


class AddUserArgument(Contract):
    """add_user_argument: option strings must start with `--` and must not use the reserved `--x-` prefix
    (ValueError otherwise); when parsing, every `--name` is registered together with its `--x-name` alias, in one
    add_argument call with the caller's keyword arguments."""
    target = 'bfg9000/arguments/parser.py::add_user_argument'
    properties = ('C19',)

    def cases(self):
        return ['parse/1', 'parse/2', 'help/1']

    def params(self, cx, case):
        usage, n = case.split('/')
        names = tuple(cx.str('name%d' % i) for i in range(int(n)))
        cx.ghost('names', names)
        return {'parser': Obj(AP.ArgumentParser, {'usage': usage}), '*args': names}

    def bad(self, a):
        cs = []
        for nme in a.names:
            s = MD.sym_str(nme)
            cs.append(z3.Not(z3.PrefixOf(T.lit('--'), s)))
            cs.append(z3.PrefixOf(T.lit('--x-'), s))
        return z3.Or(*cs)

    def raises(self, a):
        return [(ValueError, self.bad(a))]

    def opaque_calls(self):
        def add_argument(I, args, kwargs, node):
            I.events.append(('add_argument', args[1:], dict(kwargs)))
            return Obj(object, {'tag': 'action'})
        import argparse
        return {argparse._ActionsContainer.add_argument: add_argument}

    def ensures(self, a, r):
        ev = [e for e in a.events if e[0] == 'add_argument']
        out = {'one_registration': z3.BoolVal(len(ev) == 1)}
        if len(ev) != 1:
            return out
        got = ev[0][1]
        parse = a.parser.attrs['usage'] == 'parse'
        want = [MD.sym_str(n) for n in a.names]
        if parse:
            want += [T.cat(T.lit('--x-'), z3.Extract(MD.sym_str(n), z3.IntVal(2), z3.Length(MD.sym_str(n)) - 2)) for n in a.names]
        ok = len(got) == len(want)
        out['registered_strings_are_the_names_and_their_x_aliases'] = (
            T.AND(*[MD.sym_str(g) == w for g, w in zip(got, want)]) if ok else z3.BoolVal(False))
        return out


class ScriptGlobals(Contract):
    """build._execute_script: the globals mapping handed to exec() is a dict display created anew at every call and
    containing only `__file__` and `__builtins__` -- so no variable assigned by one script is visible in another.
    This is a *syntactic* obligation on the function's AST (no solver needed): it holds for every execution."""
    target = 'bfg9000/build.py::_execute_script'
    properties = ('C19',)
    syntactic = True

    def syntactic_obligations(self):
        fnode, clsname, qual, path = fn_source(self.fn)
        execs = [n for n in ast.walk(fnode) if isinstance(n, ast.Call) and isinstance(n.func, ast.Name) and n.func.id == 'exec']
        out = {'exactly_one_exec_call': len(execs) == 1}
        if len(execs) == 1:
            c = execs[0]
            g = c.args[1] if len(c.args) >= 2 else None
            out['globals_is_a_fresh_dict_display'] = isinstance(g, ast.Dict) and len(c.args) == 2 and not c.keywords
            if isinstance(g, ast.Dict):
                keys = [k.value if isinstance(k, ast.Constant) else None for k in g.keys]
                out['globals_has_only_file_and_builtins'] = sorted(map(str, keys)) == ['__builtins__', '__file__']
                out['no_name_other_than_the_context_builtins_leaks_in'] = all(
                    not isinstance(v, ast.Name) for v in g.values)
        return out


class UserArguments(Bounded):
    """Real ArgumentParser: every declared user argument accepts the plain and the --x- spelling with the same
    result, for plain values, enable/disable and with/without pairs."""
    target = 'bfg9000/arguments/parser.py::ToggleAction.__call__'
    properties = ('C19',)
    reason = 'argparse dispatch (library) and a regex outside the supported families in ToggleAction._prefix'

    def native_inputs(self, case, alphabet, maxlen, rng, extra=0):
        for name in ['foo', 'foo-bar', 'x', 'xfoo', 'enable', 'x-ray'[2:]]:
            for kind in ('store', 'enable', 'with'):
                yield {'name': name, 'kind': kind}

    def native_check(self, case, raw):
        name, kind = raw['name'], raw['kind']
        p = AP.ArgumentParser()
        g = p.add_argument_group('user')
        g.usage = 'parse'
        if kind == 'store':
            AP.add_user_argument(g, '--' + name, dest='v')
            pairs = [(['--%s=1' % name], '1'), (['--x-%s=1' % name], '1')]
        else:
            AP.add_user_argument(g, '--' + name, action=kind, dest='v')
            pos, neg = ('enable', 'disable') if kind == 'enable' else ('with', 'without')
            pairs = [(['--%s-%s' % (pos, name)], True), (['--x-%s-%s' % (pos, name)], True),
                     (['--%s-%s' % (neg, name)], False), (['--x-%s-%s' % (neg, name)], False)]
        for argv, want in pairs:
            try:
                ns = p.parse_args(argv)
            except SystemExit:
                return self.fail(case, raw, 'both_spellings_accepted', argv=argv)
            if ns.v != want:
                return self.fail(case, raw, 'both_spellings_same_value', argv=argv, got=ns.v, expected=want)
        for bad in ('--x-' + name, name):
            try:
                AP.add_user_argument(g, bad, dest='w')
                return self.fail(case, raw, 'reserved_or_malformed_name_rejected', name=bad)
            except ValueError:
                pass
        return True


class PathStack(Bounded):
    """StackContext.push_path: after the with-block (normal or exceptional exit) the stack is what it was; every
    pushed path is recorded once in seen_paths; exports are refused at depth 1 and fresh per entry."""
    target = 'bfg9000/builtins/builtin.py::StackContext.push_path'
    properties = ('C19',)
    reason = 'context-manager generator with try/finally: outside the subset'

    def native_inputs(self, case, alphabet, maxlen, rng, extra=0):
        for depth in (1, 2, 3, 4):
            for fail_at in (None,) + tuple(range(1, depth + 1)):
                yield {'depth': depth, 'fail_at': fail_at}

    def native_check(self, case, raw):
        from bfg9000.builtins.builtin import StackContext
        from bfg9000.path import Path

        class Ctx(StackContext):
            kind = 'build'

            def __init__(self):
                self.seen_paths = []
                self.path_stack = []
                self.builtins = {}
        ctx = Ctx()
        paths = [Path('d%d/build.bfg' % i) for i in range(raw['depth'])]
        exports_seen = []

        def go(i):
            if i == raw['depth']:
                return
            before = list(ctx.path_stack)
            try:
                with ctx.push_path(paths[i]):
                    if ctx.path != paths[i]:
                        raise AssertionError('path')
                    if i == 0:
                        try:
                            ctx.exports
                            raise AssertionError('exports allowed at root')
                        except ValueError:
                            pass
                    else:
                        e = ctx.exports
                        if e:
                            raise AssertionError('exports not fresh')
                        e['k%d' % i] = i
                        exports_seen.append(e)
                    if raw['fail_at'] == i + 1:
                        raise RuntimeError('script failed')
                    go(i + 1)
            finally:
                if ctx.path_stack != before:
                    raise AssertionError('stack not restored at depth %d' % i)
        try:
            go(0)
        except RuntimeError:
            pass
        except AssertionError as e:
            return self.fail(case, raw, 'path_stack_discipline', error=str(e))
        if ctx.path_stack:
            return self.fail(case, raw, 'path_stack_discipline', error='stack not empty at the end')
        n_expected = raw['depth'] if raw['fail_at'] is None else raw['fail_at']
        if ctx.seen_paths != paths[:n_expected]:
            return self.fail(case, raw, 'every_executed_script_recorded_once', seen=[p.suffix for p in ctx.seen_paths])
        return True


def registry():
    return [AddUserArgument(), ScriptGlobals(), UserArguments(), PathStack()]
