"""Contracts for bfg9000/shell/windows.py (quoting vs. the MS C runtime) and backends/msbuild/solution.py::UuidMap (C20)."""
import z3
from pyvc import terms as T
from pyvc.contract import Contract, Lemma, LoopInv, Args
from pyvc.values import Sym, Obj, PList, PDict, SymMap, opaque_sort, fresh_sym
from pyvc import models as MD
from pyvc import dictmodel as DM
from pyvc import regex as RX
from specs.crt import crt, BS, QUOTE, BLANK
from contracts.bounded_cmd import Bounded, arg_strings
import itertools as _it

import bfg9000.shell.windows as W
import bfg9000.backends.msbuild.solution as SLN

LINEBREAK = T.CharClass.of('\n\r', 'linebreak')


def has_linebreak(u):
    return MD.any_fold(LINEBREAK).state((0,), u)[0] == 1


def reads_one_argument(text, content):
    """From between arguments the CRT reads `text` as (the start of) exactly one argument with value `content`."""
    st, out = crt.run((0, 0), text)
    return T.AND(z3.Or(st[0] == 1, st[0] == 3), st[1] >= 0, T.cat(out, T.rep(BS, st[1])) == content)


_GEN = {}


def split_cases(chars):
    def script(p, phase=None, ih=None, c=None, **kw):
        if phase != 'step':
            return p.qed()
        conds = [(repr(ch), c == ord(ch)) for ch in chars]
        conds.append(('other', z3.And(*[c != ord(ch) for ch in chars])))
        for q in p.cases('c', conds):
            q.qed()
    return script


def code_bad(u):
    """The code's own "needs quoting" test (re-read from the module)."""
    fam = RX.classify(W._bad_chars.pattern)
    if not isinstance(fam, RX.F5):
        from pyvc.interp import OutOfSubset
        raise OutOfSubset('windows._bad_chars is no longer of the family (class|...|a$)')
    n = z3.Length(u)
    ends = T.OR(*[z3.Or(z3.And(n > 0, u[n - 1] == a), z3.And(n > 1, u[n - 1] == 10, u[n - 2] == a)) for a in fam.end_lits])
    return z3.Or(MD.any_fold(fam.cls).state((0,), u)[0] == 1, ends), fam


def unquoted_lemma():
    """If no character of u is in the code's bad class, the CRT reads u literally (trailing backslashes pending)."""
    if 'unq' not in _GEN:
        _, fam = code_bad(z3.Const('dummy_u', T.Str))
        anyf = MD.any_fold(fam.cls)

        def stmt(u):
            st, out = crt.run((0, 0), u)
            n = z3.Length(u)
            return z3.Implies(z3.Not(anyf.state((0,), u)[0] == 1),
                              T.AND(st[0] == z3.If(n == 0, z3.IntVal(0), z3.IntVal(1)), st[1] >= 0,
                                    T.cat(out, T.rep(BS, st[1])) == u))
        _GEN['unq'] = Lemma('crt_reads_unquoted_text_literally', [('u', T.Str)], stmt, induct=('snoc', 'u'),
                            script=split_cases('\\'))
    return _GEN['unq']


def quoted_lemma(enc_fold):
    """Inside quotes, after the encoder's text for u, the CRT has produced u up to the pending backslash run,
    which equals the encoder's own run-length state."""
    key = ('q', enc_fold.name)
    if key not in _GEN:
        def stmt(u, f=enc_fold):
            est, eout = f.run((0, 1), u)
            st, out = crt.run((2, 0), eout)
            return z3.Implies(z3.Not(has_linebreak(u)),
                              T.AND(st[0] == 2, st[1] == est[0], est[0] >= 0, T.cat(out, T.rep(BS, st[1])) == u))
        def script(p, phase=None, ih=None, c=None, u0=None, f=enc_fold, **kw):
            if phase != 'step':
                return p.qed()
            est, eout = f.run((0, 1), u0)
            st, out = crt.run((2, 0), eout)
            p.use(L_crt_run.inst(j=st[1], n=est[0]))
            split_cases('\\"')(p, phase=phase, ih=ih, c=c)
        _GEN[key] = Lemma('crt_reads_escaped_text_inside_quotes_%s' % enc_fold.name, [('u', T.Str)], stmt,
                          induct=('snoc', 'u'), script=script)
    return _GEN[key]


# the CRT inside quotes over a run of n backslashes only counts them
L_crt_run = Lemma('crt_counts_backslash_runs', [('j', T.Int), ('n', T.Int)],
                  lambda j, n: z3.Implies(j >= 0, T.AND(crt.run((2, j), T.rep(BS, n))[0][0] == 2,
                                                      crt.run((2, j), T.rep(BS, n))[0][1] == j + n,
                                                      crt.run((2, j), T.rep(BS, n))[1] == z3.Empty(T.Str))),
                  induct=('nat', 'n'))


class QuoteInfo(Contract):
    """windows.quote_info on a plain string: the MS C runtime reads the result back as exactly one argument s."""
    target = 'bfg9000/shell/windows.py::quote_info'
    properties = ('C20',)

    def params(self, cx, case):
        return {'s': cx.str('s')}

    def requires(self, a):
        return z3.Not(has_linebreak(MD.sym_str(a.s)))

    def ensures(self, a, r):
        res, quoted = r
        return {'crt_reads_back_exactly_s': reads_one_argument(MD.sym_str(res), MD.sym_str(a.s))}

    def proof(self, p, a, r, name, case):
        s = MD.sym_str(a.s)
        rt = MD.sym_str(r[0])
        p.use(unquoted_lemma().inst(u=s))
        for f in folds_in(rt):
            if getattr(f, 'variant', None) == 'windows':
                est, eout = f.run((0, 1), s)
                p.use(quoted_lemma(f).inst(u=s))
                p.use(L_crt_run.inst(j=est[0], n=est[0]))
        p.qed()

    def native_params(self, case):
        return ['s']

    def native_alphabet(self):
        return 'a \\"\t&'

    def native_call(self, case, call_args):
        return W.quote_info(**call_args)


def folds_in(term):
    from contracts.naming import folds_in as f
    return f(term)


# ---- UuidMap -----------------------------------------------------------------------------------------------

Uuid = opaque_sort('Uuid')
KX = z3.Const('k_any', T.Str)
fresh_uuid = z3.Function('uuid4_nth', T.Int, Uuid)      # the n-th value produced by uuid.uuid4() in this run


class UuidGetItem(Contract):
    """UuidMap.__getitem__: the key is recorded as seen; an existing GUID is returned unchanged, a missing one is
    created, stored and returned; every other key keeps its GUID and its seen flag."""
    target = 'bfg9000/backends/msbuild/solution.py::UuidMap.__getitem__'
    properties = ('C20',)

    def params(self, cx, case):
        m = SymMap.fresh('umap', 'str', ('opaque', 'Uuid'))
        seen = SymMap.fresh('useen')
        seen.is_set = True
        cx.ghost('old', (m.copy(), seen.copy()))
        return {'self': Obj(SLN.UuidMap, {'_map': m, '_seen': seen, '_path': 'p'}), 'key': cx.str('key')}

    def opaque_calls(self):
        import uuid

        def u4(I, args, kwargs, node):
            I.events.append(('uuid4',))
            return Sym(fresh_uuid(z3.IntVal(len(I.events))), ('opaque', 'Uuid'))
        return {uuid.uuid4: u4}

    # call-site use: the map and the seen set are replaced by fresh ones constrained by the postcondition
    def call_ghosts(self, I, a, frame, site):
        at = a.self.attrs
        return {'old': (at['_map'].copy(), at['_seen'].copy())}

    def result_value(self, I, a):
        return Sym(T.fresh('guid', Uuid), ('opaque', 'Uuid'))

    def effects(self, I, a):
        m = SymMap.fresh('umap_after', 'str', ('opaque', 'Uuid'))
        seen = SymMap.fresh('useen_after')
        seen.is_set = True
        a.self.attrs['_map'], a.self.attrs['_seen'] = m, seen

    def ensures(self, a, r):
        om, oseen = a.old
        m, seen = a.self.attrs['_map'], a.self.attrs['_seen']
        k = MD.sym_str(a.key)
        rv = MD.lift(r)
        had = z3.Select(om.dom, k)
        return {
            'key_marked_seen': z3.Select(seen.dom, k),
            'existing_guid_returned_unchanged': z3.Implies(had, rv == z3.Select(om.val, k)),
            'result_is_stored': z3.And(z3.Select(m.dom, k), z3.Select(m.val, k) == rv),
            'other_keys_untouched': z3.Implies(KX != k, z3.And(
                z3.Select(m.dom, KX) == z3.Select(om.dom, KX), z3.Select(m.val, KX) == z3.Select(om.val, KX),
                z3.Select(seen.dom, KX) == z3.Select(oseen.dom, KX))),
        }


class SetUuid(Contract):
    """Project.set_uuid: the project's GUID is the persistent map's entry for the project's *full* name (names that
    differ only in their directory are different projects), created on first use and then kept."""
    target = 'bfg9000/backends/msbuild/syntax.py::Project.set_uuid'
    properties = ('C20',)

    def params(self, cx, case):
        import bfg9000.backends.msbuild.syntax as MS
        m = SymMap.fresh('umap', 'str', ('opaque', 'Uuid'))
        seen = SymMap.fresh('useen')
        seen.is_set = True
        cx.ghost('old', (m.copy(), seen.copy()))
        return {'self': Obj(MS.Project, {'uuid': None, 'name': cx.str('name')}),
                'uuids': Obj(SLN.UuidMap, {'_map': m, '_seen': seen, '_path': 'p'})}

    def opaque_calls(self):
        return UuidGetItem.opaque_calls(self)

    def ensures(self, a, r):
        om, oseen = a.old
        m, seen = a.uuids.attrs['_map'], a.uuids.attrs['_seen']
        k = MD.sym_str(a.self.attrs['name'])
        u = a.self.attrs['uuid']
        if u is None:
            return {'guid_assigned': z3.BoolVal(False)}
        uv = MD.lift(u)
        return {
            'guid_is_the_entry_of_the_full_project_name': z3.And(z3.Select(m.dom, k), z3.Select(m.val, k) == uv),
            'name_marked_seen_so_the_guid_is_saved': z3.Select(seen.dom, k),
            'existing_guid_kept': z3.Implies(z3.Select(om.dom, k), uv == z3.Select(om.val, k)),
            'other_projects_untouched': z3.Implies(KX != k, z3.And(
                z3.Select(m.dom, KX) == z3.Select(om.dom, KX), z3.Select(m.val, KX) == z3.Select(om.val, KX))),
        }


class SolutionFile(Bounded):
    """Real Solution / Project / UuidMap objects over runs that add, keep and remove projects (names that share a base
    name, names with blanks): the written .sln has one GUID per project, unique, stable while the project exists, and
    every ProjectDependencies entry names a project of the same solution."""
    target = 'bfg9000/backends/msbuild/solution.py::Solution.write'
    properties = ('C20',)
    reason = 'multi-run history over file output with string formatting: runtime contract only'
    NAMES = ['util', 'lib/util', 'tools/util', 'a b']

    def native_inputs(self, case, alphabet, maxlen, rng, extra=0):
        subsets = [list(c) for n in range(1, 4) for c in _it.combinations(self.NAMES, n)]
        for runs in _it.product(range(len(subsets)), repeat=2):
            for default in (False, True, 'hook'):
                yield {'runs': [subsets[i] for i in runs], 'set_default': default}

    def native_check(self, case, raw):
        import io, os, re as _re, tempfile
        import bfg9000.backends.msbuild.syntax as MS

        class Env:
            srcdir = None

            def getvar(self, k, d=None):
                return d
        with tempfile.TemporaryDirectory() as tmp:
            fn = os.path.join(tmp, 'uuids')
            prev = {}
            for step, names in enumerate(raw['runs']):
                um = SLN.UuidMap(fn)
                sol = SLN.Solution(um)
                made = []
                for n in names:
                    p = MS.Project(Env(), n, dependencies=list(made))     # depends on every earlier project
                    sol[n] = p
                    made.append(p)
                if raw['set_default'] == 'hook':
                    # the real post-rules hook, with an explicit default and (different) fallback defaults
                    from bfg9000.builtins.default import msbuild_default

                    class Defaults:
                        default_outputs = [names[0]]
                        fallback_defaults = list(names)
                    msbuild_default({'defaults': Defaults}, sol, None)
                elif raw['set_default']:
                    sol.set_default(names[-1])
                out = io.StringIO()
                sol.write(out)
                um.save()
                text = out.getvalue()
                projs = _re.findall(r'^Project\("([^"]*)"\) = "([^"]*)", "([^"]*)", "([^"]*)"$', text, _re.M)
                guid_of = {name: g for _, name, _, g in projs}
                if sorted(guid_of) != sorted(names) or len(projs) != len(names):
                    return self.fail(case, raw, 'every_project_listed_once', step=step, listed=[p[1] for p in projs])
                if len(set(guid_of.values())) != len(guid_of):
                    return self.fail(case, raw, 'project_guids_unique', step=step, guids=guid_of)
                for g in guid_of.values():
                    if not _re.fullmatch(r'\{[0-9A-F]{8}(-[0-9A-F]{4}){3}-[0-9A-F]{12}\}', g):
                        return self.fail(case, raw, 'guid_well_formed', step=step, guid=g)
                for n, g in guid_of.items():
                    if n in prev and prev[n] != g:
                        return self.fail(case, raw, 'guid_stable_while_project_exists', step=step, name=n)
                deps = _re.findall(r'^\t\t(\{[^}]*\}) = (\{[^}]*\})$', text, _re.M)
                for l, r_ in deps:
                    if l != r_ or l not in guid_of.values():
                        return self.fail(case, raw, 'dependency_refers_to_a_project_of_the_solution', step=step, dep=l)
                want = sum(range(len(names)))
                if len(deps) != want:
                    return self.fail(case, raw, 'every_dependency_written', step=step, written=len(deps), expected=want)
                prev = guid_of
        return True


# ---- bounded stand-ins ----------------------------------------------------------------------------------------

class WinJoinSplit(Bounded):
    """windows.join / split on the real functions: the CRT fold reads join(args) back as args, and split(join(args))
    == args (lists of up to three arguments)."""
    target = 'bfg9000/shell/windows.py::join'
    properties = ('C20',)
    reason = 'generator-based tokenizer with nested symbolic loops and list-level join: runtime contract only'
    alphabet = 'a \\"\t'

    def native_inputs(self, case, alphabet, maxlen, rng, extra=0):
        words = arg_strings(alphabet, 4)
        for w in words:
            yield {'args': [w]}
        sample = rng.sample(words, 45) if len(words) > 45 else words
        for a, b in _it.product(sample, sample):
            yield {'args': [a, b]}
        for w in ('a\\\\\\\\', 'a b\\\\\\', '\\\\"\\\\', 'x\\\\\\"y z'):
            yield {'args': [w, 'q']}
        # an argument made of a quoted piece next to verbatim text (jbos of a string and a shell_literal, the shape
        # of `"out dir"\obj` or `-I"foo bar"`): the pieces must be read as ONE argument
        for w in words:
            if not w:
                continue
            for lit in ('x', '\\o', '-I'):
                yield {'args': [w, 'q'], 'after': lit}
                yield {'args': [w, 'q'], 'before': lit}

    def native_check(self, case, raw):
        from specs.crt import crt_args
        args = list(raw['args'])
        if raw.get('after') or raw.get('before'):
            from bfg9000.safe_str import jbos, shell_literal
            a0 = args[0]
            if raw.get('after'):
                first = jbos(a0, shell_literal(raw['after']))
                args[0] = a0 + raw['after']
            else:
                first = jbos(shell_literal(raw['before']), a0)
                args[0] = raw['before'] + a0
            line = W.join([first] + args[1:])
        else:
            line = W.join(args)
        got = crt_args(line)
        if got != args:
            return self.fail(case, raw, 'crt_reads_joined_line_back', line=line, read=got)
        sp = W.split(line)
        if sp != args:
            return self.fail(case, raw, 'split_is_inverse_of_join', line=line, split=sp)
        return True


class UuidRuns(Bounded):
    """Sequences of configure/regenerate runs over the real UuidMap (temp file): a name seen in consecutive runs keeps
    its GUID, distinct names get distinct GUIDs, unseen names are dropped."""
    target = 'bfg9000/backends/msbuild/solution.py::UuidMap.save'
    properties = ('C20',)
    reason = 'multi-run history with file I/O: runtime contract only'

    def native_inputs(self, case, alphabet, maxlen, rng, extra=0):
        names = ['', 'a', 'b', 'c']
        subsets = [list(c) for n in range(1, 4) for c in _it.combinations(names, n)]
        for runs in _it.product(range(len(subsets)), repeat=3):
            yield {'runs': [subsets[i] for i in runs]}

    def native_check(self, case, raw):
        import os, tempfile
        with tempfile.TemporaryDirectory() as tmp:
            fn = os.path.join(tmp, 'uuids')
            prev = {}
            for step, names in enumerate(raw['runs']):
                m = SLN.UuidMap(fn)
                cur = {}
                for n in names:
                    cur[n] = m[n]          # looked up once per run, like Project.set_uuid
                if len(set(cur.values())) != len(cur):
                    return self.fail(case, raw, 'distinct_names_get_distinct_guids', step=step)
                for n in names:
                    if n in prev and prev[n] != cur[n]:
                        return self.fail(case, raw, 'guid_stable_while_project_exists', step=step, name=n)
                m.save()
                prev = cur
        return True



class ShellListWrap(Bounded):
    """A shell command line (shell_list: it contains shell operators such as `>` or `&&`) handed to the ninja backend
    keeps that marker through NinjaFile._convert_args, also when a tool command object is part of it, and is then
    written behind `cmd /s /c "` ... `"` on Windows (platform reported as Windows for this run); a plain argument
    list is never wrapped."""
    target = 'bfg9000/tools/common.py::Command.convert_args'
    properties = ('C20',)
    reason = 'depends on the reported platform family and on tool objects: runtime contract only'

    def native_inputs(self, case, alphabet, maxlen, rng, extra=0):
        for with_tool in (False, True):
            for shelly in (False, True):
                yield {'tool_in_line': with_tool, 'shell_list': shelly}

    def native_check(self, case, raw):
        import io
        from unittest import mock
        import bfg9000.backends.ninja.syntax as nsyn
        import bfg9000.shell as bshell
        from bfg9000.shell.list import shell_list
        from bfg9000.safe_str import shell_literal
        from bfg9000.tools.common import Command

        class Tool(Command):
            def __init__(self):
                self.command_var, self.command, self.found = 'gzip', ['gzip'], True
                self.rule_name = 'gzip'
        head = [Tool()] if raw['tool_in_line'] else ['gzip']
        line = head + ['-c', 'in file', shell_literal('>'), 'out']
        if raw['shell_list']:
            line = shell_list(line)
        nf = nsyn.NinjaFile('build.bfg')
        conv = nf._convert_args(line)
        if isinstance(conv, shell_list) != raw['shell_list']:
            return self.fail(case, raw, 'shell_list_marker_kept_by_convert_args', got=type(conv).__name__)

        class Win:
            family = 'windows'
        buf = io.StringIO()
        with mock.patch.object(nsyn, 'platform_info', return_value=Win):
            nsyn.Writer(buf, {}, bshell).write_shell(conv, can_wrap=True)
        text = buf.getvalue()
        wrapped = text.startswith('cmd /s /c "') and text.endswith('"')
        if wrapped != raw['shell_list']:
            return self.fail(case, raw, 'shell_lists_and_only_they_are_wrapped_for_cmd', text=text)
        return True


class MsbuildSolutionRun(Bounded):
    """The MSBuild backend itself (real builtins and msbuild.write, run in-process; it needs no Windows tool): a build
    script with copy_file steps (one source copied to two destinations, sources with equal base names), a command and
    an alias is written twice into the same build directory: every project of proj.sln has its own GUID and its own
    project file whose ProjectGuid is the one in the solution, every dependency names a project of the solution, and
    the GUIDs of the second run (a regeneration) are those of the first."""
    target = 'bfg9000/builtins/copy_file.py::msbuild_copy_file'
    properties = ('C20',)
    reason = 'whole builtin layer plus the msbuild writer over two runs: runtime contract only'
    SCRIPTS = {
        'two-destinations': [('copy_file', ('debug/settings.ini', 'settings.ini'), {}),
                             ('copy_file', ('release/settings.ini', 'settings.ini'), {}),
                             ('copy_file', (), {'file': 'a.txt'})],
        'equal-base-names': [('copy_file', (), {'file': 'a.txt'}), ('copy_file', (), {'file': 'data/a.txt'}),
                             ('copy_file', ('other/a.txt', 'data/a.txt'), {})],
        # two steps that would be one project name (one GUID, one project file): refused, like the duplicate rule that
        # Make and Ninja refuse, or kept apart -- never two entries with one GUID
        'same-name-twice': [('command', ('foo',), {'cmd': ['echo', 'one']}), ('build_step', ('foo',), {'cmd': ['touch', 'foo']})],
    }
    MAY_BE_REFUSED = ('same-name-twice',)

    def native_inputs(self, case, alphabet, maxlen, rng, extra=0):
        for k in self.SCRIPTS:
            yield {'script': k}

    def native_check(self, case, raw):
        import os, re as _re, shutil, tempfile
        from bfg9000.build_inputs import BuildInputs
        from bfg9000.builtins import builtin, init as builtin_init
        from bfg9000.environment import Environment
        from bfg9000.path import InstallRoot, Path, Root
        from bfg9000.backends.msbuild import writer as msbuild
        builtin_init()
        top = tempfile.mkdtemp(prefix='pyvc_sln_')
        cwd = os.getcwd()
        try:
            src, bld = top + '/src', top + '/b'
            os.makedirs(src)
            os.makedirs(bld)
            runs = []
            for attempt in range(2):
                env = Environment(Path('/bfgdir', Root.absolute), 'msbuild', None, Path(src, Root.absolute), Path(bld, Root.absolute))
                env.finalize({InstallRoot.prefix: Path('/prefix', Root.absolute)}, (False, False), False)
                build = BuildInputs(env, Path('build.bfg', Root.srcdir))
                ctx = builtin.BuildContext(env, build, None)
                ctx.path_stack.append(builtin.BuildContext.PathEntry(build.bfgpath))
                ctx['project']('proj')
                for fn, args, kwargs in self.SCRIPTS[raw['script']]:
                    ctx[fn](*args, **kwargs)
                stamp = ctx['command']('stamp', cmd=['echo', 'stamp'])
                ctx['alias']('everything', [stamp])
                os.chdir(bld)
                try:
                    msbuild.write(env, build)
                except Exception as e:      # noqa
                    if raw['script'] in self.MAY_BE_REFUSED:
                        return True
                    return self.fail(case, raw, 'solution_is_written', run=attempt, error=repr(e)[:300])
                finally:
                    os.chdir(cwd)
                text = open(bld + '/proj.sln').read()
                projs = _re.findall(r'^Project\("([^"]*)"\) = "([^"]*)", "([^"]*)", "([^"]*)"$', text, _re.M)
                guids = [g for _, _, _, g in projs]
                files = [f for _, _, f, _ in projs]
                nsteps = len(self.SCRIPTS[raw['script']]) + 2
                if len(projs) != nsteps:
                    return self.fail(case, raw, 'one_project_per_step', run=attempt, projects=[p[1] for p in projs], steps=nsteps)
                if len(set(guids)) != len(guids):
                    return self.fail(case, raw, 'project_guids_unique', run=attempt, projects={p[1]: p[3] for p in projs})
                if len(set(files)) != len(files):
                    return self.fail(case, raw, 'project_files_distinct', run=attempt, files=files)
                for _, name, f, g in projs:
                    body = open(os.path.join(bld, f.replace('\\', '/'))).read()
                    m = _re.search(r'<ProjectGuid>(.*)</ProjectGuid>', body)
                    if not m or m.group(1) != g:
                        return self.fail(case, raw, 'project_file_carries_the_guid_of_the_solution', project=name)
                for l, r_ in _re.findall(r'^\t\t(\{[^}]*\}) = (\{[^}]*\})$', text, _re.M):
                    if l != r_ or l not in guids:
                        return self.fail(case, raw, 'dependency_refers_to_a_project_of_the_solution', run=attempt, dep=l)
                runs.append({p[1]: p[3] for p in projs})
            if runs[0] != runs[1]:
                return self.fail(case, raw, 'guid_stable_across_regeneration', first=runs[0], second=runs[1])
            return True
        finally:
            os.chdir(cwd)
            shutil.rmtree(top, ignore_errors=True)


class MsbuildLinkSolution(Bounded):
    """Linked targets in the MSBuild backend with the MSVC builder on the Windows platform flavour (real builtins and
    msbuild.write; no Windows tool is run): static library, shared library (a step with several outputs whose public
    one is the import library) and programs linking to them, over a history of three script versions written into the
    same build directory.  Every run: one project per linked target with its own GUID, every dependency entry names
    a project of the solution, and the dependencies of a project are exactly the libraries its step links to; a
    project that exists in consecutive runs keeps its GUID."""
    target = 'bfg9000/builtins/link.py::msbuild_link'
    properties = ('C20',)
    reason = 'whole builtin layer plus the msbuild writer over a history of runs: runtime contract only'
    # name -> (kind, libs)
    HISTORIES = {
        'add-then-remove': [
            {'util': ('static_library', []), 'core': ('shared_library', ['util']), 'app': ('executable', ['core', 'util'])},
            {'util': ('static_library', []), 'core': ('shared_library', ['util']), 'app': ('executable', ['core', 'util']),
             'plug': ('shared_library', ['core']), 'tool': ('executable', ['plug'])},
            {'util': ('static_library', []), 'core': ('shared_library', ['util']), 'tool': ('executable', ['core'])},
        ],
        'shared-only': [
            {'core': ('shared_library', []), 'app': ('executable', ['core'])},
            {'core': ('shared_library', [])},
            {'core': ('shared_library', []), 'app': ('executable', ['core'])},
        ],
    }

    def native_inputs(self, case, alphabet, maxlen, rng, extra=0):
        for k in self.HISTORIES:
            yield {'history': k}

    @staticmethod
    def project_name(name, kind):
        return name if kind == 'executable' else 'lib' + name

    def native_check(self, case, raw):
        import logging, os, re as _re, shutil, tempfile
        from unittest import mock
        from bfg9000.build_inputs import BuildInputs
        from bfg9000.builtins import builtin, init as builtin_init
        from bfg9000.environment import Environment, EnvVarDict
        from bfg9000.path import InstallRoot, Path, Root
        from bfg9000.backends.msbuild import writer as msbuild
        from bfg9000.tools.msvc import MsvcBuilder
        builtin_init()
        top = tempfile.mkdtemp(prefix='pyvc_sln_')
        cwd = os.getcwd()
        logging.disable(logging.CRITICAL)
        try:
            src, bld = top + '/src', top + '/b'
            os.makedirs(src)
            os.makedirs(bld)
            previous = None
            for attempt, script in enumerate(self.HISTORIES[raw['history']]):
                with mock.patch('bfg9000.platforms.core.platform_name', return_value='winnt'):
                    env = Environment(Path('/bfgdir', Root.absolute), 'msbuild', None, Path(src, Root.absolute), Path(bld, Root.absolute))
                env.finalize({InstallRoot.prefix: Path('/prefix', Root.absolute)}, (False, False), False)
                env.variables = EnvVarDict()
                env.variables.update({'CXX': 'nonexist', 'CC': 'nonexist'})
                build = BuildInputs(env, Path('build.bfg', Root.srcdir))
                ctx = builtin.BuildContext(env, build, None)
                ctx.path_stack.append(builtin.BuildContext.PathEntry(build.bfgpath))
                os.chdir(bld)
                try:
                    with mock.patch('bfg9000.tools.c_family._builders', (MsvcBuilder,)):
                        ctx['project']('proj')
                        made = {}
                        for name, (kind, libs) in script.items():
                            made[name] = ctx[kind](name, ctx['source_file'](name + '.cpp'), libs=[made[l] for l in libs])
                        msbuild.write(env, build)
                except Exception as e:      # noqa
                    return self.fail(case, raw, 'solution_is_written', run=attempt, error=repr(e)[:300])
                finally:
                    os.chdir(cwd)
                text = open(bld + '/proj.sln').read()
                projs = {}
                cur = None
                deps = {}
                for line in text.splitlines():
                    m = _re.match(r'^Project\("([^"]*)"\) = "([^"]*)", "([^"]*)", "([^"]*)"$', line)
                    if m:
                        cur = m.group(2)
                        if cur in projs:
                            return self.fail(case, raw, 'one_project_per_target', run=attempt, project=cur)
                        projs[cur] = m.group(4)
                        deps[cur] = []
                        continue
                    if line == 'EndProject':
                        cur = None
                    m = _re.match(r'^\t\t(\{[^}]*\}) = (\{[^}]*\})$', line)
                    if m and cur is not None:
                        if m.group(1) != m.group(2):
                            return self.fail(case, raw, 'dependency_refers_to_a_project_of_the_solution', run=attempt, dep=line)
                        deps[cur].append(m.group(1))
                want = {self.project_name(n, k): sorted(self.project_name(l, script[l][0]) for l in libs)
                        for n, (k, libs) in script.items()}
                if sorted(projs) != sorted(want):
                    return self.fail(case, raw, 'one_project_per_target', run=attempt, projects=sorted(projs), expected=sorted(want))
                if len(set(projs.values())) != len(projs):
                    return self.fail(case, raw, 'project_guids_unique', run=attempt, projects=projs)
                by_guid = {g: n for n, g in projs.items()}
                for n, ds in deps.items():
                    if any(d not in by_guid for d in ds):
                        return self.fail(case, raw, 'dependency_refers_to_a_project_of_the_solution', run=attempt, project=n, deps=ds)
                    got = sorted(by_guid[d] for d in ds)
                    if got != want[n]:
                        return self.fail(case, raw, 'dependencies_are_the_linked_libraries', run=attempt, project=n, got=got, expected=want[n])
                if previous is not None:
                    moved = {n: (previous[n], g) for n, g in projs.items() if n in previous and previous[n] != g}
                    if moved:
                        return self.fail(case, raw, 'guid_stable_while_the_project_exists', run=attempt, changed=moved)
                previous = projs
            return True
        finally:
            logging.disable(logging.NOTSET)
            os.chdir(cwd)
            shutil.rmtree(top, ignore_errors=True)


class NinjaWindowsWords(Bounded):
    """Command words written by the Ninja writer with the Windows shell (what build.ninja contains on Windows): plain
    strings and paths below a variable root whose remainder needs quoting.  The text is expanded by the Ninja rules
    (`$$`, `${srcdir}`) and read by the MS C runtime fold: exactly the given words, each as one argument."""
    target = 'bfg9000/backends/ninja/syntax.py::Writer.write'
    properties = ('C20',)
    reason = 'two-layer reading (ninja expansion, then the CRT fold) of concrete writer output: runtime contract only'
    SUFFIXES = ['plain.c', 'my file.c', 'a&b.c', 'sub dir/x y.c', 'q"uote.c', 'tr ail\\', 'do$llar.c']
    STRINGS = ['plain', 'two words', 'semi;colon', 'a"b', 'back\\slash end\\', '']

    def native_inputs(self, case, alphabet, maxlen, rng, extra=0):
        for sfx in self.SUFFIXES:
            for st in self.STRINGS:
                yield {'suffix': sfx, 'string': st}
        # one word joined from a string and a path (`'--from=' + file`): the pieces are quoted one by one
        for sfx in self.SUFFIXES:
            for st in ('--from=', 'two words=', 'a"b='):
                yield {'suffix': sfx, 'string': st, 'joined': True,
                       'adjacent_quoted_pieces': any(c in st for c in ' "')}

    def native_check(self, case, raw):
        import io
        import bfg9000.backends.ninja.syntax as NS
        import bfg9000.shell.windows as wshell
        from bfg9000.platforms.windows import WindowsPath
        from bfg9000.path import Root
        from specs.ninja_eval import _expand
        from specs.crt import crt_args
        srcdir = 'C:\\src dir'
        out = NS.Writer(io.StringIO(), {Root.srcdir: NS.Variable('srcdir'), Root.builddir: None}, wshell)
        try:
            p = WindowsPath(raw['suffix'], Root.srcdir)
        except ValueError:
            return None
        if raw.get('joined'):
            from bfg9000.safe_str import jbos
            out.write_shell(['first', jbos(raw['string'], p), 'last'], NS.Syntax.shell)
            want = ['first', raw['string'] + srcdir + '\\' + p.suffix.replace('/', '\\'), 'last']
        else:
            out.write_shell([raw['string'], p, 'last'], NS.Syntax.shell)
            want = [raw['string'], srcdir + '\\' + p.suffix.replace('/', '\\'), 'last']
        text = out.stream.getvalue()
        line = _expand(text, lambda name: {'srcdir': srcdir}[name])
        got = crt_args(line)
        if got != want:
            return self.fail(case, raw, 'crt_reads_back_exactly_the_words', written=text, expanded=line, got=got, expected=want)
        return True


def registry():
    return [QuoteInfo(), UuidGetItem(), SetUuid(), WinJoinSplit(), UuidRuns(), SolutionFile(), ShellListWrap(), MsbuildSolutionRun(), MsbuildLinkSolution(), NinjaWindowsWords()]
