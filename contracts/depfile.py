"""C07 (and the depfile part of C04): depfixer kernel and the compiler's depfile flags."""
import io
import itertools as _it
import z3
from pyvc import terms as T
from pyvc.contract import Contract, Args
from pyvc.values import Sym, Obj, PList, PDict, fresh_sym
from pyvc import models as MD
from contracts.bounded_cmd import Bounded
from specs import make as MK

import bfg9000.depfixer as DF
import bfg9000.tools.cc.compiler as CC


NAMES = ['a.c', 'dir/b.h', 'my\\ header.h', 'x\\#y.h', 'p$$q.h', 'c\\:d.h', 'tab\\\tname.h', 'p%q.h', '%gen.h']
SEPS = [' ', '  ', ' \\\n  ', '\t']


class DepfixerReference(Bounded):
    """depfixer.emit_deps on generated gcc-style depfiles (grammar: `targets ':' deps` per logical line, names with
    backslash-escaped blanks / `#` / `:` and `$$`, separators blank / tab / backslash-newline continuation; up to two
    rules, up to three dependencies from a pool of nine spellings): the output is exactly one `dep:` line per
    dependency, spelled as in the input except that `%` (literal in a prerequisite, a pattern in a target) is escaped."""
    target = 'bfg9000/depfixer.py::emit_deps'
    properties = ('C07', 'C04')
    reason = 'tokenize() is an iterator with one-character lookahead (next() on a shared iterator): outside the subset'

    def native_inputs(self, case, alphabet, maxlen, rng, extra=0):
        rules = []
        for n in range(0, 4):
            for deps in _it.permutations(range(len(NAMES)), n):
                for sep in range(len(SEPS)):
                    rules.append((deps, sep))
        rules = rng.sample(rules, 400) if len(rules) > 400 else rules
        for deps, sep in rules:
            yield {'rules': [{'targets': ['out.o'], 'deps': [NAMES[i] for i in deps], 'sep': SEPS[sep]}]}
        for (d1, s1), (d2, s2) in _it.product(rules[:12], rules[12:24]):
            yield {'rules': [{'targets': ['o1.o', 'o1.d'], 'deps': [NAMES[i] for i in d1], 'sep': SEPS[s1]},
                             {'targets': ['o2.o'], 'deps': [NAMES[i] for i in d2], 'sep': SEPS[s2]}]}

    def native_check(self, case, raw):
        text, want = '', []
        for r in raw['rules']:
            text += ' '.join(r['targets']) + ':' + ''.join(r['sep'] + d for d in r['deps']) + '\n'
            want += r['deps']
        out = io.StringIO()
        try:
            DF.emit_deps(io.StringIO(text), out)
        except DF.ParseError as e:
            return self.fail(case, raw, 'well_formed_depfile_accepted', text=text, error=str(e))
        exp = ''.join(d.replace('%', '\\%') + ':\n' for d in want)
        if out.getvalue() != exp:
            return self.fail(case, raw, 'one_rule_per_dependency_spelled_as_given', text=text, output=out.getvalue(), expected=exp)
        return True


class CompilerCall(Contract):
    """CcBaseCompiler._call: when a depfile is requested the command carries `-MMD -MF <depfile>` (and always
    `-c <input>` and `-o <output>`)."""
    target = 'bfg9000/tools/cc/compiler.py::CcBaseCompiler._call'
    properties = ('C07',)

    def cases(self):
        return ['deps', 'nodeps']

    def params(self, cx, case):
        Tok = ('opaque', 'Thing')
        from pyvc.values import opaque_sort
        Thing = opaque_sort('Thing')

        def t(n):
            return Sym(z3.Const(n, Thing), Tok)
        selfv = Obj(CC.CcBaseCompiler, {})
        from bfg9000.platforms.posix import PosixPath
        cx.ghost('dep', Obj(PosixPath, {'tag': 'depfile'}))
        return {'self': selfv, 'cmd': PList([t('cc')]), 'input': t('input'), 'output': t('output'),
                'deps': cx.ghosts['dep'] if case == 'deps' else None, 'flags': PList([t('f0')])}

    def opaque_calls(self):
        def flags(I, args, kwargs, node):
            return PList(['-x', 'c'])
        return {CC.CcBaseCompiler.__dict__['_always_flags'].fget: flags}

    def ensures(self, a, r):
        items = r.items if isinstance(r, PList) and r.concrete else None
        if items is None:
            return {'result_is_a_list': z3.BoolVal(False)}

        def has_seq(seq):
            for i in range(len(items) - len(seq) + 1):
                if all(items[i + k] is seq[k] or (isinstance(seq[k], str) and items[i + k] == seq[k]) for k in range(len(seq))):
                    return True
            return False
        out = {'compiles_the_input_to_the_output': z3.BoolVal(has_seq(['-c', a.input]) and has_seq(['-o', a.output]) and
                                                                items[0] is a.cmd.items[0])}
        if a.deps is not None:
            out['depfile_requested_with_MMD_MF'] = z3.BoolVal(has_seq(['-MMD', '-MF', a.deps]))
        else:
            out['no_depfile_flags'] = z3.BoolVal(not any(isinstance(x, str) and x in ('-MMD', '-MF') for x in items))
        return out


# ---- edit histories on a generated C project, built by the real cc through GNU make (bounded) -----------------------

import os as _os

SCENARIOS = {
    # program name, header names (main.c includes h[0], which includes h[1])
    'plain': ('prog', ['a.h', 'b.h']),
    'blank-in-names': ('my prog', ['a b.h', 'c d.h']),
    'make-specials': ('pro#g', ['x#y.h', 'p%q.h']),
    'nested-dirs': ('out/bin/prog', ['inc/a.h', 'inc/deep/b c.h']),
    'first-char-percent': ('prog', ['%cfg.h', 'x%.h']),
    'precompiled-header': ('prog', ['pre.h', 'seen-through-pch.h']),
    # characters in the *object* path (through the program name / its directory) that the include statement or the
    # compiler's own depfile must cope with
    'percent-in-output-name': ('a%b', ['a.h', 'b.h']),
    'colon-in-output-directory': ('sub:dir/prog', ['a.h', 'b.h']),
    'dollar-in-output-name': ('do$llar', ['a.h', 'b.h']),
    # a second translation unit in another C-family language (compiled by clang) that includes the same headers
    'objective-c-source': ('prog', ['a.h', 'b.h']),
}


class IncrementalBuild(Bounded):
    """A generated C project (headers never mentioned in build.bfg; names with blanks and Make-special characters)
    configured by the tree under test and built by the real compiler through GNU make, over an edit history: a second
    build does nothing; changing a directly or transitively included header rebuilds the object; a header that is no
    longer included can be deleted without stopping the build; clean followed by build recreates the program."""
    target = 'bfg9000/builtins/compile.py::make_compile'
    properties = ('C07',)
    reason = 'external compiler, generated depfiles and make over a history of edits: runtime contract with the real tools'
    native_chunk = 1

    def native_inputs(self, case, alphabet, maxlen, rng, extra=0):
        for k in SCENARIOS:
            yield {'scenario': k}

    def native_check(self, case, raw):
        import shutil, subprocess, tempfile
        from pyvc.interp import REPO
        prog, hs = SCENARIOS[raw['scenario']]
        top = tempfile.mkdtemp(prefix='pyvc_incr_')
        try:
            src, b = top + '/src', top + '/b'

            def w(rel, text):
                fp = src + '/' + rel
                _os.makedirs(_os.path.dirname(fp), exist_ok=True)
                with open(fp, 'w') as f:
                    f.write(text)
            objc = raw['scenario'] == 'objective-c-source'
            if objc and not shutil.which('clang'):
                return None
            if raw['scenario'] == 'precompiled-header':
                w('build.bfg', "project('p')\npch = precompiled_header(file=%r)\nexecutable(%r, files=['main.c'], pch=pch)\n" % (hs[0], prog))
            elif objc:
                w('build.bfg', "project('p')\nexecutable(%r, files=['main.c', 'helper.m'])\n" % prog)
                w('helper.m', '#include "%s"\nint helper(void) { return VALUE; }\n' % hs[0])
            else:
                w('build.bfg', "project('p')\nexecutable(%r, files=['main.c'])\n" % prog)
            if raw['scenario'] == 'precompiled-header':
                w('main.c', 'int main(void) { return VALUE - 3; }\n')      # sees the headers only through the PCH
            elif objc:
                # a stale helper.o (old VALUE) cancels the change seen by main.o
                w('main.c', '#include "%s"\nint helper(void);\nint main(void) { return (VALUE - 3) + (helper() - VALUE); }\n' % hs[0])
            else:
                w('main.c', '#include "%s"\nint main(void) { return VALUE - 3; }\n' % hs[0])
            rel = _os.path.relpath(hs[1], _os.path.dirname(hs[0]) or '.')
            w(hs[0], '#include "%s"\n' % rel)
            w(hs[1], '#define VALUE 3\n')
            _os.makedirs(top + '/bin')
            for name, mod in (('bfg9000', 'bfg9000.driver'), ('bfg9000-depfixer', 'bfg9000.depfixer')):
                lp = top + '/bin/' + name
                with open(lp, 'w') as f:
                    f.write("#!/bin/sh\nPYTHONPATH=%s exec /venv/bin/python -c 'import sys; sys.argv[0] = \"%s\"; "
                            "from %s import main; sys.exit(main())' \"$@\"\n" % (REPO, lp, mod))
                _os.chmod(lp, 0o755)
            env = dict(_os.environ, PATH=top + '/bin:/venv/bin:' + _os.environ['PATH'])
            env.pop('MAKEFLAGS', None)
            if objc:
                env['OBJC'] = 'clang'

            def run(cmd, **kw):
                return subprocess.run(cmd, env=env, capture_output=True, text=True, timeout=300, **kw)

            def make(*a):
                r = run(['make', '-C', b] + list(a))
                return r.returncode, r.stdout + r.stderr

            def exit_of_prog():
                return run([b + '/' + prog]).returncode
            r = run([top + '/bin/bfg9000', 'configure-into', src, b, '--backend=make', '--no-resolve-packages'])
            if r.returncode != 0:
                return self.fail(case, raw, 'configure_succeeds', stderr=r.stderr[-500:])
            rc, out = make()
            if rc != 0 or exit_of_prog() != 0:
                return self.fail(case, raw, 'first_build_succeeds', output=out[-600:])
            rc, out = make()
            if rc != 0 or 'cc ' in out:
                return self.fail(case, raw, 'second_build_does_nothing', output=out[-400:])
            # change the transitively included header (content and a clearly newer mtime)
            w(hs[1], '#define VALUE 4\n')
            t = _os.stat(b + '/' + prog).st_mtime + 100
            _os.utime(src + '/' + hs[1], (t, t))
            rc, out = make()
            if rc != 0 or exit_of_prog() != 1:
                return self.fail(case, raw, 'header_change_rebuilds_the_object', header=hs[1], output=out[-500:],
                                 program_exit=exit_of_prog())
            # stop including the headers and delete them in the same edit (the old depfile still names them)
            if raw['scenario'] == 'precompiled-header':
                # the precompiled header stays (build.bfg names it); it stops including the second header
                w(hs[0], '#define VALUE 5\n')
                _os.utime(src + '/' + hs[0], (t + 100, t + 100))
                _os.remove(src + '/' + hs[1])
                w('main.c', 'int main(void) { return VALUE - 5; }\n')
            else:
                _os.remove(src + '/' + hs[0])
                _os.remove(src + '/' + hs[1])
                w('main.c', '#define VALUE 5\nint main(void) { return VALUE - 5; }\n')
                if objc:
                    w('helper.m', 'int helper(void) { return 5; }\n')
                    _os.utime(src + '/helper.m', (t + 100, t + 100))
            t += 100
            _os.utime(src + '/main.c', (t, t))
            rc, out = make()
            if rc != 0 or exit_of_prog() != 0:
                return self.fail(case, raw, 'deleted_header_that_is_no_longer_included_does_not_stop_the_build',
                                 output=out[-500:])
            rc, out = make('clean')
            if rc != 0 or _os.path.exists(b + '/' + prog):
                return self.fail(case, raw, 'clean_removes_the_program', output=out[-300:])
            rc, out = make()
            if rc != 0 or exit_of_prog() != 0:
                return self.fail(case, raw, 'build_after_clean_recreates_the_program', output=out[-500:])
            return True
        finally:
            shutil.rmtree(top, ignore_errors=True)


class EveryObjectTracksItsHeaders(Bounded):
    """A program and a library made of several sources in two languages, each source with a header of its own that
    build.bfg never mentions: after the first build, changing the header of any one source rebuilds exactly the object
    of that source (and what is linked from it), whichever position the source has in its step and in the script."""
    target = 'bfg9000/builtins/compile.py::make_compile'
    properties = ('C07', 'C03')
    reason = 'external compiler, generated depfiles and make over a history of edits: runtime contract with the real tools'
    native_chunk = 1
    UNITS = [('main.c', 'prog'), ('alpha.c', 'prog'), ('beta.c', 'prog'), ('gamma.cpp', 'prog'), ('delta.cpp', 'prog'),
             ('lib one.c', 'lib'), ('lib two.c', 'lib')]

    def native_inputs(self, case, alphabet, maxlen, rng, extra=0):
        yield {'order': 'as-listed'}
        yield {'order': 'reversed'}

    def native_check(self, case, raw):
        import glob, shutil, subprocess, tempfile
        from pyvc.interp import REPO
        top = tempfile.mkdtemp(prefix='pyvc_units_')
        try:
            src, b = top + '/src', top + '/b'

            def w(rel, text):
                fp = src + '/' + rel
                _os.makedirs(_os.path.dirname(fp), exist_ok=True)
                with open(fp, 'w') as f:
                    f.write(text)
            units = list(self.UNITS) if raw['order'] == 'as-listed' else list(reversed(self.UNITS))
            progsrc = [u for u, k in units if k == 'prog']
            libsrc = [u for u, k in units if k == 'lib']
            w('build.bfg', "project('p')\nlib = static_library('units', files=%r)\nexecutable('prog', files=%r, libs=[lib])\n"
              % (libsrc, progsrc))
            for u, k in self.UNITS:
                stem = u.rsplit('.', 1)[0]
                ident = stem.replace(' ', '_')
                w('%s.h' % stem, '#define VALUE_%s 1\n' % ident)
                ext = 'extern "C" ' if u.endswith('.cpp') else ''
                if u == 'main.c':
                    w(u, '#include "main.h"\nint main(void) { return VALUE_main - 1; }\n')
                else:
                    w(u, '#include "%s.h"\n%sint f_%s(void) { return VALUE_%s; }\n' % (stem, ext, ident, ident))
            _os.makedirs(top + '/bin')
            for name, mod in (('bfg9000', 'bfg9000.driver'), ('bfg9000-depfixer', 'bfg9000.depfixer')):
                lp = top + '/bin/' + name
                with open(lp, 'w') as f:
                    f.write("#!/bin/sh\nPYTHONPATH=%s exec /venv/bin/python -c 'import sys; sys.argv[0] = \"%s\"; "
                            "from %s import main; sys.exit(main())' \"$@\"\n" % (REPO, lp, mod))
                _os.chmod(lp, 0o755)
            env = dict(_os.environ, PATH=top + '/bin:/venv/bin:' + _os.environ['PATH'])
            env.pop('MAKEFLAGS', None)

            def run(cmd, **kw):
                return subprocess.run(cmd, env=env, capture_output=True, text=True, timeout=300, **kw)
            r = run([top + '/bin/bfg9000', 'configure-into', src, b, '--backend=make', '--no-resolve-packages'])
            if r.returncode != 0:
                return self.fail(case, raw, 'configure_succeeds', stderr=r.stderr[-500:])
            r = run(['make', '-C', b])
            if r.returncode != 0:
                return self.fail(case, raw, 'first_build_succeeds', output=(r.stdout + r.stderr)[-600:])

            def objects():
                out = {}
                for dp, dn, fn in _os.walk(b):
                    for f in fn:
                        if f.endswith('.o'):
                            out[_os.path.relpath(_os.path.join(dp, f), b)] = _os.stat(_os.path.join(dp, f)).st_mtime_ns
                return out
            if len(objects()) != len(self.UNITS):
                return self.fail(case, raw, 'one_object_per_source', objects=sorted(objects()))
            # everything built so far is given an old time stamp; the edits get later ones that are still in the past
            import time
            t = time.time() - 100000
            for root in (src, b):
                for dp, dn, fn in _os.walk(root):
                    for n in fn:
                        _os.utime(_os.path.join(dp, n), (t, t))
            r = run(['make', '-C', b])
            if r.returncode != 0 or objects() != {o: int(t * 1e9) for o in objects()} and any(
                    abs(v - t * 1e9) > 1e9 for v in objects().values()):
                return self.fail(case, raw, 'second_build_does_nothing', output=(r.stdout + r.stderr)[-300:])
            t += 100
            for u, k in self.UNITS:
                stem = u.rsplit('.', 1)[0]
                before = objects()
                _os.utime(src + '/%s.h' % stem, (t, t))
                t += 100
                r = run(['make', '-C', b])
                after = objects()
                changed = sorted(o for o in after if after[o] != before.get(o))
                want = [o for o in after if _os.path.basename(o) == stem + '.o']
                if r.returncode != 0 or changed != sorted(want) or len(want) != 1:
                    return self.fail(case, raw, 'changed_header_rebuilds_exactly_the_object_that_includes_it', header=stem + '.h',
                                     rebuilt=changed, expected=want, output=(r.stdout + r.stderr)[-300:])
            return True
        finally:
            shutil.rmtree(top, ignore_errors=True)


class MultiOutputStep(Bounded):
    """A step with several outputs (a generated header and a generated source) whose outputs are consumed by different
    objects: after the generator's input changes, ONE run of make rebuilds every object that consumes an output (the
    one including the header and the one compiled from the source), and the next run rebuilds nothing; clean removes
    the outputs and the stamp, and the build after clean works."""
    target = 'bfg9000/backends/make/writer.py::multitarget_rule'
    properties = ('C07', 'C03', 'C04')
    reason = 'behaviour of GNU make on the generated rules over an edit history: runtime contract with the real tools'
    native_chunk = 1

    def native_inputs(self, case, alphabet, maxlen, rng, extra=0):
        yield {'outputs': ['gen/conf.h', 'gen/conf.c']}
        yield {'outputs': ['gen/conf.c', 'gen/conf.h']}
        yield {'outputs': ['conf.h', 'sub dir/conf.c']}
        yield {'outputs': ['gen dir/conf.h', 'gen dir/include sub/conf.c']}      # an output directory inside another one

    def native_check(self, case, raw):
        import shutil, subprocess, tempfile
        from pyvc.interp import REPO
        outs = raw['outputs']
        hdr = [o for o in outs if o.endswith('.h')][0]
        csrc = [o for o in outs if o.endswith('.c')][0]
        top = tempfile.mkdtemp(prefix='pyvc_multi_')
        try:
            src, b = top + '/src', top + '/b'

            def w(rel, text):
                fp = src + '/' + rel
                _os.makedirs(_os.path.dirname(fp), exist_ok=True)
                with open(fp, 'w') as f:
                    f.write(text)
            w('build.bfg', "project('m')\ngen = build_step(%r, cmd=['sh', source_file('gen.sh'), source_file('value.txt'), %r, %r])\n"
                           "by = {o.path.suffix: o for o in gen}\n"
                           "executable('prog', files=['main.c', by[%r]], includes=[by[%r]])\n" % (outs, hdr, csrc, csrc, hdr))
            w('gen.sh', 'v=$(cat "$1")\necho "#define V $v" > "$2"\necho "int conf(void) { return $v; }" > "$3"\n')
            w('value.txt', '3\n')
            w('main.c', '#include "%s"\nint conf(void);\nint main(void) { return V * 10 + conf(); }\n' % _os.path.basename(hdr))
            _os.makedirs(top + '/bin')
            for name, mod in (('bfg9000', 'bfg9000.driver'), ('bfg9000-depfixer', 'bfg9000.depfixer')):
                lp = top + '/bin/' + name
                with open(lp, 'w') as f:
                    f.write("#!/bin/sh\nPYTHONPATH=%s exec /venv/bin/python -c 'import sys; sys.argv[0] = \"%s\"; "
                            "from %s import main; sys.exit(main())' \"$@\"\n" % (REPO, lp, mod))
                _os.chmod(lp, 0o755)
            env = dict(_os.environ, PATH=top + '/bin:/venv/bin:' + _os.environ['PATH'])
            env.pop('MAKEFLAGS', None)

            def run(cmd, **kw):
                return subprocess.run(cmd, env=env, capture_output=True, text=True, timeout=300, **kw)

            def make(*a):
                r = run(['make', '-C', b] + list(a))
                return r.returncode, r.stdout + r.stderr
            r = run([top + '/bin/bfg9000', 'configure-into', src, b, '--backend=make', '--no-resolve-packages'])
            if r.returncode != 0:
                return self.fail(case, raw, 'configure_succeeds', stderr=r.stderr[-500:])
            rc, out = make()
            if rc != 0 or run([b + '/prog']).returncode != 33:
                return self.fail(case, raw, 'first_build_succeeds', output=out[-600:])
            rc, out = make()
            if rc != 0 or 'cc ' in out or 'gen.sh' in out:
                return self.fail(case, raw, 'second_build_does_nothing', output=out[-400:])
            if make('-q')[0] != 0:
                return self.fail(case, raw, 'up_to_date_right_after_the_build', question_mode_exit=make('-q')[0],
                                 would_run=make('-n')[1][-300:])
            import time
            time.sleep(0.05)            # modification times have nanosecond resolution here
            w('value.txt', '4\n')
            rc, out = make()
            got = run([b + '/prog']).returncode
            if rc != 0 or got != 44:
                return self.fail(case, raw, 'one_build_rebuilds_every_consumer_of_an_output', program_exit=got, expected=44, output=out[-600:])
            rc, out = make()
            if rc != 0 or 'cc ' in out or 'gen.sh' in out:
                return self.fail(case, raw, 'build_after_the_rebuild_does_nothing', output=out[-400:])
            rc, out = make('clean')
            left = [o for o in outs + [outs[0] + '.stamp', 'prog'] if _os.path.exists(b + '/' + o)]
            if rc != 0 or left:
                return self.fail(case, raw, 'clean_removes_outputs_and_stamp', left=left)
            rc, out = make()
            if rc != 0 or run([b + '/prog']).returncode != 44:
                return self.fail(case, raw, 'build_after_clean_succeeds', output=out[-500:])
            return True
        finally:
            shutil.rmtree(top, ignore_errors=True)


def registry():
    return [DepfixerReference(), CompilerCall(), IncrementalBuild(), EveryObjectTracksItsHeaders(), MultiOutputStep()]
