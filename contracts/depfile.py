"""C07 (and the depfile part of C04): depfixer kernel and the compiler's depfile flags."""
import io
import itertools as _it
import z3
from pyvc import terms as T
from pyvc.contract import Contract, Args
from pyvc.values import Sym, Obj, PList, PDict, fresh_sym
from pyvc import models as MD
from contracts.bounded_cmd import Bounded
from specs import make as MK

import bfg9000.depfixer as DF
import bfg9000.tools.cc.compiler as CC


NAMES = ['a.c', 'dir/b.h', 'my\\ header.h', 'x\\#y.h', 'p$$q.h', 'c\\:d.h', 'tab\\\tname.h']
SEPS = [' ', '  ', ' \\\n  ', '\t']


class DepfixerReference(Bounded):
    """depfixer.emit_deps on generated gcc-style depfiles (grammar: `targets ':' deps` per logical line, names with
    backslash-escaped blanks / `#` / `:` and `$$`, separators blank / tab / backslash-newline continuation; up to two
    rules, up to three dependencies from a pool of seven spellings): the output is exactly one `dep:` line per
    dependency, spelled as in the input."""
    target = 'bfg9000/depfixer.py::emit_deps'
    properties = ('C07', 'C04')
    reason = 'tokenize() is an iterator with one-character lookahead (next() on a shared iterator): outside the subset'

    def native_inputs(self, case, alphabet, maxlen, rng, extra=0):
        rules = []
        for n in range(0, 4):
            for deps in _it.permutations(range(len(NAMES)), n):
                for sep in range(len(SEPS)):
                    rules.append((deps, sep))
        rules = rng.sample(rules, 400) if len(rules) > 400 else rules
        for deps, sep in rules:
            yield {'rules': [{'targets': ['out.o'], 'deps': [NAMES[i] for i in deps], 'sep': SEPS[sep]}]}
        for (d1, s1), (d2, s2) in _it.product(rules[:12], rules[12:24]):
            yield {'rules': [{'targets': ['o1.o', 'o1.d'], 'deps': [NAMES[i] for i in d1], 'sep': SEPS[s1]},
                             {'targets': ['o2.o'], 'deps': [NAMES[i] for i in d2], 'sep': SEPS[s2]}]}

    def native_check(self, case, raw):
        text, want = '', []
        for r in raw['rules']:
            text += ' '.join(r['targets']) + ':' + ''.join(r['sep'] + d for d in r['deps']) + '\n'
            want += r['deps']
        out = io.StringIO()
        try:
            DF.emit_deps(io.StringIO(text), out)
        except DF.ParseError as e:
            return self.fail(case, raw, 'well_formed_depfile_accepted', text=text, error=str(e))
        exp = ''.join(d + ':\n' for d in want)
        if out.getvalue() != exp:
            return self.fail(case, raw, 'one_rule_per_dependency_spelled_as_given', text=text, output=out.getvalue(), expected=exp)
        return True


class CompilerCall(Contract):
    """CcBaseCompiler._call: when a depfile is requested the command carries `-MMD -MF <depfile>` (and always
    `-c <input>` and `-o <output>`)."""
    target = 'bfg9000/tools/cc/compiler.py::CcBaseCompiler._call'
    properties = ('C07',)

    def cases(self):
        return ['deps', 'nodeps']

    def params(self, cx, case):
        Tok = ('opaque', 'Thing')
        from pyvc.values import opaque_sort
        Thing = opaque_sort('Thing')

        def t(n):
            return Sym(z3.Const(n, Thing), Tok)
        selfv = Obj(CC.CcBaseCompiler, {})
        from bfg9000.platforms.posix import PosixPath
        cx.ghost('dep', Obj(PosixPath, {'tag': 'depfile'}))
        return {'self': selfv, 'cmd': PList([t('cc')]), 'input': t('input'), 'output': t('output'),
                'deps': cx.ghosts['dep'] if case == 'deps' else None, 'flags': PList([t('f0')])}

    def opaque_calls(self):
        def flags(I, args, kwargs, node):
            return PList(['-x', 'c'])
        return {CC.CcBaseCompiler.__dict__['_always_flags'].fget: flags}

    def ensures(self, a, r):
        items = r.items if isinstance(r, PList) and r.concrete else None
        if items is None:
            return {'result_is_a_list': z3.BoolVal(False)}

        def has_seq(seq):
            for i in range(len(items) - len(seq) + 1):
                if all(items[i + k] is seq[k] or (isinstance(seq[k], str) and items[i + k] == seq[k]) for k in range(len(seq))):
                    return True
            return False
        out = {'compiles_the_input_to_the_output': z3.BoolVal(has_seq(['-c', a.input]) and has_seq(['-o', a.output]) and
                                                                items[0] is a.cmd.items[0])}
        if a.deps is not None:
            out['depfile_requested_with_MMD_MF'] = z3.BoolVal(has_seq(['-MMD', '-MF', a.deps]))
        else:
            out['no_depfile_flags'] = z3.BoolVal(not any(isinstance(x, str) and x in ('-MMD', '-MF') for x in items))
        return out


def registry():
    return [DepfixerReference(), CompilerCall()]
