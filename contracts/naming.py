"""Contracts for implicit output naming (C05): builtins/path.py::within_directory, BasePath.stripext."""
import z3
from pyvc import terms as T
from pyvc.contract import Contract, Lemma, Args
from pyvc.values import Sym, Obj, PList, fresh_sym
from pyvc import models as MD
from pyvc import regex as RX
from contracts.bounded_cmd import Bounded
import itertools as _it

import bfg9000.builtins.path as bpath
from bfg9000.path import Path, Root
from bfg9000.platforms.basepath import BasePath

SEP, DOT = ord('/'), ord('.')
ONLY_DOT = T.CharClass.of('.', "'.'")

# the specification: every component that is exactly `..` becomes `PAR` (what the property needs so that the
# rewritten suffix stays below the directory and distinct inputs stay distinct)
PARMAP = MD.f3_fold(SEP, (ONLY_DOT, ONLY_DOT), 'PAR', name='spec_parmap')


def parmap(w):
    st, out = PARMAP.run(PARMAP.init, w)
    return T.cat(out, PARMAP.flush(st))


_GEN = {}


def same_transducer_lemma(code_fold):
    """Generated for the fold the code's regex currently denotes: it is the spec transducer (state for state)."""
    if code_fold.name not in _GEN:
        def stmt(u, f=code_fold):
            s1, o1 = f.run(f.init, u)
            s2, o2 = PARMAP.run(PARMAP.init, u)
            return T.AND(s1[0] == s2[0], s1[1] == s2[1], s1[2] == s2[2], o1 == o2)
        _GEN[code_fold.name] = Lemma('regex_is_parent_reference_map_%s' % code_fold.name, [('u', T.Str)], stmt,
                                     induct=('snoc', 'u'))
    return _GEN[code_fold.name]


class WithinDirectory(Contract):
    """The suffix handed to directory.append() is the relative path with exactly its `..` components
    replaced by PAR."""
    target = 'bfg9000/builtins/path.py::within_directory'
    properties = ('C05',)

    def params(self, cx, case):
        cx.ghost('rel', z3.Const('rel', T.Str))
        return {'path': Obj(Path, {}), 'directory': Obj(Path, {})}

    def opaque_calls(self):
        def relpath(I, args, kwargs, node):
            I.events.append(('relpath', args, dict(kwargs)))
            return Sym(self.cur.rel, 'str')

        def parent(I, args, kwargs, node):
            return Obj(Path, {'is_parent_of_directory': True})

        def append(I, args, kwargs, node):
            I.events.append(('append', args, dict(kwargs)))
            return Obj(Path, {'appended': args[1]})
        return {BasePath.__dict__['relpath']: relpath, BasePath.__dict__['parent']: parent,
                BasePath.__dict__['append']: append}

    def ensures(self, a, r):
        ap = [e for e in a.events if e[0] == 'append']
        rp = [e for e in a.events if e[0] == 'relpath']
        ok = len(ap) == 1 and len(rp) == 1 and ap[0][1][0] is a.directory and rp[0][1][0] is a.path
        out = {'relative_to_parent_of_directory_then_appended_to_directory':
               z3.BoolVal(ok and rp[0][2].get('localize') is False and
                          isinstance(rp[0][1][1], Obj) and rp[0][1][1].attrs.get('is_parent_of_directory') is True)}
        if ok:
            out['parent_references_and_only_they_become_PAR'] = MD.sym_str(ap[0][1][1]) == parmap(a.rel)
        return out

    def proof(self, p, a, r, name, case):
        if name == 'parent_references_and_only_they_become_PAR':
            ap = [e for e in a.events if e[0] == 'append'][0]
            t = MD.sym_str(ap[1][1])
            for f in folds_in(t):
                if f.name.startswith('f3_'):
                    lem = same_transducer_lemma(f)
                    p.use(lem.inst(u=a.rel))
        p.qed()


def folds_in(term):
    seen, out = set(), []

    def walk(t):
        if t.get_id() in seen:
            return
        seen.add(t.get_id())
        if z3.is_app(t):
            nm = t.decl().name()
            if nm in T.FOLDS and T.FOLDS[nm][0] not in out:
                out.append(T.FOLDS[nm][0])
            for k in t.children():
                walk(k)
    walk(term)
    return out


# ---- bounded: the naming pipeline on the real functions ------------------------------------------------------

COMPONENTS = ['a', 'ab', 'cd', 'x', 'a.b', 'PA', '.a', 'd.d']


def spec_stripext(suffix):
    """remove the extension of the *last component*: the part from its last dot, unless the dot is leading"""
    head, sepc, base = suffix.rpartition('/')
    i = base.rfind('.')
    if i <= 0 or base[:i].strip('.') == '':
        return suffix
    return head + sepc + base[:i]


class ObjectNaming(Bounded):
    """within_directory on the real Path objects: the result lies below the directory and distinct (normalised)
    names give distinct results; stripext only strips the extension of the last component."""
    target = 'bfg9000/builtins/path.py::within_directory'
    properties = ('C05', 'C19', 'C12')
    reason = 'BasePath.relpath/append/stripext delegate to posixpath (library) and re-normalise: runtime contract only'

    def cases(self):
        return ['injective', 'injective-windows-flavour', 'stripext']

    def native_inputs(self, case, alphabet, maxlen, rng, extra=0):
        if case == 'stripext':
            for n in range(1, 6):
                for t in _it.product('a./', repeat=n):
                    yield {'suffix': ''.join(t)}
            for c in ('gen.d/lexer', 'proj-1.2/x', 'a.b/c.d.e', 'a/.hidden', 'a/..b'):
                yield {'suffix': c}
            return
        names = []
        for n in (1, 2, 3):
            for t in _it.product(COMPONENTS[:6], repeat=n):
                names.append('/'.join(t))
        dirs = ['prog.int', 'sub/prog.int', 's/t/prog.int', 'ab/prog.int']
        for d in dirs:
            pool = names if len(names) <= 120 else rng.sample(names, 120)
            yield {'directory': d, 'names': pool}
        # deep submodule nesting: many parent references
        for depth in (3, 9, 12):
            d = '/'.join('d%d' % i for i in range(depth)) + '/prog.int'
            yield {'directory': d, 'names': ['/'.join(['d%d' % i for i in range(k)] + ['src', 'x']) for k in range(depth + 1)] +
                   ['x', 'src/x', 'y/x']}

    def native_check(self, case, raw):
        if case == 'stripext':
            try:
                p = Path(raw['suffix'])
            except ValueError:
                return None
            if p.suffix != raw['suffix'].rstrip('/') or not p.suffix or p.directory:
                return None
            want = spec_stripext(p.suffix)
            try:
                got = p.stripext().suffix
            except Exception as e:      # noqa
                return self.fail(case, raw, 'only_the_extension_of_the_last_component_is_stripped', error=repr(e),
                                 expected=want)
            if got != want:
                return self.fail(case, raw, 'only_the_extension_of_the_last_component_is_stripped', got=got, expected=want)
            return True
        P = Path
        if case == 'injective-windows-flavour':
            from bfg9000.platforms.windows import WindowsPath as P      # noqa: N814
        d = P(raw['directory'] + '/')
        seen = {}
        for n in raw['names']:
            try:
                p = P(n)
            except ValueError:
                continue
            if 'PAR' in p.suffix.split('/'):
                continue
            r = bpath.within_directory(p, d)
            if not (r.root == d.root and (r.suffix + '/').startswith(d.suffix + '/')):
                return self.fail(case, raw, 'result_lies_below_the_directory', name=n, result=r.suffix)
            if r.suffix in seen and seen[r.suffix] != p.suffix:
                return self.fail(case, raw, 'distinct_inputs_get_distinct_outputs', name=n, other=seen[r.suffix],
                                 result=r.suffix)
            seen[r.suffix] = p.suffix
        return True


class ObjectCollisions(Bounded):
    """The object files the real compile / link builtins derive for the sources of one target (through the real
    configure_build on a temporary tree): distinct sources get distinct objects, every object lies in the build
    directory, and no two targets share an object."""
    target = 'bfg9000/builtins/compile.py::CompileSource.__init__'
    properties = ('C05',)
    reason = 'whole builtin layer (default names, intermediate directories, compiler output_file): runtime contract only'
    native_chunk = 1
    SETS = [
        ['foo.c', 'foo.test.c', 'foo.test.x.c'], ['x.y.c', 'x.y.z.c', 'x.c'], ['a/foo.c', 'b/foo.c', 'foo.c'],
        ['dir.d/foo.c', 'dir/foo.c', 'dir.d/foo.bar.c'], ['a b.c', 'a.b.c', 'a/b.c'], ['../src2/foo.c', 'foo.c', 'sub/../bar.c'],
        ['./~/a.c', 'a.c'],       # a directory literally named `~`
        ['parse/scan.l', 'config/scan.l', 'scan.l'],      # sources that are first turned into C by a generator (lex)
        ['/opt/elsewhere/x.c', 'x.c', '/opt/x.c'],        # sources outside both trees, given by absolute path
    ]
    # generated_sources(): (inputs, language)
    GENERATED = [(['x/scan.l', 'y/scan.l', 'scan.l'], None), (['gui/widget.hpp', 'net/widget.hpp', 'widget.hpp'], 'qtmoc'),
                 (['a/res.qrc', 'b/res.qrc'], None), (['a/form.ui', 'b/form.ui', 'form.ui'], None)]

    def native_inputs(self, case, alphabet, maxlen, rng, extra=0):
        for i in range(len(self.SETS)):
            for where in ('', 'sub'):
                yield {'sources': i, 'script_dir': where}
        for i in range(len(self.GENERATED)):
            for where in ('', 'sub'):
                yield {'generated': i, 'script_dir': where}

    def native_check(self, case, raw):
        from contracts.scripts import run_configure
        d = raw['script_dir']
        if 'generated' in raw:
            import posixpath
            srcs, lang = self.GENERATED[raw['generated']]
            body = ("gen = generated_sources(%r%s)\n"
                    "env.trace.append(('gens', [(str(g.path.root), g.path.suffix) for g in gen]))\n"
                    % (srcs, ', lang=%r' % lang if lang else ''))
            files = {'build.bfg': 'submodule(%r)\n' % d, d + '/build.bfg': body} if d else {'build.bfg': body}
            for s_ in srcs:
                files[posixpath.join(d, s_)] = ''
            trace = run_configure(files, [])
            if any(t[0] == 'FAILED' for t in trace):
                return self.fail(case, raw, 'configure_succeeds', error=[t[1] for t in trace if t[0] == 'FAILED'][0][-500:])
            gens = [g for t in trace if t[0] == 'gens' for g in t[1]]
            if len(gens) != len(srcs):
                return self.fail(case, raw, 'one_generated_source_per_input', generated=gens)
            if any(r != 'Root.builddir' or s_.startswith('..') for r, s_ in gens):
                return self.fail(case, raw, 'generated_sources_stay_in_the_build_directory', generated=sorted(gens))
            if len(set(gens)) != len(gens):
                return self.fail(case, raw, 'distinct_inputs_get_distinct_generated_sources', generated=sorted(gens))
            return True
        srcs = self.SETS[raw['sources']]
        body = ("t = executable('prog', files=%r)\nu = executable('other/prog2', files=%r)\n"
                "v1 = executable('prog.v1', files=%r)\nv2 = executable('prog.v2', files=%r)\n"
                "for x in (t, u, v1, v2):\n    env.trace.append(('objs', [(str(o.path.root), o.path.suffix) for o in x.creator.files]))\n"
                "    env.trace.append(('gens', [(str(o.creator.file.path.root), o.creator.file.path.suffix) for o in x.creator.files "
                "if o.creator.file.creator]))\n"
                % (srcs, srcs[:2], srcs[:1], srcs[:1]))
        files = {}
        if d:
            files['build.bfg'] = 'submodule(%r)\n' % d
            files[d + '/build.bfg'] = body
        else:
            files['build.bfg'] = body
        import posixpath
        for s_ in srcs:
            files[posixpath.normpath(posixpath.join(d, s_))] = 'int f(void) { return 0; }\n'
        files = {k: v for k, v in files.items() if not k.startswith('..') and not k.startswith('/')}
        if any(posixpath.normpath(posixpath.join(d, s_)).startswith('..') for s_ in srcs):
            return None            # a source outside the source tree: not this claim
        trace = run_configure(files, [])
        if any(t[0] == 'FAILED' for t in trace):
            return self.fail(case, raw, 'configure_succeeds', error=[t[1] for t in trace if t[0] == 'FAILED'][0][-500:])
        objs = [o for t in trace if t[0] == 'objs' for o in t[1]]
        if len(objs) != len(srcs) + 4:
            return self.fail(case, raw, 'one_object_per_source', objects=objs)
        if any(r != 'Root.builddir' or s_.startswith('..') for r, s_ in objs):
            return self.fail(case, raw, 'objects_stay_in_the_build_directory', objects=sorted(objs))
        if len(set(objs)) != len(objs):
            return self.fail(case, raw, 'distinct_sources_get_distinct_objects', objects=sorted(objs))
        gens = [g for t in trace if t[0] == 'gens' for g in t[1]]
        if any(r != 'Root.builddir' or s_.startswith('..') for r, s_ in gens) or len(set(gens)) != len(gens):
            return self.fail(case, raw, 'distinct_sources_get_distinct_generated_sources', generated=sorted(gens))
        return True


UNTOUCHED_BFG = """
project('u', version='1.0')
lib = static_library('core', files=['a/x.c', 'b/x.c'])
exe = executable('prog', files=['main.c'], libs=[lib])
c1 = copy_file('data/in.txt')
c2 = copy_file('data/sym.txt', mode='symlink')
c3 = copy_file('data/hard.txt', mode='hardlink')
c4 = copy_file('moved/elsewhere.txt', 'data/in.txt', mode='symlink')
gen = build_step('gen.c', cmd=['cp', source_file('tmpl.c'), 'gen.c'])
m1 = build_step(['client/messages.c', 'client/messages.h'], cmd=['touch', 'client/messages.c', 'client/messages.h'])
m2 = build_step(['server/messages.c', 'server/messages.h'], cmd=['touch', 'server/messages.c', 'server/messages.h'])
sub = submodule('sub')
default(exe, c1, c2, c3, c4, gen, sub['p'], m1[0], m2[0])
install(exe)
"""


class SourceUntouched(Bounded):
    """Configure, build, regenerate, clean, rebuild and package a generated project with the real tools (make backend),
    for several spellings of the copy / link commands taken from the environment: after every stage the source
    directory holds exactly the files it held before, with the same content and kind."""
    target = 'bfg9000/tools/copy_file.py::LinkCommand.__init__'
    properties = ('C05',)
    reason = 'whole pipeline plus make, cc, ln, cp: runtime contract with the real tools'
    native_chunk = 1
    ENVS = {'default': {}, 'ln-by-path': {'SYMLINK': '/bin/ln -sf', 'HARDLINK': '/bin/ln -f'},
            'cp-by-path': {'CP': '/bin/cp -f'}, 'builddir-inside-srcdir': {}}

    def native_inputs(self, case, alphabet, maxlen, rng, extra=0):
        for e in self.ENVS:
            yield {'environment': e}

    def native_check(self, case, raw):
        import hashlib, os, shutil, subprocess, tempfile, time
        from pyvc.interp import REPO
        top = tempfile.mkdtemp(prefix='pyvc_src_')
        try:
            src = top + '/src'
            b = src + '/out/b' if raw['environment'] == 'builddir-inside-srcdir' else top + '/b'

            def w(rel, text):
                fp = src + '/' + rel
                os.makedirs(os.path.dirname(fp), exist_ok=True)
                with open(fp, 'w') as f:
                    f.write(text)
            w('build.bfg', UNTOUCHED_BFG)
            w('sub/build.bfg', "p = executable('p', files=['../main.c', 'q/main.c'])\nexport(p=p)\n")
            for f in ('a/x.c', 'b/x.c', 'tmpl.c'):
                w(f, 'int fn_%s(void) { return 0; }\n' % f.replace('/', '_')[:-2])
            w('main.c', 'int main(void) { return 0; }\n')
            w('sub/q/main.c', 'int q(void) { return 0; }\n')
            for f in ('data/in.txt', 'data/sym.txt', 'data/hard.txt'):
                w(f, 'content of %s\n' % f)
            os.makedirs(top + '/bin')
            for name, mod in (('bfg9000', 'bfg9000.driver'), ('bfg9000-depfixer', 'bfg9000.depfixer')):
                lp = top + '/bin/' + name
                with open(lp, 'w') as f:
                    f.write("#!/bin/sh\nPYTHONPATH=%s exec /venv/bin/python -c 'import sys; sys.argv[0] = \"%s\"; "
                            "from %s import main; sys.exit(main())' \"$@\"\n" % (REPO, lp, mod))
                os.chmod(lp, 0o755)
            env = dict(os.environ, PATH=top + '/bin:/venv/bin:' + os.environ['PATH'], **self.ENVS[raw['environment']])
            env.pop('MAKEFLAGS', None)

            def snapshot():
                out = {}
                for dp, dn, fn in os.walk(src):
                    if dp == src and 'out' in dn:
                        dn.remove('out')        # the build directory of the `builddir-inside-srcdir` case
                    for n in dn + fn:
                        fp = os.path.join(dp, n)
                        rel = os.path.relpath(fp, src)
                        if os.path.islink(fp):
                            out[rel] = ('link', os.readlink(fp))
                        elif os.path.isdir(fp):
                            out[rel] = ('dir',)
                        else:
                            out[rel] = ('file', hashlib.sha1(open(fp, 'rb').read()).hexdigest())
                return out
            before = snapshot()

            def stage(name, cmd):
                r = subprocess.run(cmd, env=env, capture_output=True, text=True, timeout=300)
                after = snapshot()
                if after != before:
                    diff = {k: (before.get(k), after.get(k)) for k in set(before) | set(after) if before.get(k) != after.get(k)}
                    return self.fail(case, raw, 'source_directory_unchanged', stage=name, changed=diff)
                if r.returncode != 0:
                    return self.fail(case, raw, 'stage_succeeds', stage=name, output=(r.stdout + r.stderr)[-600:])
                return None
            stages = [('configure', [top + '/bin/bfg9000', 'configure-into', src, b, '--backend=make', '--no-resolve-packages',
                                     '--prefix=' + top + '/prefix']),
                      ('build', ['make', '-C', b]),
                      ('regenerate', [top + '/bin/bfg9000', 'refresh', b]),
                      ('rebuild', ['make', '-C', b]),
                      ('clean', ['make', '-C', b, 'clean']),
                      ('build-again', ['make', '-C', b]),
                      ('package', ['make', '-C', b, 'dist-gzip'])]
            for name, cmd in stages:
                res = stage(name, cmd)
                if res is not None:
                    return res
            # the copies and links really are in the build directory
            for f in ('data/in.txt', 'data/sym.txt', 'data/hard.txt', 'moved/elsewhere.txt', 'gen.c', 'prog', 'sub/p'):
                if not os.path.exists(b + '/' + f):
                    return self.fail(case, raw, 'outputs_are_in_the_build_directory', missing=f)
            for f, s_ in (('data/sym.txt', 'data/sym.txt'), ('moved/elsewhere.txt', 'data/in.txt'), ('data/in.txt', 'data/in.txt')):
                if open(b + '/' + f).read() != 'content of %s\n' % s_:
                    return self.fail(case, raw, 'copies_have_the_content_of_their_source', file=f)
            return True
        finally:
            shutil.rmtree(top, ignore_errors=True)


def registry():
    from contracts import graph
    return [WithinDirectory(), ObjectNaming(), ObjectCollisions(), SourceUntouched()] + [c for c in graph.registry() if 'C05' in c.properties]
