"""C15 / C10: small functions between the install rules (contracts/emitters.py) and the tools they run.

`Environment.supports_destdir` decides whether the writers define DESTDIR at all: C15 says DESTDIR + the directory of
the kind is where a file goes, which is only a path when no installation directory carries a drive or share of its
own, so the answer must be "yes" exactly when every directory is set and none is an absolute path with a drive.

`post_install` of install_name_tool / patchelf produce the one command that rewrites what an installed binary records
about its libraries: the file patched is the staged (DESTDIR) copy, what is written into it are the *installed*
locations (never the staging or build locations).

The objects are abstract (opaque fields); list lengths 0..2 stand for the uniform list comprehension."""
import z3
from pyvc import terms as T
from pyvc.contract import Contract
from pyvc.values import Sym, Obj, PList, PDict, OpaqueFn, opaque_sort

from bfg9000.path import Root, InstallRoot
from bfg9000.environment import Environment
from bfg9000.tools import install_name_tool as INT, patchelf as PE
import bfg9000.options as opts

ThingT = opaque_sort('StepThing')
TT = ('opaque', 'StepThing')


def thing(name):
    return Sym(z3.Const(name, ThingT), TT)


class SupportsDestdir(Contract):
    target = 'bfg9000/environment.py::Environment.supports_destdir'
    properties = ('C15',)
    KINDS = ('unset', 'below-prefix', 'absolute')
    ROOTS = (InstallRoot.prefix, InstallRoot.exec_prefix, InstallRoot.bindir)

    def cases(self):
        import itertools
        return ['/'.join(c) for n in (1, 2, 3) for c in itertools.product(self.KINDS, repeat=n)]

    def params(self, cx, case):
        dirs, want = {}, []
        for i, k in enumerate(case.split('/')):
            if k == 'unset':
                dirs[self.ROOTS[i]] = None
                want.append(z3.BoolVal(False))
                continue
            drive = cx.bool('has_drive_%d' % i)
            root = Root.absolute if k == 'absolute' else InstallRoot.prefix
            dirs[self.ROOTS[i]] = Obj(object, {'root': root, 'has_drive': OpaqueFn('has_drive', lambda I, a, kw, d=drive: d)})
            want.append(z3.Not(drive.e) if k == 'absolute' else z3.BoolVal(True))
        cx.ghost('want', z3.And(*want))
        return {'self': Obj(Environment, {'install_dirs': PDict(dirs)})}

    def ensures(self, a, r):
        return {'destdir_iff_every_directory_is_set_and_none_has_a_drive': (z3.BoolVal(r) if isinstance(r, bool) else r.e) == a.want}


class RpathTool(Contract):
    """Common part: an environment whose tool() returns a recording callable."""

    def environment(self, name):
        def call(I, args, kwargs, node=None):
            I.events.append(('tool_call', list(args), dict(kwargs)))
            return Obj(object, {'the_command': True})

        def tool(I, args, kwargs, node=None):
            I.events.append(('tool', list(args), dict(kwargs)))
            return Obj(object, {'__call__': OpaqueFn('tool_call', call)})
        return Obj(object, {'tool': OpaqueFn('tool', tool)})

    @staticmethod
    def staged(tag):
        return Obj(object, {'path': Obj(object, {'staged': tag, 'cross': OpaqueFn(
            'cross', lambda I, a, k: Obj(object, {'without_destdir': tag}))})})

    @staticmethod
    def installed(tag):
        return Obj(object, {'path': Obj(object, {'installed': tag, 'parent': OpaqueFn(
            'parent', lambda I, a, k: Obj(object, {'installed_directory': tag}))})})

    def database(self, files):
        """files: objects with a 'tag' field (the values handed to the function are copied per path, so everything the
        postcondition compares is identified by its tag)."""
        return Obj(object, {'host': PDict({f: self.staged(f.attrs['tag']) for f in files}),
                            'target': PDict({f: self.installed(f.attrs['tag']) for f in files})})

    @staticmethod
    def has(v, key, tag):
        return isinstance(v, Obj) and v.attrs.get(key) == tag


class DarwinPostInstall(RpathTool):
    target = 'bfg9000/tools/install_name_tool.py::post_install'
    properties = ('C15',)

    def cases(self):
        return ['%s/%d/%d' % (k, nc, nd) for k in ('library', 'program') for nc in (0, 1) for nd in (0, 1, 2)]

    def params(self, cx, case):
        k, nc, nd = case.split('/')
        output = Obj(object, {'tag': 'output'})
        deps = [Obj(object, {'tag': 'dep%d' % i}) for i in range(int(nd))]
        output.attrs['runtime_deps'] = PList(list(deps))
        declared = [Obj(object, {'old': thing('old%d' % i), 'new': thing('new%d' % i)}) for i in range(int(nc))]
        options = Obj(object, {'filter': OpaqueFn('filter', lambda I, a, kw: PList(list(declared)))})
        cx.ghost('deps', ['dep%d' % i for i in range(int(nd))])
        cx.ghost('declared', [(thing('old%d' % i), thing('new%d' % i)) for i in range(int(nc))])
        cx.ghost('is_library', k == 'library')
        return {'env': self.environment('install_name_tool'), 'options': options, 'output': output,
                'install_db': self.database([output] + deps), 'is_library': k == 'library'}

    def opaque_calls(self):
        def name_of(I, args, kwargs, node=None):
            return Obj(object, {'build_name': args[0].attrs['tag']})
        return {INT.darwin_install_name: name_of}

    def ensures(self, a, r):
        calls = [e for e in a.events if e[0] == 'tool_call']
        tools = [e for e in a.events if e[0] == 'tool']
        out = {'one_install_name_tool_command': z3.BoolVal(len(calls) == 1 and len(tools) == 1 and tools[0][1] == ['install_name_tool'])}
        if len(calls) != 1:
            return out
        _, args, kw = calls[0]
        out['patches_the_staged_copy'] = z3.BoolVal(len(args) == 1 and self.has(args[0], 'staged', 'output'))
        ch = kw.get('changes')
        items = list(ch.items) if isinstance(ch, PList) and ch.concrete else None
        ok = items is not None and len(items) == len(a.declared) + len(a.deps) and all(isinstance(x, tuple) and len(x) == 2 for x in items)
        if ok:
            for x, (old, new) in zip(items, a.declared):
                ok = ok and all(isinstance(p, Sym) and z3.eq(p.e, q.e) for p, q in ((x[0], old), (x[1], new)))
            for x, d in zip(items[len(a.declared):], a.deps):
                ok = ok and self.has(x[0], 'build_name', d) and self.has(x[1], 'installed', d)
        out['every_library_reference_becomes_the_installed_location'] = z3.BoolVal(bool(ok))
        i = kw.get('id')
        if a.is_library:
            out['library_id_is_its_location_without_destdir'] = z3.BoolVal(self.has(i, 'without_destdir', 'output') or
                                                                           self.has(i, 'installed', 'output'))
        else:
            out['no_id_for_a_program'] = z3.BoolVal(i is None)
        return out


class PatchelfPostInstall(RpathTool):
    """Library options: each contributes the directory of the installed library; rpath_dir options contribute their
    directory when they apply to the installed binary.  The command, if any, patches the staged copy and sets exactly
    those directories (duplicates removed by `uniques`, recorded)."""
    target = 'bfg9000/tools/patchelf.py::post_install'
    properties = ('C15',)
    WHEN = {'always': opts.RpathWhen.always, 'installed': opts.RpathWhen.installed, 'uninstalled': opts.RpathWhen.uninstalled}

    def cases(self):
        return ['%d/%s' % (nl, w) for nl in (0, 1, 2) for w in ('none', 'always', 'installed', 'uninstalled')]

    def params(self, cx, case):
        nl, w = case.split('/')
        output = Obj(object, {'tag': 'output'})
        files = [Obj(object, {'tag': 'lib%d' % i}) for i in range(int(nl))]
        options = [Obj(opts.lib, {'library': Obj(PE.Library, {'runtime_file': f})}) for f in files]
        if w != 'none':
            options.append(Obj(opts.rpath_dir, {'when': self.WHEN[w], 'path': thing('given_dir')}))
        cx.ghost('libs', ['lib%d' % i for i in range(int(nl))])
        cx.ghost('when', w)
        return {'env': self.environment('patchelf'), 'options': PList(options), 'output': output,
                'install_db': self.database([output] + files)}

    def opaque_calls(self):
        def local(I, args, kwargs, node=None):
            # where the library is found before installation: some directory of the build (not the installed one)
            return Obj(object, {'build_directory': args[1].attrs['runtime_file'].attrs['tag']})

        def uniq(I, args, kwargs, node=None):
            I.events.append(('uniques', list(args), {}))
            return args[0]
        return {PE.local_rpath: local, PE.uniques: uniq}

    def ensures(self, a, r):
        calls = [e for e in a.events if e[0] == 'tool_call']
        want_dirs = [('lib', l) for l in a.libs]
        if a.when in ('always', 'installed'):
            want_dirs.append(('given', None))
        needed = bool(a.libs) or a.when in ('installed', 'uninstalled')
        out = {'a_command_iff_something_changes_on_installation': z3.BoolVal((len(calls) == 1) == needed and len(calls) <= 1)}
        if len(calls) != 1:
            return out
        _, args, kw = calls[0]
        out['patches_the_staged_copy'] = z3.BoolVal(len(args) == 2 and self.has(args[0], 'staged', 'output'))
        rp = args[1] if len(args) == 2 else None
        items = list(rp.items) if isinstance(rp, PList) and rp.concrete else None
        ok = items is not None and len(items) == len(want_dirs)
        if ok:
            for x, (kind, f) in zip(items, want_dirs):
                if kind == 'lib':
                    ok = ok and self.has(x, 'installed_directory', f)
                else:
                    ok = ok and isinstance(x, Sym) and z3.eq(x.e, thing('given_dir').e)
        out['search_path_is_the_installed_library_directories'] = z3.BoolVal(bool(ok))
        return out


# ---- the install and uninstall command lists (C15) -------------------------------------------------------------
#
# One description of an installation, read off the install database (built file -> staged copy, in insertion
# order): a plain file is copied *onto* its staged path with the mode of its kind; a directory with a file list is
# copied *into* its staged path, file by file relative to the directory (structure kept); then the post-install step of
# every entry that has one.  The uninstall list is one removal command whose operands are exactly the paths the
# install list creates: the staged path of each plain file, and staged directory + relative path for each file of a
# directory -- never the directory itself or a sub-directory listed among its members, never anything else.

import bfg9000.builtins.install as INS
from bfg9000.file_types import Directory as _Directory, File as _File


class InstallLists(RpathTool):
    properties = ('C15',)
    SHAPES = ('file', 'directory-2', 'directory-0', 'file+post', 'directory-3')     # directory-3: the third member is a sub-directory

    def cases(self):
        import itertools
        return ['none'] + ['/'.join(c) for n in (1, 2) for c in itertools.product(self.SHAPES, repeat=n)]

    def entries(self, case):
        return [] if case == 'none' else case.split('/')

    def database_of(self, case):
        host = {}
        for i, shape in enumerate(self.entries(case)):
            tag = 'item%d' % i
            srcpath = Obj(object, {'built': tag})
            if shape.startswith('directory'):
                n = int(shape[-1])
                files = []
                for j in range(n):
                    files.append(Obj(_Directory if j == 2 else _File, {'path': Obj(object, {'built_member': (tag, j), 'relpath': OpaqueFn(
                        'relpath', lambda I, a, k, tag=tag, j=j: Obj(object, {'relative': (tag, j), 'to_built': a[0].attrs.get('built')}))})}))
                src = Obj(_Directory, {'path': srcpath, 'files': PList(files), 'install_kind': 'data', 'post_install': None, 'tag': tag})
            else:
                post = None
                if shape == 'file+post':
                    post = OpaqueFn('post_install', lambda I, a, k, tag=tag: Obj(object, {'post_install_of': tag}))
                src = Obj(_File, {'path': srcpath, 'install_kind': 'program' if i % 2 else 'data', 'post_install': post, 'tag': tag})
            dstpath = Obj(object, {'staged': tag, 'append': OpaqueFn(
                'append', lambda I, a, k, tag=tag: Obj(object, {'staged_below': tag, 'member': a[0].attrs.get('relative'), 'of': a[0].attrs.get('to_built')}))})
            host[src] = Obj(object, {'path': dstpath})
        # representation invariant of InstallOutputs (add() is the only mutator): something was asked for explicitly
        # iff the database has entries
        return Obj(INS.InstallOutputs, {'host': PDict(host), 'target': PDict({}), 'env': None, 'explicit': PList(list(host)[:1])})

    def kind_of(self, case, i):
        shape = self.entries(case)[i]
        return 'data' if shape.startswith('directory') else ('program' if i % 2 else 'data')


class InstallFiles(InstallLists):
    target = 'bfg9000/builtins/install.py::_install_files'

    def params(self, cx, case):
        cx.ghost('case', case)
        return {'install_outputs': self.database_of(case), 'buildfile': Obj(object, {}), 'env': Obj(object, {})}

    def opaque_calls(self):
        def doppel_cmd(I, args, kwargs, node=None):
            def for_kind(I, a, k, node=None):
                kind = a[0]

                def run(I, a2, k2, node=None):
                    I.events.append(('copy', [kind] + list(a2), dict(k2)))
                    return Obj(object, {'copy_command': len([e for e in I.events if e[0] == 'copy']) - 1})
                return Obj(object, {'__call__': OpaqueFn('copy', run)})
            return Obj(object, {'__call__': OpaqueFn('doppel', for_kind)})

        def warn(I, args, kwargs, node=None):
            I.events.append(('warn', list(args), {}))
        import warnings
        return {INS._doppel_cmd: doppel_cmd, warnings.warn: warn}

    def ensures(self, a, r):
        shapes = self.entries(a.case)
        copies = [e for e in a.events if e[0] == 'copy']
        out = {'one_copy_command_per_entry': z3.BoolVal(len(copies) == len(shapes))}
        if len(copies) != len(shapes):
            return out
        ok_kind, ok_place, ok_members = True, True, True
        for i, (shape, (_, args, kw)) in enumerate(zip(shapes, copies)):
            tag = 'item%d' % i
            ok_kind = ok_kind and args[0] == self.kind_of(a.case, i)
            if shape.startswith('directory') and shape != 'directory-0' or shape == 'directory-0':
                n = int(shape[-1])
                ok_place = ok_place and len(args) == 4 and args[1] == 'into' and self.has(args[3], 'staged', tag) and \
                    self.has(kw.get('directory'), 'built', tag)
                rel = args[2] if len(args) == 4 else None
                items = list(rel.items) if isinstance(rel, PList) and rel.concrete else None
                ok_members = ok_members and items is not None and len(items) == n and all(
                    self.has(x, 'relative', (tag, j)) and self.has(x, 'to_built', tag) for j, x in enumerate(items))
            else:
                ok_place = ok_place and len(args) == 4 and args[1] == 'onto' and self.has(args[2], 'built', tag) and \
                    self.has(args[3], 'staged', tag) and not kw
        out['copied_with_the_mode_of_its_kind'] = z3.BoolVal(bool(ok_kind))
        out['each_entry_goes_to_its_staged_path'] = z3.BoolVal(bool(ok_place))
        out['directory_members_relative_to_the_directory'] = z3.BoolVal(bool(ok_members))
        items = list(r.items) if isinstance(r, PList) and r.concrete else None
        posts = [i for i, sh in enumerate(shapes) if sh == 'file+post']
        ok = items is not None and len(items) == len(shapes) + len(posts)
        if ok:
            ok = all(self.has(x, 'copy_command', i) for i, x in enumerate(items[:len(shapes)])) and \
                all(self.has(x, 'post_install_of', 'item%d' % i) for x, i in zip(items[len(shapes):], posts))
        out['list_is_the_copies_then_the_post_install_steps'] = z3.BoolVal(bool(ok))
        return out


class UninstallFiles(InstallLists):
    target = 'bfg9000/builtins/install.py::_uninstall_files'

    def params(self, cx, case):
        cx.ghost('case', case)
        return {'install_outputs': self.database_of(case), 'env': self.environment('rm')}

    def ensures(self, a, r):
        shapes = self.entries(a.case)
        calls = [e for e in a.events if e[0] == 'tool_call']
        items = list(r.items) if isinstance(r, PList) and r.concrete else None
        if not shapes:
            return {'nothing_to_remove_when_nothing_is_installed': z3.BoolVal(items == [] and not calls)}
        out = {'one_removal_command': z3.BoolVal(len(calls) == 1 and items is not None and len(items) == 1 and
                                                 self.has(items[0], 'the_command', True))}
        if len(calls) != 1:
            return out
        _, args, kw = calls[0]
        ops = args[0] if len(args) == 1 else None
        ops = list(ops.items) if isinstance(ops, PList) and ops.concrete else None
        want = []
        for i, shape in enumerate(shapes):
            tag = 'item%d' % i
            if shape.startswith('directory'):
                # (a member that is itself a directory is created by the copy but is not a file to remove)
                want += [('member', tag, j) for j in range(int(shape[-1])) if j != 2]
            else:
                want.append(('file', tag))
        ok = ops is not None and len(ops) == len(want)
        if ok:
            for x, w in zip(ops, want):
                if w[0] == 'file':
                    ok = ok and self.has(x, 'staged', w[1])
                else:
                    ok = ok and self.has(x, 'staged_below', w[1]) and self.has(x, 'member', (w[1], w[2])) and self.has(x, 'of', w[1])
        out['removes_exactly_the_paths_the_install_list_creates'] = z3.BoolVal(bool(ok))
        return out


class AddInstallPaths(Contract):
    """Every installation root gets exactly one path variable, bound to the configured directory of that root; the
    DESTDIR variable is defined iff the backend has one (supports_destdir), from the configured environment."""
    target = 'bfg9000/builtins/install.py::_add_install_paths'
    properties = ('C15',)

    def cases(self):
        return ['destdir', 'no-destdir']

    def params(self, cx, case):
        from bfg9000.path import DestDir
        pv = {r: Obj(object, {'variable_for': r.name}) for r in InstallRoot}
        if case == 'destdir':
            pv[DestDir.destdir] = Obj(object, {'variable_for': 'DESTDIR'})
        cx.ghost('destdir', case == 'destdir')

        def variable(I, a, k, node=None):
            I.events.append(('variable', list(a), dict(k)))
            return a[0]

        def getvar(I, a, k, node=None):
            I.events.append(('getvar', list(a), dict(k)))
            return Obj(object, {'configured_value_of': a[0], 'default': a[1] if len(a) > 1 else None})
        buildfile = Obj(object, {'path_vars': PDict(pv), 'variable': OpaqueFn('variable', variable),
                                 'Section': Obj(object, {'path': 'the-path-section', 'other': 'another-section'})})
        env = Obj(object, {'install_dirs': PDict({r: Obj(object, {'directory_of': r.name}) for r in InstallRoot}),
                           'variables': Obj(object, {'get': OpaqueFn('get', getvar)})})
        return {'buildfile': buildfile, 'env': env}

    def ensures(self, a, r):
        defs = [e for e in a.events if e[0] == 'variable']
        roots = [r_.name for r_ in InstallRoot]
        got = {}
        ok = True
        for _, args, kw in defs:
            ok = ok and len(args) == 3 and not kw and isinstance(args[0], Obj) and args[2] == 'the-path-section'
            if ok:
                nm = args[0].attrs.get('variable_for')
                ok = ok and nm not in got
                got[nm] = args[1]
        out = {'one_definition_per_variable_in_the_path_section': z3.BoolVal(bool(ok))}
        if not ok:
            return out
        out['every_root_bound_to_its_configured_directory'] = z3.BoolVal(all(
            RpathTool.has(got.get(n), 'directory_of', n) for n in roots))
        if a.destdir:
            v = got.get('DESTDIR')
            out['destdir_from_the_configured_environment'] = z3.BoolVal(
                RpathTool.has(v, 'configured_value_of', 'DESTDIR') and v.attrs.get('default') == '')
        out['nothing_else_defined'] = z3.BoolVal(sorted(got) == sorted(roots + (['DESTDIR'] if a.destdir else [])))
        return out


class Installify(Contract):
    """Where a built file goes (the path function installify() hands to clone()): the file itself and its public
    parts get  <platform path>(install suffix of the part, root, DESTDIR iff not a cross build)  where the root is
    the given installation directory, or the given relative directory below the root of the part's kind, or that
    root itself; a private part keeps its path (it is not installed); a file outside the source and build trees, a
    directory that is not below an installation root, or a kind without a root and no directory, is refused."""
    target = 'bfg9000/builtins/install.py::installify'
    properties = ('C15',)
    DIRECTORY = ('none', 'empty', 'relative', 'install-path', 'other-path')
    WHERE = ('builddir', 'srcdir', 'external')
    KIND = ('kind-root', 'no-kind-root')
    CROSS = ('native', 'cross')

    def cases(self):
        import itertools
        return ['/'.join(c) for c in itertools.product(self.DIRECTORY, self.WHERE, self.KIND, self.CROSS)]

    def params(self, cx, case):
        from specs.stubs import HostPathStub, TargetPathStub
        import bfg9000.path as BP
        from bfg9000.file_types import BaseFile
        d, where, kind, cross = case.split('/')
        for k, v in zip(('d', 'where', 'kind', 'is_cross'), (d, where, kind, cross == 'cross')):
            cx.ghost(k, v)
        root = {'builddir': Root.builddir, 'srcdir': Root.srcdir, 'external': Root.absolute}[where]

        def part(tag, private, proot=root):
            return Obj(BaseFile, {'tag': tag, 'private': private, 'path': Obj(HostPathStub, {'root': proot, 'suffix': thing('built_' + tag), 'destdir': False}),
                                  'install_root': InstallRoot.bindir if kind == 'kind-root' else None,
                                  'install_suffix': thing('install_suffix_' + tag)})
        f = part('file', False)
        parts = [f, part('private_part', True), part('public_part', False)]

        def clone(I, a, k, node=None):
            I.events.append(('clone', list(a), dict(k)))
            res = []
            for p in parts:
                res.append(I.call(a[0], [p], {}, node))
            return Obj(object, {'cloned_paths': PList(res)})
        f.attrs['clone'] = OpaqueFn('clone', clone)
        given = cx.str('given_directory')
        cx.ghost('given', given)
        directory = {'none': None, 'empty': '', 'relative': given,
                     'install-path': Obj(BP.Path, {'root': InstallRoot.libdir, 'is_given': True}),
                     'other-path': Obj(BP.Path, {'root': Root.builddir, 'is_given': True})}[d]
        cross_env = Obj(object, {'target_platform': Obj(object, {'Path': TargetPathStub})}) if cross == 'cross' else None
        return {'file': f, 'directory': directory, 'cross': cross_env}

    def opaque_calls(self):
        import bfg9000.path as BP

        def below(I, a, k, node=None):
            return Obj(object, {'below': (a[0], a[1])})
        return {BP.Path: below}

    def requires(self, a):
        return z3.Length(a.given.e) > 0 if a.d == 'relative' else z3.BoolVal(True)

    def raises(self, a):
        # (the private part is visited after the file itself; the first refusal wins)
        if a.where == 'external':
            return [(ValueError, True)]
        if a.d == 'other-path':
            return [(ValueError, True)]
        if a.d in ('none', 'empty', 'relative') and a.kind == 'no-kind-root':
            return [(TypeError, True)]
        return []

    def ensures(self, a, r):
        from specs.stubs import HostPathStub, TargetPathStub
        clones = [e for e in a.events if e[0] == 'clone']
        out = {'whole_file_cloned_recursively': z3.BoolVal(len(clones) == 1 and clones[0][2].get('recursive') is True)}
        paths = r.attrs.get('cloned_paths') if isinstance(r, Obj) else None
        items = list(paths.items) if isinstance(paths, PList) and paths.concrete else None
        if items is None or len(items) != 3:
            out['three_parts'] = z3.BoolVal(False)
            return out
        priv = items[1]
        out['private_part_keeps_its_path'] = z3.BoolVal(isinstance(priv, Obj) and priv.cls is HostPathStub and
                                                        isinstance(priv.attrs.get('suffix'), Sym) and
                                                        z3.eq(priv.attrs['suffix'].e, thing('built_private_part').e))
        ok = True
        for tag, p in (('file', items[0]), ('public_part', items[2])):
            ok = ok and isinstance(p, Obj) and p.cls is (TargetPathStub if a.is_cross else HostPathStub)
            ok = ok and p.attrs.get('destdir') is (not a.is_cross)
            sfx = p.attrs.get('suffix') if ok else None
            ok = ok and isinstance(sfx, Sym) and z3.eq(sfx.e, thing('install_suffix_' + tag).e)
            rt = p.attrs.get('root') if ok else None
            if a.d in ('none', 'empty'):
                ok = ok and rt is InstallRoot.bindir
            elif a.d == 'relative':
                ok = ok and isinstance(rt, Obj) and isinstance(rt.attrs.get('below'), tuple) and \
                    isinstance(rt.attrs['below'][0], Sym) and z3.eq(rt.attrs['below'][0].e, a.given.e) and \
                    rt.attrs['below'][1] is InstallRoot.bindir
            else:
                ok = ok and isinstance(rt, Obj) and rt.attrs.get('is_given') is True
        out['installed_parts_go_below_the_chosen_root_with_destdir_iff_native'] = z3.BoolVal(bool(ok))
        return out


# ---- what the regeneration step declares as its outputs, and how the list is persisted (C10) ----------------------
#
# find_check_cache (contracts/regencheck.py) compares the find cache with "the build file" = the first persisted
# output, and compares every persisted input with every persisted output.  So: the declared outputs are the build file
# of the configured backend first, then the path of every immediate file, in order; and writing the two lists to the
# find cache and reading them back gives the same paths in the same order.

import bfg9000.builtins.regenerate as RG


class RegenOutputs(Contract):
    target = 'bfg9000/builtins/regenerate.py::_outputs'
    properties = ('C10',)

    def cases(self):
        return ['%d' % n for n in (0, 1, 2)]

    def params(self, cx, case):
        n = int(case)
        cx.ghost('n', n)
        regen = Obj(RG.Regenerate, {'outputs': PList([Obj(object, {'path': Obj(object, {'immediate_path': i})}) for i in range(n)]),
                                    'depfile': None})
        return {'build_inputs': PDict({'regenerate': regen}), 'env': Obj(object, {'backend': 'the-backend'})}

    def opaque_calls(self):
        return {RG.list_backends: lambda I, a, k, node=None: PDict({'the-backend': Obj(object, {'filepath': Obj(object, {'build_file_of': 'the-backend'})}),
                                                                   'another': Obj(object, {'filepath': Obj(object, {'build_file_of': 'another'})})})}

    def ensures(self, a, r):
        items = list(r.items) if isinstance(r, PList) and r.concrete else None
        ok = items is not None and len(items) == a.n + 1
        out = {'build_file_of_the_backend_comes_first': z3.BoolVal(bool(ok) and RpathTool.has(items[0], 'build_file_of', 'the-backend'))}
        out['then_every_immediate_file_in_order'] = z3.BoolVal(bool(ok) and all(
            RpathTool.has(x, 'immediate_path', i) for i, x in enumerate(items[1:])))
        return out


class RegenInputs(Contract):
    """What the regeneration step depends on: every script that was executed, the toolchain file if one was given, and
    the package metadata if package files are configured -- all of them, in that order."""
    target = 'bfg9000/builtins/regenerate.py::_inputs'
    properties = ('C08', 'C10')

    def cases(self):
        return ['%d/%s/%s' % (n, t, m) for n in (1, 2) for t in ('toolchain', 'no-toolchain') for m in ('packages', 'no-packages')]

    def params(self, cx, case):
        n, t, m = case.split('/')
        cx.ghost('n', int(n))
        cx.ghost('toolchain', t == 'toolchain')
        cx.ghost('packages', m == 'packages')
        bi = Obj(object, {'bootstrap_paths': PList([Obj(object, {'script': i}) for i in range(int(n))])})
        env = Obj(object, {'mopack': PList([Obj(object, {'package_file': 0})] if m == 'packages' else []),
                           'toolchain': Obj(object, {'path': Obj(object, {'toolchain_file': True}) if t == 'toolchain' else None}),
                           'tool': OpaqueFn('tool', lambda I, a, k: Obj(object, {'metadata_file': Obj(object, {'metadata_of': a[0]})}))})
        return {'build_inputs': bi, 'env': env}

    def ensures(self, a, r):
        items = list(r.items) if isinstance(r, PList) and r.concrete else None
        want = [('script', i) for i in range(a.n)] + ([('toolchain_file', True)] if a.toolchain else []) + \
            ([('metadata_of', 'mopack')] if a.packages else [])
        return {'every_script_then_toolchain_file_then_package_metadata': z3.BoolVal(
            items is not None and len(items) == len(want) and all(RpathTool.has(x, k, v) for x, (k, v) in zip(items, want)))}


class RegenRule(Contract):
    """The regeneration step in the build file: it produces exactly the declared outputs (_outputs), depends on every
    declared input (_inputs), and runs `bfg9000 regenerate` in lazy mode."""
    properties = ('C08', 'C10', 'C06')
    N_IN = 2

    def cases(self):
        return ['no-packages']

    def common(self, cx):
        def tool(I, a, k, node=None):
            name = a[0]

            def run(I, a2, k2, node=None):
                I.events.append(('tool_call', [name] + list(a2), dict(k2)))
                return Obj(object, {'command_of': name, 'args': tuple(a2), 'lazy': k2.get('lazy')})
            return Obj(object, {'__call__': OpaqueFn(name, run), 'metadata_file': Obj(object, {'metadata_of': name})})
        return Obj(object, {'mopack': PList([]), 'tool': OpaqueFn('tool', tool), 'backend_version': None,
                            'toolchain': Obj(object, {'path': None})})

    def io_calls(self):
        return {RG._inputs: lambda I, a, k, node=None: PList([Obj(object, {'declared_input': i}) for i in range(self.N_IN)]),
                RG._outputs: lambda I, a, k, node=None: Obj(object, {'declared_outputs': True})}

    @staticmethod
    def is_lazy_regenerate(c):
        return isinstance(c, Obj) and c.attrs.get('command_of') == 'bfg9000' and c.attrs.get('args') == ('regenerate',) and \
            c.attrs.get('lazy') is True

    def inputs_ok(self, v):
        items = list(v.items) if isinstance(v, PList) and v.concrete else None
        return items is not None and len(items) == self.N_IN and all(RpathTool.has(x, 'declared_input', i) for i, x in enumerate(items))


class MakeRegenRule(RegenRule):
    target = 'bfg9000/builtins/regenerate.py::make_regenerate_rule'

    def params(self, cx, case):
        return {'build_inputs': PDict({}), 'buildfile': Obj(object, {'rule': OpaqueFn('rule', self.record('rule'))}), 'env': self.common(cx)}

    @staticmethod
    def record(name):
        def h(I, a, k, node=None):
            I.events.append((name, list(a), dict(k)))
        return h

    def opaque_calls(self):
        from bfg9000.backends.make import writer as mkw
        d = self.io_calls()
        d[mkw.multitarget_rule] = self.record('multitarget_rule')
        return d

    def ensures(self, a, r):
        mt = [e for e in a.events if e[0] == 'multitarget_rule']
        out = {'one_regeneration_rule': z3.BoolVal(len(mt) == 1)}
        if len(mt) != 1:
            return out
        kw = mt[0][2]
        out['produces_the_declared_outputs'] = z3.BoolVal(RpathTool.has(kw.get('targets'), 'declared_outputs', True))
        out['depends_on_every_declared_input'] = z3.BoolVal(self.inputs_ok(kw.get('deps')))
        rec = kw.get('recipe')
        out['runs_a_lazy_regeneration'] = z3.BoolVal(isinstance(rec, PList) and rec.concrete and len(rec.items) == 1 and
                                                     self.is_lazy_regenerate(rec.items[0]))
        out['stamp_survives_clean'] = z3.BoolVal(kw.get('clean_stamp') is False)
        empties = [e for e in a.events if e[0] == 'rule']
        out['a_removed_input_does_not_stop_make'] = z3.BoolVal(
            len(empties) == self.N_IN and all(set(e[2]) == {'target'} and RpathTool.has(e[2]['target'], 'declared_input', i)
                                              for i, e in enumerate(empties)))
        return out


class NinjaRegenRule(RegenRule):
    target = 'bfg9000/builtins/regenerate.py::ninja_regenerate_rule'

    def params(self, cx, case):
        bf = Obj(object, {'rule': OpaqueFn('rule', MakeRegenRule.record('rule')), 'build': OpaqueFn('build', MakeRegenRule.record('build'))})
        regen = Obj(RG.Regenerate, {'outputs': PList([]), 'depfile': Obj(object, {'the_find_depfile': True})})
        return {'build_inputs': PDict({'regenerate': regen}), 'buildfile': bf, 'env': self.common(cx)}

    def opaque_calls(self):
        from bfg9000.backends.ninja import writer as njw
        d = self.io_calls()
        d[njw.features.supported] = lambda I, a, k, node=None: False
        return d

    def ensures(self, a, r):
        rules = [e for e in a.events if e[0] == 'rule']
        builds = [e for e in a.events if e[0] == 'build']
        phonies = [e for e in builds if e[2].get('rule') == 'phony']
        builds = [e for e in builds if e[2].get('rule') != 'phony']
        out = {'one_rule_one_build_statement': z3.BoolVal(len(rules) == 1 and len(builds) == 1)}
        if len(rules) != 1 or len(builds) != 1:
            return out
        rk, bk = rules[0][2], builds[0][2]
        out['runs_a_lazy_regeneration'] = z3.BoolVal(self.is_lazy_regenerate(rk.get('command')) and bk.get('rule') == rk.get('name'))
        out['generator_rule_with_the_find_depfile'] = z3.BoolVal(rk.get('generator') is True and
                                                                 RpathTool.has(rk.get('depfile'), 'the_find_depfile', True))
        out['produces_the_declared_outputs'] = z3.BoolVal(RpathTool.has(bk.get('output'), 'declared_outputs', True))
        deps = bk.get('implicit') if bk.get('implicit') is not None else bk.get('inputs')
        out['depends_on_every_declared_input'] = z3.BoolVal(self.inputs_ok(deps))
        out['a_removed_input_does_not_stop_ninja'] = z3.BoolVal(
            len(phonies) == self.N_IN and all(set(e[2]) == {'output', 'rule'} and RpathTool.has(e[2]['output'], 'declared_input', i)
                                              for i, e in enumerate(phonies)))
        return out


class RegenFilesPersist(Contract):
    """to_json followed by from_json (the JSON text in between is json.dump / json.load of lists: order-preserving)."""
    properties = ('C10',)

    def cases(self):
        return ['%d/%d' % (i, o) for i in (0, 1, 2) for o in (1, 2, 3)]

    @staticmethod
    def sizes(case):
        return [int(x) for x in case.split('/')]


class RegenFilesToJson(RegenFilesPersist):
    target = 'bfg9000/builtins/regenerate.py::RegenerateFiles.to_json'

    def params(self, cx, case):
        ni, no = self.sizes(case)
        cx.ghost('ni', ni)
        cx.ghost('no', no)

        def path(kind, i):
            return Obj(object, {'to_json': OpaqueFn('to_json', lambda I, a, k: Obj(object, {'json_of': (kind, i)}))})
        me = Obj(RG.RegenerateFiles, {'inputs': PList([path('input', i) for i in range(ni)]),
                                      'outputs': PList([path('output', i) for i in range(no)])})
        return {'self': me}

    def ensures(self, a, r):
        out = {}
        for key, kind, n in (('inputs', 'input', a.ni), ('outputs', 'output', a.no)):
            v = r.d.get(key) if isinstance(r, PDict) else None
            items = list(v.items) if isinstance(v, PList) and v.concrete else None
            out['%s_written_one_by_one_in_order' % key] = z3.BoolVal(items is not None and len(items) == n and all(
                RpathTool.has(x, 'json_of', (kind, i)) for i, x in enumerate(items)))
        out['nothing_else_written'] = z3.BoolVal(isinstance(r, PDict) and sorted(r.d) == ['inputs', 'outputs'])
        return out


class RegenFilesFromJson(RegenFilesPersist):
    target = 'bfg9000/builtins/regenerate.py::RegenerateFiles.from_json'

    def params(self, cx, case):
        ni, no = self.sizes(case)
        cx.ghost('ni', ni)
        cx.ghost('no', no)
        data = PDict({'inputs': PList([Obj(object, {'json_of': ('input', i)}) for i in range(ni)]),
                      'outputs': PList([Obj(object, {'json_of': ('output', i)}) for i in range(no)])})
        return {'cls': self.record(), 'data': data}

    @staticmethod
    def record():
        return Obj(object, {'__call__': OpaqueFn('RegenerateFiles', lambda I, a, k: Obj(object, {'fields': tuple(a)}))})

    def opaque_calls(self):
        return {RG.Path.from_json.__func__: lambda I, a, k, node=None: Obj(object, {'path_of': a[-1].attrs['json_of']})}

    def ensures(self, a, r):
        f = r.attrs.get('fields') if isinstance(r, Obj) else None
        out = {'two_lists': z3.BoolVal(f is not None and len(f) == 2)}
        if f is None or len(f) != 2:
            return out
        for v, key, kind, n in ((f[0], 'inputs', 'input', a.ni), (f[1], 'outputs', 'output', a.no)):
            items = list(v.items) if isinstance(v, PList) and v.concrete else None
            out['%s_read_one_by_one_in_order' % key] = z3.BoolVal(items is not None and len(items) == n and all(
                RpathTool.has(x, 'path_of', (kind, i)) for i, x in enumerate(items)))
        return out


class RegenFilesRoundTrip(Contract):
    """Bounded companion on the real classes and a real file: what FindCacheFile.save writes, FindCacheFile.load reads
    back as the same paths in the same order (the build file stays first whatever the names of the immediate files)."""
    deductive = False
    reason = 'json text and real Path objects: runtime contract only'
    target = 'bfg9000/builtins/regenerate.py::RegenerateFiles.to_json'
    properties = ('C10',)

    def native_alphabet(self):
        return ''

    def native_inputs(self, case, alphabet, maxlen, rng, extra=0):
        import itertools
        imm = ['App-manifest.txt', 'pkgconfig/p.pc', '0.txt', 'zz/last.pc']
        for build in ('Makefile', 'build.ninja'):
            for n in (0, 1, 2, 3):
                for c in itertools.permutations(imm, n):
                    yield {'outputs': [build] + list(c), 'inputs': ['build.bfg', 'a/options.bfg'][:1 + n % 2]}

    def native_check(self, case, raw):
        import tempfile
        from bfg9000.path import Path, Root
        from bfg9000.builtins.find import FindCacheFile
        ins = [Path(i, Root.srcdir) for i in raw['inputs']]
        outs = [Path(o, Root.builddir) for o in raw['outputs']]

        class Cache:
            def __bool__(self):
                return True

            def to_json(self):
                return []
        d = tempfile.mkdtemp()
        try:
            FindCacheFile(RG.RegenerateFiles(ins, outs), Cache()).save(d)
            import json
            import os
            with open(os.path.join(d, FindCacheFile.cachefile)) as f:
                data = json.load(f)['data']['regen_files']
            back = RG.RegenerateFiles.from_json(data)
        finally:
            import shutil
            shutil.rmtree(d, ignore_errors=True)
        if list(back.outputs) != outs or list(back.inputs) != ins:
            return {'contract': type(self).__name__, 'target': self.target, 'case': case, 'input': raw,
                    'clause': 'persisted_lists_read_back_in_the_same_order',
                    'got': {'inputs': [p.suffix for p in back.inputs], 'outputs': [p.suffix for p in back.outputs]}}
        return True


def registry():
    return [SupportsDestdir(), DarwinPostInstall(), PatchelfPostInstall(), RegenOutputs(), RegenFilesToJson(), RegenFilesFromJson(), RegenFilesRoundTrip(), InstallFiles(), UninstallFiles(), AddInstallPaths(), Installify(),
            RegenInputs(), MakeRegenRule(), NinjaRegenRule()]
