"""C15 / C10: small functions between the install rules (contracts/emitters.py) and the tools they run.

`Environment.supports_destdir` decides whether the writers define DESTDIR at all: C15 says DESTDIR + the directory of
the kind is where a file goes, which is only a path when no installation directory carries a drive or share of its
own, so the answer must be "yes" exactly when every directory is set and none is an absolute path with a drive.

`post_install` of install_name_tool / patchelf produce the one command that rewrites what an installed binary records
about its libraries: the file patched is the staged (DESTDIR) copy, what is written into it are the *installed*
locations (never the staging or build locations).

The objects are abstract (opaque fields); list lengths 0..2 stand for the uniform list comprehension."""
import z3
from pyvc import terms as T
from pyvc.contract import Contract
from pyvc.values import Sym, Obj, PList, PDict, OpaqueFn, opaque_sort

from bfg9000.path import Root, InstallRoot
from bfg9000.environment import Environment
from bfg9000.tools import install_name_tool as INT, patchelf as PE
import bfg9000.options as opts

ThingT = opaque_sort('StepThing')
TT = ('opaque', 'StepThing')


def thing(name):
    return Sym(z3.Const(name, ThingT), TT)


class SupportsDestdir(Contract):
    target = 'bfg9000/environment.py::Environment.supports_destdir'
    properties = ('C15',)
    KINDS = ('unset', 'below-prefix', 'absolute')
    ROOTS = (InstallRoot.prefix, InstallRoot.exec_prefix, InstallRoot.bindir)

    def cases(self):
        import itertools
        return ['/'.join(c) for n in (1, 2, 3) for c in itertools.product(self.KINDS, repeat=n)]

    def params(self, cx, case):
        dirs, want = {}, []
        for i, k in enumerate(case.split('/')):
            if k == 'unset':
                dirs[self.ROOTS[i]] = None
                want.append(z3.BoolVal(False))
                continue
            drive = cx.bool('has_drive_%d' % i)
            root = Root.absolute if k == 'absolute' else InstallRoot.prefix
            dirs[self.ROOTS[i]] = Obj(object, {'root': root, 'has_drive': OpaqueFn('has_drive', lambda I, a, kw, d=drive: d)})
            want.append(z3.Not(drive.e) if k == 'absolute' else z3.BoolVal(True))
        cx.ghost('want', z3.And(*want))
        return {'self': Obj(Environment, {'install_dirs': PDict(dirs)})}

    def ensures(self, a, r):
        return {'destdir_iff_every_directory_is_set_and_none_has_a_drive': (z3.BoolVal(r) if isinstance(r, bool) else r.e) == a.want}


class RpathTool(Contract):
    """Common part: an environment whose tool() returns a recording callable."""

    def environment(self, name):
        def call(I, args, kwargs, node=None):
            I.events.append(('tool_call', list(args), dict(kwargs)))
            return Obj(object, {'the_command': True})

        def tool(I, args, kwargs, node=None):
            I.events.append(('tool', list(args), dict(kwargs)))
            return Obj(object, {'__call__': OpaqueFn('tool_call', call)})
        return Obj(object, {'tool': OpaqueFn('tool', tool)})

    @staticmethod
    def staged(tag):
        return Obj(object, {'path': Obj(object, {'staged': tag, 'cross': OpaqueFn(
            'cross', lambda I, a, k: Obj(object, {'without_destdir': tag}))})})

    @staticmethod
    def installed(tag):
        return Obj(object, {'path': Obj(object, {'installed': tag, 'parent': OpaqueFn(
            'parent', lambda I, a, k: Obj(object, {'installed_directory': tag}))})})

    def database(self, files):
        """files: objects with a 'tag' field (the values handed to the function are copied per path, so everything the
        postcondition compares is identified by its tag)."""
        return Obj(object, {'host': PDict({f: self.staged(f.attrs['tag']) for f in files}),
                            'target': PDict({f: self.installed(f.attrs['tag']) for f in files})})

    @staticmethod
    def has(v, key, tag):
        return isinstance(v, Obj) and v.attrs.get(key) == tag


class DarwinPostInstall(RpathTool):
    target = 'bfg9000/tools/install_name_tool.py::post_install'
    properties = ('C15',)

    def cases(self):
        return ['%s/%d/%d' % (k, nc, nd) for k in ('library', 'program') for nc in (0, 1) for nd in (0, 1, 2)]

    def params(self, cx, case):
        k, nc, nd = case.split('/')
        output = Obj(object, {'tag': 'output'})
        deps = [Obj(object, {'tag': 'dep%d' % i}) for i in range(int(nd))]
        output.attrs['runtime_deps'] = PList(list(deps))
        declared = [Obj(object, {'old': thing('old%d' % i), 'new': thing('new%d' % i)}) for i in range(int(nc))]
        options = Obj(object, {'filter': OpaqueFn('filter', lambda I, a, kw: PList(list(declared)))})
        cx.ghost('deps', ['dep%d' % i for i in range(int(nd))])
        cx.ghost('declared', [(thing('old%d' % i), thing('new%d' % i)) for i in range(int(nc))])
        cx.ghost('is_library', k == 'library')
        return {'env': self.environment('install_name_tool'), 'options': options, 'output': output,
                'install_db': self.database([output] + deps), 'is_library': k == 'library'}

    def opaque_calls(self):
        def name_of(I, args, kwargs, node=None):
            return Obj(object, {'build_name': args[0].attrs['tag']})
        return {INT.darwin_install_name: name_of}

    def ensures(self, a, r):
        calls = [e for e in a.events if e[0] == 'tool_call']
        tools = [e for e in a.events if e[0] == 'tool']
        out = {'one_install_name_tool_command': z3.BoolVal(len(calls) == 1 and len(tools) == 1 and tools[0][1] == ['install_name_tool'])}
        if len(calls) != 1:
            return out
        _, args, kw = calls[0]
        out['patches_the_staged_copy'] = z3.BoolVal(len(args) == 1 and self.has(args[0], 'staged', 'output'))
        ch = kw.get('changes')
        items = list(ch.items) if isinstance(ch, PList) and ch.concrete else None
        ok = items is not None and len(items) == len(a.declared) + len(a.deps) and all(isinstance(x, tuple) and len(x) == 2 for x in items)
        if ok:
            for x, (old, new) in zip(items, a.declared):
                ok = ok and all(isinstance(p, Sym) and z3.eq(p.e, q.e) for p, q in ((x[0], old), (x[1], new)))
            for x, d in zip(items[len(a.declared):], a.deps):
                ok = ok and self.has(x[0], 'build_name', d) and self.has(x[1], 'installed', d)
        out['every_library_reference_becomes_the_installed_location'] = z3.BoolVal(bool(ok))
        i = kw.get('id')
        if a.is_library:
            out['library_id_is_its_location_without_destdir'] = z3.BoolVal(self.has(i, 'without_destdir', 'output') or
                                                                           self.has(i, 'installed', 'output'))
        else:
            out['no_id_for_a_program'] = z3.BoolVal(i is None)
        return out


class PatchelfPostInstall(RpathTool):
    """Library options: each contributes the directory of the installed library; rpath_dir options contribute their
    directory when they apply to the installed binary.  The command, if any, patches the staged copy and sets exactly
    those directories (duplicates removed by `uniques`, recorded)."""
    target = 'bfg9000/tools/patchelf.py::post_install'
    properties = ('C15',)
    WHEN = {'always': opts.RpathWhen.always, 'installed': opts.RpathWhen.installed, 'uninstalled': opts.RpathWhen.uninstalled}

    def cases(self):
        return ['%d/%s' % (nl, w) for nl in (0, 1, 2) for w in ('none', 'always', 'installed', 'uninstalled')]

    def params(self, cx, case):
        nl, w = case.split('/')
        output = Obj(object, {'tag': 'output'})
        files = [Obj(object, {'tag': 'lib%d' % i}) for i in range(int(nl))]
        options = [Obj(opts.lib, {'library': Obj(PE.Library, {'runtime_file': f})}) for f in files]
        if w != 'none':
            options.append(Obj(opts.rpath_dir, {'when': self.WHEN[w], 'path': thing('given_dir')}))
        cx.ghost('libs', ['lib%d' % i for i in range(int(nl))])
        cx.ghost('when', w)
        return {'env': self.environment('patchelf'), 'options': PList(options), 'output': output,
                'install_db': self.database([output] + files)}

    def opaque_calls(self):
        def local(I, args, kwargs, node=None):
            # where the library is found before installation: some directory of the build (not the installed one)
            return Obj(object, {'build_directory': args[1].attrs['runtime_file'].attrs['tag']})

        def uniq(I, args, kwargs, node=None):
            I.events.append(('uniques', list(args), {}))
            return args[0]
        return {PE.local_rpath: local, PE.uniques: uniq}

    def ensures(self, a, r):
        calls = [e for e in a.events if e[0] == 'tool_call']
        want_dirs = [('lib', l) for l in a.libs]
        if a.when in ('always', 'installed'):
            want_dirs.append(('given', None))
        needed = bool(a.libs) or a.when in ('installed', 'uninstalled')
        out = {'a_command_iff_something_changes_on_installation': z3.BoolVal((len(calls) == 1) == needed and len(calls) <= 1)}
        if len(calls) != 1:
            return out
        _, args, kw = calls[0]
        out['patches_the_staged_copy'] = z3.BoolVal(len(args) == 2 and self.has(args[0], 'staged', 'output'))
        rp = args[1] if len(args) == 2 else None
        items = list(rp.items) if isinstance(rp, PList) and rp.concrete else None
        ok = items is not None and len(items) == len(want_dirs)
        if ok:
            for x, (kind, f) in zip(items, want_dirs):
                if kind == 'lib':
                    ok = ok and self.has(x, 'installed_directory', f)
                else:
                    ok = ok and isinstance(x, Sym) and z3.eq(x.e, thing('given_dir').e)
        out['search_path_is_the_installed_library_directories'] = z3.BoolVal(bool(ok))
        return out


# ---- what the regeneration step declares as its outputs, and how the list is persisted (C10) ----------------------
#
# find_check_cache (contracts/regencheck.py) compares the find cache with "the build file" = the first persisted
# output, and compares every persisted input with every persisted output.  So: the declared outputs are the build file
# of the configured backend first, then the path of every immediate file, in order; and writing the two lists to the
# find cache and reading them back gives the same paths in the same order.

import bfg9000.builtins.regenerate as RG


class RegenOutputs(Contract):
    target = 'bfg9000/builtins/regenerate.py::_outputs'
    properties = ('C10',)

    def cases(self):
        return ['%d' % n for n in (0, 1, 2)]

    def params(self, cx, case):
        n = int(case)
        cx.ghost('n', n)
        regen = Obj(RG.Regenerate, {'outputs': PList([Obj(object, {'path': Obj(object, {'immediate_path': i})}) for i in range(n)]),
                                    'depfile': None})
        return {'build_inputs': PDict({'regenerate': regen}), 'env': Obj(object, {'backend': 'the-backend'})}

    def opaque_calls(self):
        return {RG.list_backends: lambda I, a, k, node=None: PDict({'the-backend': Obj(object, {'filepath': Obj(object, {'build_file_of': 'the-backend'})}),
                                                                   'another': Obj(object, {'filepath': Obj(object, {'build_file_of': 'another'})})})}

    def ensures(self, a, r):
        items = list(r.items) if isinstance(r, PList) and r.concrete else None
        ok = items is not None and len(items) == a.n + 1
        out = {'build_file_of_the_backend_comes_first': z3.BoolVal(bool(ok) and RpathTool.has(items[0], 'build_file_of', 'the-backend'))}
        out['then_every_immediate_file_in_order'] = z3.BoolVal(bool(ok) and all(
            RpathTool.has(x, 'immediate_path', i) for i, x in enumerate(items[1:])))
        return out


class RegenFilesPersist(Contract):
    """to_json followed by from_json (the JSON text in between is json.dump / json.load of lists: order-preserving)."""
    properties = ('C10',)

    def cases(self):
        return ['%d/%d' % (i, o) for i in (0, 1, 2) for o in (1, 2, 3)]

    @staticmethod
    def sizes(case):
        return [int(x) for x in case.split('/')]


class RegenFilesToJson(RegenFilesPersist):
    target = 'bfg9000/builtins/regenerate.py::RegenerateFiles.to_json'

    def params(self, cx, case):
        ni, no = self.sizes(case)
        cx.ghost('ni', ni)
        cx.ghost('no', no)

        def path(kind, i):
            return Obj(object, {'to_json': OpaqueFn('to_json', lambda I, a, k: Obj(object, {'json_of': (kind, i)}))})
        me = Obj(RG.RegenerateFiles, {'inputs': PList([path('input', i) for i in range(ni)]),
                                      'outputs': PList([path('output', i) for i in range(no)])})
        return {'self': me}

    def ensures(self, a, r):
        out = {}
        for key, kind, n in (('inputs', 'input', a.ni), ('outputs', 'output', a.no)):
            v = r.d.get(key) if isinstance(r, PDict) else None
            items = list(v.items) if isinstance(v, PList) and v.concrete else None
            out['%s_written_one_by_one_in_order' % key] = z3.BoolVal(items is not None and len(items) == n and all(
                RpathTool.has(x, 'json_of', (kind, i)) for i, x in enumerate(items)))
        out['nothing_else_written'] = z3.BoolVal(isinstance(r, PDict) and sorted(r.d) == ['inputs', 'outputs'])
        return out


class RegenFilesFromJson(RegenFilesPersist):
    target = 'bfg9000/builtins/regenerate.py::RegenerateFiles.from_json'

    def params(self, cx, case):
        ni, no = self.sizes(case)
        cx.ghost('ni', ni)
        cx.ghost('no', no)
        data = PDict({'inputs': PList([Obj(object, {'json_of': ('input', i)}) for i in range(ni)]),
                      'outputs': PList([Obj(object, {'json_of': ('output', i)}) for i in range(no)])})
        return {'cls': self.record(), 'data': data}

    @staticmethod
    def record():
        return Obj(object, {'__call__': OpaqueFn('RegenerateFiles', lambda I, a, k: Obj(object, {'fields': tuple(a)}))})

    def opaque_calls(self):
        return {RG.Path.from_json.__func__: lambda I, a, k, node=None: Obj(object, {'path_of': a[-1].attrs['json_of']})}

    def ensures(self, a, r):
        f = r.attrs.get('fields') if isinstance(r, Obj) else None
        out = {'two_lists': z3.BoolVal(f is not None and len(f) == 2)}
        if f is None or len(f) != 2:
            return out
        for v, key, kind, n in ((f[0], 'inputs', 'input', a.ni), (f[1], 'outputs', 'output', a.no)):
            items = list(v.items) if isinstance(v, PList) and v.concrete else None
            out['%s_read_one_by_one_in_order' % key] = z3.BoolVal(items is not None and len(items) == n and all(
                RpathTool.has(x, 'path_of', (kind, i)) for i, x in enumerate(items)))
        return out


class RegenFilesRoundTrip(Contract):
    """Bounded companion on the real classes and a real file: what FindCacheFile.save writes, FindCacheFile.load reads
    back as the same paths in the same order (the build file stays first whatever the names of the immediate files)."""
    deductive = False
    reason = 'json text and real Path objects: runtime contract only'
    target = 'bfg9000/builtins/regenerate.py::RegenerateFiles.to_json'
    properties = ('C10',)

    def native_alphabet(self):
        return ''

    def native_inputs(self, case, alphabet, maxlen, rng, extra=0):
        import itertools
        imm = ['App-manifest.txt', 'pkgconfig/p.pc', '0.txt', 'zz/last.pc']
        for build in ('Makefile', 'build.ninja'):
            for n in (0, 1, 2, 3):
                for c in itertools.permutations(imm, n):
                    yield {'outputs': [build] + list(c), 'inputs': ['build.bfg', 'a/options.bfg'][:1 + n % 2]}

    def native_check(self, case, raw):
        import tempfile
        from bfg9000.path import Path, Root
        from bfg9000.builtins.find import FindCacheFile
        ins = [Path(i, Root.srcdir) for i in raw['inputs']]
        outs = [Path(o, Root.builddir) for o in raw['outputs']]

        class Cache:
            def __bool__(self):
                return True

            def to_json(self):
                return []
        d = tempfile.mkdtemp()
        try:
            FindCacheFile(RG.RegenerateFiles(ins, outs), Cache()).save(d)
            import json
            import os
            with open(os.path.join(d, FindCacheFile.cachefile)) as f:
                data = json.load(f)['data']['regen_files']
            back = RG.RegenerateFiles.from_json(data)
        finally:
            import shutil
            shutil.rmtree(d, ignore_errors=True)
        if list(back.outputs) != outs or list(back.inputs) != ins:
            return {'contract': type(self).__name__, 'target': self.target, 'case': case, 'input': raw,
                    'clause': 'persisted_lists_read_back_in_the_same_order',
                    'got': {'inputs': [p.suffix for p in back.inputs], 'outputs': [p.suffix for p in back.outputs]}}
        return True


def registry():
    return [SupportsDestdir(), DarwinPostInstall(), PatchelfPostInstall(), RegenOutputs(), RegenFilesToJson(), RegenFilesFromJson(), RegenFilesRoundTrip()]
