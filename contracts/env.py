"""Contracts for bfg9000/environment.py::EnvVarDict and build.load_toolchain (C09).

View of an EnvVarDict: three maps (initial, current, changes) over variable names; `changes` maps a name to a
value or to None (deleted).  well_formed:  for every name x,  current(x) == apply(initial, changes)(x)  where
apply takes the change if there is one and the initial binding otherwise.  All obligations are stated for an
arbitrary name x (a ghost constant): the maps are only ever updated pointwise, so proving the invariant at an
arbitrary x proves it for all x.
"""
import z3
from pyvc import terms as T
from pyvc.contract import Contract, Lemma, LoopInv, Args
from pyvc.values import Sym, Obj, PList, PDict, SymMap, fresh_sym
from pyvc import models as MD
from pyvc import dictmodel as DM

import bfg9000.environment as E
from bfg9000.environment import EnvVarDict

X = z3.Const('x_name', T.Str)        # the arbitrary variable name


def evd(prefix='s'):
    return Obj(EnvVarDict, {DM.MAPATTR: SymMap.fresh(prefix + '_cur'),
                            'initial': SymMap.fresh(prefix + '_init'),
                            '_changes': SymMap.fresh(prefix + '_chg', optional=True)})


def maps(o):
    return o.attrs[DM.MAPATTR], o.attrs['initial'], o.attrs['_changes']


def binding(m, x):
    """(present, value) of a plain map at x"""
    return z3.Select(m.dom, x), z3.Select(m.val, x)


def applied(init, chg, x):
    cd = z3.Select(chg.dom, x)
    present = z3.If(cd, z3.Not(z3.Select(chg.none, x)), z3.Select(init.dom, x))
    value = z3.If(cd, z3.Select(chg.val, x), z3.Select(init.val, x))
    return present, value


def same_binding(p1, v1, p2, v2):
    return z3.And(p1 == p2, z3.Implies(p1, v1 == v2))


def wf(o, x=X):
    cur, init, chg = maps(o)
    cp, cv = binding(cur, x)
    ap, av = applied(init, chg, x)
    return same_binding(cp, cv, ap, av)


def snapshot(o):
    cur, init, chg = maps(o)
    return cur.copy(), init.copy(), chg.copy()


class EvdContract(Contract):
    properties = ('C09',)
    ghost_keys = [X]
    method = None

    def __init__(self):
        self.target = 'bfg9000/environment.py::EnvVarDict.%s' % self.method
        if self.method in EnvVarDict.__dict__:
            self.inherited = None
            Contract.__init__(self)
        else:
            # not overridden: the behaviour is dict's own (library model) -- still a public mutator of the class
            self.inherited = 'dict'
            self.fn, self.owner, self.kind = None, EnvVarDict, 'inherited'

    def run_inherited(self, I, args):
        selfv = args.pop('self')
        mm = DM.MapMethod(selfv.attrs[DM.MAPATTR], self.method)
        mm.owner = selfv
        return mm(I, list(args.values()), {}, None)

    def params(self, cx, case):
        s = evd()
        cx.ghost('old', snapshot(s))
        cx.ghost('x', X)
        return dict({'self': s}, **self.extra_params(cx, case))

    def extra_params(self, cx, case):
        return {}

    def requires(self, a):
        return wf(a.self)

    def old_binding(self, a, x=X):
        return binding(a.old[0], x)

    def new_binding(self, a, x=X):
        return binding(a.self.attrs[DM.MAPATTR], x)

    def frame(self, a):
        """`initial` is never modified by a mutator"""
        ni = a.self.attrs['initial']
        oi = a.old[1]
        return z3.And(z3.Select(ni.dom, X) == z3.Select(oi.dom, X), z3.Select(ni.val, X) == z3.Select(oi.val, X))

    def view(self, a, r):
        raise NotImplementedError

    def ensures(self, a, r):
        return {'well_formed_preserved': wf(a.self), 'current_view': self.view(a, r), 'initial_unchanged': self.frame(a)}

    def result_value(self, I, a):
        return None

    def effects(self, I, a):
        a.old = snapshot(a.self)
        s = a.self
        s.attrs[DM.MAPATTR] = SymMap.fresh(T.fresh('cur', T.Int).decl().name())
        s.attrs['_changes'] = SymMap.fresh(T.fresh('chg', T.Int).decl().name(), optional=True)


class SetItem(EvdContract):
    method = '__setitem__'

    def extra_params(self, cx, case):
        return {'key': cx.str('key'), 'value': cx.str('value')}

    def view(self, a, r):
        op, ov = self.old_binding(a)
        np_, nv = self.new_binding(a)
        k, v = MD.sym_str(a.key), MD.sym_str(a.value)
        return z3.If(X == k, z3.And(np_, nv == v), same_binding(np_, nv, op, ov))


class DelItem(EvdContract):
    method = '__delitem__'

    def extra_params(self, cx, case):
        return {'key': cx.str('key')}

    def raises(self, a):
        return [(KeyError, z3.Not(z3.Select(a.old[0].dom, MD.sym_str(a.key))))]

    def view(self, a, r):
        op, ov = self.old_binding(a)
        np_, nv = self.new_binding(a)
        return z3.If(X == MD.sym_str(a.key), z3.Not(np_), same_binding(np_, nv, op, ov))


class Clear(EvdContract):
    method = 'clear'

    def view(self, a, r):
        np_, nv = self.new_binding(a)
        return z3.Not(np_)

    def loops(self):
        def inv(I, loc, i, seq):
            a = self.cur
            cur, init, chg = maps(loc['self'])
            ocur, oinit, ochg = a.old
            keys = cur.keys
            seen = DM.memb('str')(keys, X, i)
            cd, cn, cv = z3.Select(chg.dom, X), z3.Select(chg.none, X), z3.Select(chg.val, X)
            od, on, ov = z3.Select(ochg.dom, X), z3.Select(ochg.none, X), z3.Select(ochg.val, X)
            return {'changes_so_far': z3.If(seen, z3.And(cd, cn), z3.And(cd == od, cn == on, cv == ov)),
                    'current_untouched': z3.And(z3.Select(cur.dom, X) == z3.Select(ocur.dom, X),
                                                z3.Select(cur.val, X) == z3.Select(ocur.val, X)),
                    'initial_untouched': self.frame(Args({'self': loc['self']}, {'old': a.old}))}

        def havoc_obj(I, nm, o):
            if nm == 'self':
                keys = o.attrs[DM.MAPATTR].keys
                o.attrs['_changes'] = SymMap.fresh(T.fresh('hchg', T.Int).decl().name(), optional=True)
                return
            from pyvc.interp import OutOfSubset
            raise OutOfSubset('loop mutates %s' % nm)
        return {('EnvVarDict.clear', 1): LoopInv(inv, havoc_obj=havoc_obj)}


class Pop(EvdContract):
    method = 'pop'

    def cases(self):
        return ['nodefault', 'default']

    def extra_params(self, cx, case):
        d = {'key': cx.str('key')}
        if case == 'default':
            d['*args'] = (cx.str('dflt'),)
        return d

    def raises(self, a):
        if a._d.get('*args'):
            return []
        return [(KeyError, z3.Not(z3.Select(a.old[0].dom, MD.sym_str(a.key))))]

    def view(self, a, r):
        op, ov = self.old_binding(a)
        np_, nv = self.new_binding(a)
        return z3.If(X == MD.sym_str(a.key), z3.Not(np_), same_binding(np_, nv, op, ov))


class PopItem(EvdContract):
    method = 'popitem'

    def view(self, a, r):
        op, ov = self.old_binding(a)
        np_, nv = self.new_binding(a)
        k = MD.sym_str(r[0])
        return z3.If(X == k, z3.And(op, z3.Not(np_)), same_binding(np_, nv, op, ov))

    def raises(self, a):
        return [(KeyError, DM.is_empty_map(a.old[0]))]


class SetDefault(EvdContract):
    method = 'setdefault'

    def extra_params(self, cx, case):
        return {'key': cx.str('key'), 'default': cx.str('default')}

    def view(self, a, r):
        op, ov = self.old_binding(a)
        np_, nv = self.new_binding(a)
        k = MD.sym_str(a.key)
        okp, okv = binding(a.old[0], k)
        return z3.If(X == k, z3.And(np_, nv == z3.If(okp, okv, MD.sym_str(a.default))),
                     same_binding(np_, nv, op, ov))


class Update(EvdContract):
    method = 'update'

    def extra_params(self, cx, case):
        other = SymMap.fresh('other')
        cx.ghost('other', other)
        return {'*args': (other,)}

    def view(self, a, r):
        op, ov = self.old_binding(a)
        np_, nv = self.new_binding(a)
        tp, tv = binding(a.other, X)
        return z3.If(tp, z3.And(np_, nv == tv), same_binding(np_, nv, op, ov))

    def loops(self):
        def inv(I, loc, i, seq):
            a = self.cur
            s = loc['self']
            cur, init, chg = maps(s)
            ocur, oinit, ochg = a.old
            other = a.other
            keys = seq.keys
            seen = DM.memb('str')(keys, X, i)
            cp, cv = binding(cur, X)
            op, ov = binding(ocur, X)
            tp, tv = binding(other, X)
            return {'well_formed_so_far': wf(s),
                    'current_so_far': z3.If(seen, z3.And(cp, cv == tv), same_binding(cp, cv, op, ov)),
                    'initial_untouched': self.frame(Args({'self': s}, {'old': a.old}))}

        def havoc_obj(I, nm, o):
            if nm == 'self':
                o.attrs[DM.MAPATTR] = SymMap.fresh(T.fresh('hcur', T.Int).decl().name())
                o.attrs['_changes'] = SymMap.fresh(T.fresh('hchg', T.Int).decl().name(), optional=True)
                return
            from pyvc.interp import OutOfSubset
            raise OutOfSubset('loop mutates %s' % nm)
        return {('EnvVarDict.update', 1): LoopInv(inv, var_types={'k': 'str', 'v': 'str'}, havoc_obj=havoc_obj)}

    def call_ghosts(self, I, a, frame, site):
        arg = a.args[0] if a._d.get('args') else None
        m = DM.map_of(arg)
        if m is None:
            from pyvc.interp import OutOfSubset
            raise OutOfSubset('EnvVarDict.update with a non-map argument')
        return {'other': m}


class IOr(EvdContract):
    """`d |= other`: a public mutator of the class (inherited from dict unless the class overrides it)."""
    method = '__ior__'

    def extra_params(self, cx, case):
        other = SymMap.fresh('other')
        cx.ghost('other', other)
        nm = 'rhs' if self.method in EnvVarDict.__dict__ else 'other'
        if self.method in EnvVarDict.__dict__:
            import inspect
            nm = list(inspect.signature(EnvVarDict.__dict__[self.method]).parameters)[1]
        return {nm: other}

    def view(self, a, r):
        op, ov = self.old_binding(a)
        np_, nv = self.new_binding(a)
        tp, tv = binding(a.other, X)
        return z3.If(tp, z3.And(np_, nv == tv), same_binding(np_, nv, op, ov))


class Reset(EvdContract):
    method = 'reset'

    def view(self, a, r):
        np_, nv = self.new_binding(a)
        ip, iv = binding(a.old[1], X)
        chg = a.self.attrs['_changes']
        cd = chg.d.get if isinstance(chg, PDict) else None
        no_change = z3.BoolVal(len(chg.d) == 0) if isinstance(chg, PDict) else z3.Not(z3.Select(chg.dom, X))
        return z3.And(same_binding(np_, nv, ip, iv), no_change)

    def ensures(self, a, r):
        # after reset `changes` is an empty dict: well-formedness is then current == initial
        return {'current_is_initial_and_no_changes': self.view(a, r), 'initial_unchanged': self.frame(a)}


class Init(EvdContract):
    """EnvVarDict(mapping): current = initial = mapping, no changes."""
    method = '__init__'

    def params(self, cx, case):
        other = SymMap.fresh('other')
        cx.ghost('other', other)
        cx.ghost('x', X)
        return {'self': Obj(EnvVarDict, {DM.MAPATTR: SymMap.empty()}), '*args': (other,)}

    def requires(self, a):
        return z3.BoolVal(True)

    def ensures(self, a, r):
        cur = a.self.attrs[DM.MAPATTR]
        init = a.self.attrs['initial']
        chg = a.self.attrs['_changes']
        cp, cv = binding(cur, X)
        ip, iv = binding(init, X)
        tp, tv = binding(a.other, X)
        return {'current_is_argument': same_binding(cp, cv, tp, tv), 'initial_is_argument': same_binding(ip, iv, tp, tv),
                'no_changes': z3.BoolVal(isinstance(chg, PDict) and len(chg.d) == 0)}


class FromJson(EvdContract):
    """from_json(to_json(d)) restores initial and current; the lazily recomputed `changes` is well-formed."""
    method = 'from_json'

    def params(self, cx, case):
        cur, init = SymMap.fresh('j_cur'), SymMap.fresh('j_init')
        cx.ghost('jcur', cur)
        cx.ghost('jinit', init)
        cx.ghost('x', X)
        return {'cls': EnvVarDict, 'data': PDict({'initial': init, 'current': cur})}

    def requires(self, a):
        return z3.BoolVal(True)

    def ensures(self, a, r):
        cur = r.attrs[DM.MAPATTR]
        init = r.attrs['initial']
        cp, cv = binding(cur, X)
        ip, iv = binding(init, X)
        jp, jv = binding(a.jcur, X)
        kp, kv = binding(a.jinit, X)
        return {'current_restored': same_binding(cp, cv, jp, jv), 'initial_restored': same_binding(ip, iv, kp, kv),
                'changes_not_yet_computed': z3.BoolVal('_changes' not in r.attrs)}


class LazyChanges(EvdContract):
    """The `changes` property of an object restored by from_json (no _changes yet): the computed map is
    well-formed w.r.t. (initial, current) and records exactly the names whose binding differs."""
    method = 'changes'

    def params(self, cx, case):
        s = Obj(EnvVarDict, {DM.MAPATTR: SymMap.fresh('s_cur'), 'initial': SymMap.fresh('s_init')})
        cx.ghost('x', X)
        cx.ghost('old', (s.attrs[DM.MAPATTR].copy(), s.attrs['initial'].copy(), None))
        return {'self': s}

    def requires(self, a):
        return z3.BoolVal(True)

    def ensures(self, a, r):
        chg = DM.map_of(r) if not isinstance(r, PDict) else None
        if chg is None:
            return {'result_is_a_map': z3.BoolVal(False)}
        ocur, oinit, _ = a.old
        cp, cv = binding(ocur, X)
        ip, iv = binding(oinit, X)
        ap, av = applied(oinit, chg, X)
        differs = z3.Not(same_binding(cp, cv, ip, iv))
        return {'well_formed': same_binding(cp, cv, ap, av),
                'records_exactly_the_differences': z3.Select(chg.dom, X) == differs}

    def apply_at_call(self, I, bound, site, frame):
        o = bound['self']
        if '_changes' in o.attrs:
            return o.attrs['_changes']          # the property returns the existing map (first branch of the getter)
        chg = SymMap.fresh(T.fresh('lazy_chg', T.Int).decl().name(), optional=True)
        a = Args(bound, {'old': (o.attrs[DM.MAPATTR].copy(), o.attrs['initial'].copy(), None), 'x': X})
        o.attrs['_changes'] = chg
        for g in self.ensures(a, chg).values():
            I.assume(g)
        return chg

    def loops(self):
        def chg_of(loc):
            o = loc['self']
            c = o.attrs['_changes']
            if isinstance(c, PDict) and not c.d:
                # `self._changes = {}`: an empty dict that is about to receive symbolic keys
                c = SymMap.empty(optional=True)
                o.attrs['_changes'] = c
            return c

        def inv1(I, loc, i, seq):
            a = self.cur
            ocur, oinit, _ = a.old
            chg = chg_of(loc)
            seen = DM.memb('str')(seq.keys, X, i)
            cp, cv = binding(ocur, X)
            ip, iv = binding(oinit, X)
            differs = z3.Not(same_binding(cp, cv, ip, iv))
            cd = z3.Select(chg.dom, X)
            return {'first_loop': z3.If(z3.And(seen, differs), z3.And(cd, z3.Not(z3.Select(chg.none, X)),
                                                                       z3.Select(chg.val, X) == cv), z3.Not(cd))}

        def inv2(I, loc, i, seq):
            a = self.cur
            ocur, oinit, _ = a.old
            chg = chg_of(loc)
            seen = DM.memb('str')(seq.keys, X, i)
            cp, cv = binding(ocur, X)
            ip, iv = binding(oinit, X)
            differs = z3.Not(same_binding(cp, cv, ip, iv))
            cd = z3.Select(chg.dom, X)
            deleted = z3.And(ip, z3.Not(cp))
            return {'second_loop': z3.If(cp, z3.If(differs, z3.And(cd, z3.Not(z3.Select(chg.none, X)), z3.Select(chg.val, X) == cv), z3.Not(cd)),
                                         z3.If(z3.And(deleted, seen), z3.And(cd, z3.Select(chg.none, X)), z3.Not(cd)))}

        def havoc_obj(I, nm, o):
            if nm == 'self':
                o.attrs['_changes'] = SymMap.fresh(T.fresh('hchg', T.Int).decl().name(), optional=True)
                return
            from pyvc.interp import OutOfSubset
            raise OutOfSubset('loop mutates %s' % nm)
        return {('EnvVarDict.changes', 1): LoopInv(inv1, var_types={'k': 'str', 'v': 'str'}, havoc_obj=havoc_obj),
                ('EnvVarDict.changes', 2): LoopInv(inv2, var_types={'k': 'str'}, havoc_obj=havoc_obj)}


def registry():
    return [SetItem(), DelItem(), Clear(), Pop(), PopItem(), SetDefault(), Update(), IOr(), Reset(), Init(), FromJson(),
            LazyChanges()]


# ---- bounded stand-ins ---------------------------------------------------------------------------------

from contracts.bounded_cmd import Bounded
import itertools as _it
import json as _json


def _apply(initial, changes):
    out = dict(initial)
    for k, v in changes.items():
        if v is None:
            out.pop(k, None)
        else:
            out[k] = v
    return out


class EnvVarDictOps(Bounded):
    """All sequences of up to three public mutators on the real EnvVarDict: after every step the recorded
    changes applied to the initial variables reproduce the current ones; the JSON form restores both."""
    target = 'bfg9000/environment.py::EnvVarDict.__setitem__'
    properties = ('C09',)
    reason = 'operation *sequences* (history) are outside one-call contracts; runtime check of the class invariant'
    OPS = [('set', 'A', '2'), ('set', 'B', '1'), ('set', 'C', '3'), ('del', 'A'), ('del', 'C'), ('clear',), ('pop', 'A'),
           ('pop', 'C'), ('popd', 'B', 'x'), ('popd', 'Z', 'x'), ('popitem',), ('setdefault', 'A', '9'),
           ('setdefault', 'D', '9'), ('update', {'A': '5', 'E': '6'}), ('updatekw', {'B': '7'}), ('ior', {'A': '8', 'F': '1'}),
           ('reset',)]

    def native_inputs(self, case, alphabet, maxlen, rng, extra=0):
        for n in (1, 2, 3):
            for seq in _it.product(range(len(self.OPS)), repeat=n):
                yield {'ops': list(seq)}

    def native_check(self, case, raw):
        d = EnvVarDict({'A': '1', 'B': '1'})
        for step, oi in enumerate(raw['ops']):
            op = self.OPS[oi]
            try:
                if op[0] == 'set':
                    d[op[1]] = op[2]
                elif op[0] == 'del':
                    del d[op[1]]
                elif op[0] == 'clear':
                    d.clear()
                elif op[0] == 'pop':
                    d.pop(op[1])
                elif op[0] == 'popd':
                    d.pop(op[1], op[2])
                elif op[0] == 'popitem':
                    d.popitem()
                elif op[0] == 'setdefault':
                    d.setdefault(op[1], op[2])
                elif op[0] == 'update':
                    d.update(op[1])
                elif op[0] == 'updatekw':
                    d.update(**op[1])
                elif op[0] == 'ior':
                    d |= op[1]
                elif op[0] == 'reset':
                    d.reset()
            except KeyError:
                pass
            if _apply(d.initial, d.changes) != dict(d):
                return self.fail(case, raw, 'changes_applied_to_initial_give_current', step=step, op=list(map(str, op)),
                                 current=dict(d), initial=dict(d.initial), changes=dict(d.changes))
        d2 = EnvVarDict.from_json(_json.loads(_json.dumps(d.to_json())))
        if dict(d2) != dict(d) or d2.initial != d.initial or _apply(d2.initial, d2.changes) != dict(d2):
            return self.fail(case, raw, 'json_round_trip', current=dict(d), restored=dict(d2), changes=dict(d2.changes))
        return True


def registry():
    return [SetItem(), DelItem(), Clear(), Pop(), PopItem(), SetDefault(), Update(), IOr(), Reset(), Init(), FromJson(),
            LazyChanges(), EnvVarDictOps()]


# ---- build.load_toolchain: every regeneration replays the toolchain from the *initial* variables ------------

import bfg9000.build as B
from bfg9000.build_inputs import Regenerating


class LoadToolchain(Contract):
    target = 'bfg9000/build.py::load_toolchain'
    properties = ('C09', 'C08')

    def cases(self):
        return [m.name for m in Regenerating]

    def params(self, cx, case):
        env = Obj(E.Environment, {'variables': evd('e'), 'toolchain': Obj(E.Toolchain, {'path': 'OLD-TOOLCHAIN-PATH'})})
        cx.ghost('x', X)
        cx.ghost('old', snapshot(env.attrs['variables']))
        return {'env': env, 'path': 'NEW-TOOLCHAIN-PATH', 'regenerating': Regenerating[case]}

    ghost_keys = [X]

    def requires(self, a):
        return wf(a.env.attrs['variables'])

    def opaque_calls(self):
        def noop(name):
            def h(I, args, kwargs, node):
                I.events.append((name, None))
                return None
            return h

        def mk_context(I, args, kwargs, node):
            # bind like the real constructor does (defaults included), whatever the call site passes
            import inspect
            sig = inspect.signature(B.builtin.ToolchainContext.__init__)
            ba = sig.bind(None, *args, **kwargs)
            ba.apply_defaults()
            return Obj(B.builtin.ToolchainContext, {'env': ba.arguments['env'], 'regenerating': ba.arguments['regenerating']})

        def run_script(I, args, kwargs, node):
            ctx = args[0]
            I.events.append(('execute_file', snapshot(ctx.attrs['env'].attrs['variables']), args[1],
                             ctx.attrs['regenerating']))
            return None
        return {B.builtin_init: noop('builtin_init'), B.tools_init: noop('tools_init'),
                B.builtin.ToolchainContext: mk_context, B.execute_file: run_script}

    def ensures(self, a, r):
        runs = [e for e in a.events if e[0] == 'execute_file']
        out = {'toolchain_script_runs_exactly_once': z3.BoolVal(len(runs) == 1)}
        if len(runs) != 1:
            return out
        cur, init, chg = runs[0][1]
        cp, cv = binding(cur, X)
        ip, iv = binding(a.old[1], X)
        op, ov = binding(a.old[0], X)
        tc = a.env.attrs['toolchain'].attrs['path']
        if a.regenerating is Regenerating.false:
            out['configure_records_toolchain_path'] = z3.BoolVal(tc == 'NEW-TOOLCHAIN-PATH')
            out['configure_starts_from_current_variables'] = same_binding(cp, cv, op, ov)
        else:
            no_change = z3.BoolVal(len(chg.d) == 0) if isinstance(chg, PDict) else z3.Not(z3.Select(chg.dom, X))
            out['regeneration_replays_from_initial_variables'] = z3.And(same_binding(cp, cv, ip, iv), no_change)
            out['regeneration_keeps_toolchain_path'] = z3.BoolVal(tc == 'OLD-TOOLCHAIN-PATH')
        out['script_path_and_mode_passed_on'] = z3.BoolVal(runs[0][2] == a.path and runs[0][3] is a.regenerating)
        return out


def registry():
    return [SetItem(), DelItem(), Clear(), Pop(), PopItem(), SetDefault(), Update(), IOr(), Reset(), Init(), FromJson(),
            LazyChanges(), LoadToolchain(), EnvVarDictOps()]


class EnvSaveLoad(Bounded):
    """Environment.save / Environment.load on the real class: the reloaded configuration equals the saved one,
    also when the file is first rewritten into an older layout (v16 ... v12; the old layouts are reconstructed
    from the documented format history: the *inverse* of each upgrade step, written by hand here)."""
    target = 'bfg9000/environment.py::Environment.load'
    properties = ('C09',)
    reason = 'file I/O, platform objects and JSON surgery on nested dicts with format history: runtime contract only'

    def cases(self):
        return ['v17', 'v16', 'v15', 'v14', 'v13', 'v12']

    def native_inputs(self, case, alphabet, maxlen, rng, extra=0):
        names = ['CC', 'CFLAGS', 'X Y']
        vals = ['', 'a', "-O2 'q'"]
        for i, (iv, cv) in enumerate(_it.product(vals, repeat=2)):
            yield {'initial': {'CC': iv, 'KEEP': 'k'}, 'set': {'CFLAGS': cv, 'CC': cv}, 'delete': ['KEEP'] if i % 2 else []}
        # values outside ASCII (also a byte that is not UTF-8, as os.environ delivers it), reloaded by a process in the
        # C locale
        yield {'initial': {'CC': 'cc', 'UNI': 'caf\u00e9 \u2603'}, 'set': {'RAW': 'caf\udce9'}, 'delete': [], 'reload_in_c_locale': True}
        # the backend's tool was not found at configure time: its version is unknown
        yield {'initial': {'CC': 'cc'}, 'set': {}, 'delete': [], 'unknown_backend_version': True}
        # a cross configuration: another target platform (species different from its genus) and install
        # directories that are not set
        for tgt in ('android', 'macos', 'winnt', 'linux'):
            for unset in (False, True):
                yield {'initial': {'CC': 'cc'}, 'set': {'NEW': ''}, 'delete': [], 'target': tgt, 'unset_install_dirs': unset}

    @staticmethod
    def downgrade(state, to):
        import copy
        st = copy.deepcopy(state)
        d = st['data']
        v = 17
        if to < 17:
            for i in ('datadir', 'mandir'):
                d['install_dirs'].pop(i, None)
        if to < 16:
            d.pop('compdb')
        if to < 15:
            var = d.pop('variables')
            d['initial_variables'] = var['initial']
            d['variables'] = var['current']
            d.pop('mopack')
        if to < 14:
            for i in ('host_platform', 'target_platform'):
                d[i] = d[i]['species']
        if to < 13:
            d.pop('initial_variables')
            d.pop('toolchain')
        st['version'] = to
        return st

    def native_check(self, case, raw):
        import os, tempfile
        from bfg9000.path import Path, Root
        from bfg9000.versioning import Version
        to = int(case[1:])
        with tempfile.TemporaryDirectory() as tmp:
            env = E.Environment(bfgdir=Path('/usr/bin/', Root.absolute), backend='make', backend_version=Version('4.3'),
                                srcdir=Path(tmp + '/src', Root.absolute), builddir=Path(tmp + '/build', Root.absolute))
            if raw.get('unknown_backend_version'):
                env.backend_version = None
            env.variables = EnvVarDict(dict(raw['initial']))
            for k, v in raw['set'].items():
                env.variables[k] = v
            for k in raw['delete']:
                del env.variables[k]
            if raw.get('target'):
                from bfg9000.platforms import target as _target
                env.target_platform = _target.platform_info(raw['target'])
            env.finalize({}, (True, False), False, ['--foo'])
            if raw.get('unset_install_dirs'):
                for k in list(env.install_dirs)[:2]:
                    env.install_dirs[k] = None
            os.makedirs(tmp + '/build')
            try:
                env.save(tmp + '/build')
            except Exception as e:      # noqa
                return self.fail(case, raw, 'configuration_can_be_saved', error=repr(e)[:200])
            fn = os.path.join(tmp, 'build', E.Environment.envfile)
            if raw.get('reload_in_c_locale') and to == 17:
                import subprocess
                from pyvc.interp import REPO
                code = ("import sys; from bfg9000.environment import Environment; e = Environment.load(sys.argv[1]); "
                        "print(ascii(sorted(e.variables.items())))")
                envp = {'PATH': os.environ['PATH'], 'PYTHONPATH': REPO, 'LC_ALL': 'C', 'PYTHONUTF8': '0', 'PYTHONCOERCECLOCALE': '0'}
                pr = subprocess.run(['/venv/bin/python', '-c', code, tmp + '/build'], env=envp, capture_output=True, text=True)
                if pr.returncode != 0 or pr.stdout.strip() != ascii(sorted(env.variables.items())):
                    return self.fail(case, raw, 'reloaded_in_another_locale_equals_saved', exit=pr.returncode,
                                     got=pr.stdout.strip()[:200], stderr=pr.stderr[-200:])
            state = _json.load(open(fn))
            if to < 17:
                _json.dump(self.downgrade(state, to), open(fn, 'w'))
            env2 = E.Environment.load(tmp + '/build')
            cur, ini = dict(env.variables), dict(env.variables.initial)
            exp_initial = ini if to >= 13 else cur
            problems = {}
            if dict(env2.variables) != cur:
                problems['current'] = (dict(env2.variables), cur)
            if dict(env2.variables.initial) != exp_initial:
                problems['initial'] = (dict(env2.variables.initial), exp_initial)
            if _apply(env2.variables.initial, env2.variables.changes) != dict(env2.variables):
                problems['changes'] = dict(env2.variables.changes)
            for f in ('srcdir', 'builddir', 'bfgdir', 'backend', 'extra_args', 'library_mode'):
                if getattr(env2, f) != getattr(env, f):
                    problems[f] = (repr(getattr(env2, f)), repr(getattr(env, f)))
            if str(env2.backend_version) != str(env.backend_version) or (env2.backend_version is None) != (env.backend_version is None):
                problems['backend_version'] = str(env2.backend_version)
            def plain(dirs):
                return {k: None if v is None else (v.root, v.suffix, v.destdir, v.directory) for k, v in dirs.items()}
            if plain(env2.install_dirs) != plain(env.install_dirs):
                problems['install_dirs'] = repr(env2.install_dirs)
            if to >= 14:
                for which in ('host_platform', 'target_platform'):
                    a_, b_ = getattr(env, which), getattr(env2, which)
                    if (a_.genus, a_.species, a_.arch, a_.name) != (b_.genus, b_.species, b_.arch, b_.name) or a_ != b_:
                        problems[which] = ((b_.genus, b_.species, b_.arch), (a_.genus, a_.species, a_.arch))
            if env2.compdb != (env.compdb if to >= 16 else True):
                problems['compdb'] = env2.compdb
            if problems:
                return self.fail(case, raw, 'reloaded_configuration_equals_saved', differences=problems)
            if to == 17:
                # what a nested configuration is handed (mopack-options.yml): its `env` section is the recorded changes
                import yaml
                from bfg9000.tools import mopack as _mopack
                out = _mopack.make_options_yml(env2)
                handed = {}
                if out is not None:
                    with open(out.string(env2.base_dirs)) as f:
                        handed = (yaml.safe_load(f) or {}).get('options', {}).get('env', {})
                if _apply(env2.variables.initial, handed) != cur:
                    return self.fail(case, raw, 'changes_handed_to_nested_builds_reproduce_the_variables', handed=handed,
                                     initial=dict(env2.variables.initial), current=cur)
            if env2.install_dirs != env.install_dirs:
                kinds = {k.name: (type(env.install_dirs[k]).__name__, type(v).__name__)
                         for k, v in env2.install_dirs.items() if v is not None and type(v) is not type(env.install_dirs[k])}
                return self.fail(case, raw, 'install_directories_keep_their_path_flavour', changed=kinds)
        return True


class ToolchainReplay(Bounded):
    """A toolchain file that chooses tools by name (`compiler`, `linker`, `runner`, `which` with several candidates)
    is loaded at configure time under one PATH and replayed after `Environment.load` under another ambient PATH and
    working directory (what `regenerate`, `env` and `run` do): the chosen tools are the ones chosen at configure
    time."""
    target = 'bfg9000/builtins/toolchain.py::which'
    properties = ('C09',)
    reason = 'file system lookups and two processes\' worth of ambient state: runtime contract on the real functions'
    LINES = {
        'compiler': ("compiler(['tool-a', 'tool-b'], 'c')", 'CC'),
        'linker': ("linker(['tool-a', 'tool-b'])", 'LD'),
        'runner': ("runner(['tool-a', 'tool-b'], 'java')", 'JAVACMD'),
        'which': ("environ['CHOSEN'] = which(['tool-a', 'tool-b'])", 'CHOSEN'),
        'path-set-by-the-file': ("environ['PATH'] = %(binb)r\ncompiler(['tool-a', 'tool-b'], 'c')", 'CC'),
    }
    AMBIENT = ['only-second-directory', 'reversed', 'empty']

    def native_inputs(self, case, alphabet, maxlen, rng, extra=0):
        for k in self.LINES:
            for amb in self.AMBIENT:
                yield {'builtin': k, 'later_path': amb}

    def native_check(self, case, raw):
        import os, shutil, tempfile
        from bfg9000 import build
        from bfg9000.build_inputs import Regenerating
        from bfg9000.path import Path, Root
        top = tempfile.mkdtemp(prefix='pyvc_tc_')
        old_path, old_cwd = os.environ.get('PATH'), os.getcwd()
        try:
            bina, binb, bld = (os.path.join(top, i) for i in ('bina', 'binb', 'build'))
            for d, tool in ((bina, 'tool-a'), (binb, 'tool-b')):
                os.makedirs(d)
                with open(os.path.join(d, tool), 'w') as f:
                    f.write('#!/bin/sh\n')
                os.chmod(os.path.join(d, tool), 0o755)
            os.makedirs(bld)
            line, var = self.LINES[raw['builtin']]
            tc = os.path.join(top, 'toolchain.bfg')
            with open(tc, 'w') as f:
                f.write(line % {'binb': binb} + '\n')
            os.environ['PATH'] = bina + os.pathsep + binb
            env = E.Environment(Path('/bfgdir/', Root.absolute), 'make', '4.3', Path(top + '/', Root.absolute), Path(bld + '/', Root.absolute))
            build.load_toolchain(env, Path(tc, Root.absolute))
            env.finalize({}, (True, False), True, [])
            env.save(bld)
            first_choice = env.variables.get(var)
            expected = 'tool-b' if raw['builtin'] == 'path-set-by-the-file' else 'tool-a'
            if first_choice != expected:
                return self.fail(case, raw, 'configure_chooses_the_first_candidate_on_the_path', got=first_choice, expected=expected)
            os.environ['PATH'] = {'only-second-directory': binb, 'reversed': binb + os.pathsep + bina, 'empty': ''}[raw['later_path']]
            os.chdir('/')
            try:
                env2 = E.Environment.load(bld)
                build.load_toolchain(env2, env2.toolchain.path, Regenerating.true)
            except Exception as e:      # noqa
                return self.fail(case, raw, 'later_invocation_restores_the_configured_choice', configured=first_choice,
                                 later='raised ' + repr(e)[:200], ambient_path=os.environ['PATH'])
            if env2.variables.get(var) != first_choice:
                return self.fail(case, raw, 'later_invocation_restores_the_configured_choice', configured=first_choice,
                                 later=env2.variables.get(var), ambient_path=os.environ['PATH'])
            return True
        finally:
            if old_path is None:
                os.environ.pop('PATH', None)
            else:
                os.environ['PATH'] = old_path
            os.chdir(old_cwd)
            shutil.rmtree(top, ignore_errors=True)


class RunInvocation(Bounded):
    """`bfg9000 run` (real driver) starts its command with exactly the configured variables -- also when a toolchain
    file cleared them all -- and `run -I` with exactly the initial ones; variables of the invoking shell never leak in."""
    target = 'bfg9000/driver.py::run'
    properties = ('C09',)
    reason = 'a child process and two ambient environments: runtime contract on the real driver'
    native_chunk = 1
    TOOLCHAINS = {'cleared': "environ.clear()\n", 'one-variable': "environ.clear()\nenviron['ONLY'] = 'set by toolchain'\n",
                  'added': "environ['ADDED'] = 'x y'\n"}

    def native_inputs(self, case, alphabet, maxlen, rng, extra=0):
        for k in self.TOOLCHAINS:
            for initial in (False, True):
                yield {'toolchain': k, 'initial': initial}

    def native_check(self, case, raw):
        import os, shutil, subprocess, tempfile
        from pyvc.interp import REPO
        top = tempfile.mkdtemp(prefix='pyvc_run_')
        try:
            src, b = top + '/src', top + '/b'
            os.makedirs(src)
            with open(src + '/build.bfg', 'w') as f:
                f.write("project('e')\n")
            with open(src + '/tc.bfg', 'w') as f:
                f.write(self.TOOLCHAINS[raw['toolchain']])
            os.makedirs(top + '/bin')
            lp = top + '/bin/bfg9000'
            with open(lp, 'w') as f:
                f.write("#!/bin/sh\nPYTHONPATH=%s exec /venv/bin/python -c 'import sys; sys.argv[0] = \"%s\"; "
                        "from bfg9000.driver import main; sys.exit(main())' \"$@\"\n" % (REPO, lp))
            os.chmod(lp, 0o755)
            base = {'PATH': top + '/bin:/venv/bin:/usr/bin:/bin', 'HOME': '/root'}
            conf_env = dict(base, AT_CONFIGURE='c-value')
            r = subprocess.run([lp, 'configure-into', src, b, '--backend=make', '--no-resolve-packages', '--toolchain', src + '/tc.bfg'],
                               env=conf_env, capture_output=True, text=True, timeout=120)
            if r.returncode != 0:
                return self.fail(case, raw, 'configure_succeeds', stderr=r.stderr[-300:])
            later_env = dict(base, AMBIENT_LATER='leak', AT_CONFIGURE='changed-later')
            dump = 'import os, json; print(json.dumps(dict(os.environ)))'
            cmd = [lp, 'run'] + (['-I'] if raw['initial'] else []) + ['-B', b, '/venv/bin/python', '-c', dump]
            p = subprocess.run(cmd, env=later_env, capture_output=True, text=True, timeout=60, cwd='/')
            if p.returncode != 0:
                return self.fail(case, raw, 'run_starts_the_command', stderr=p.stderr[-300:])
            got = _json.loads(p.stdout.strip().splitlines()[-1])
            got.pop('LC_CTYPE', None)           # (set by the Python interpreter of the child itself)
            if raw['initial'] or raw['toolchain'] == 'added':
                # what the /bin/sh launcher script of this harness adds to the environment bfg9000 itself sees
                for k in ('PYTHONPATH', 'PWD', 'OLDPWD', 'SHLVL', '_'):
                    got.pop(k, None)
            if raw['initial']:
                want = conf_env
            elif raw['toolchain'] == 'cleared':
                want = {}
            elif raw['toolchain'] == 'one-variable':
                want = {'ONLY': 'set by toolchain'}
            else:
                want = dict(conf_env, ADDED='x y')
            if got != want:
                return self.fail(case, raw, 'command_sees_exactly_the_configured_variables',
                                 unexpected={k: v for k, v in got.items() if want.get(k) != v},
                                 missing={k: v for k, v in want.items() if k not in got})
            return True
        finally:
            shutil.rmtree(top, ignore_errors=True)


class RegenerateElsewhere(Bounded):
    """A project whose tools were found at configure time through variables and a PATH entry of the configuring shell
    (CC / CXX / AR naming wrappers that live in a directory only that shell had on its PATH) is regenerated later
    from a shell with another PATH, other tool variables and another working directory: the build files are the ones
    the configure run wrote (the saved configuration is the only input)."""
    target = 'bfg9000/driver.py::regenerate'
    properties = ('C09',)
    reason = 'tool detection over two ambient environments and two processes: runtime contract on the real driver'
    native_chunk = 1

    def native_inputs(self, case, alphabet, maxlen, rng, extra=0):
        for backend in ('make', 'ninja'):
            for later in ('path-without-the-tools', 'other-tool-variables'):
                yield {'backend': backend, 'later': later}

    def native_check(self, case, raw):
        import os, shutil, subprocess, tempfile
        from pyvc.interp import REPO
        top = tempfile.mkdtemp(prefix='pyvc_else_')
        try:
            src, b, tools = top + '/src', top + '/b', top + '/my tools'

            def w(fp, text, mode=None):
                os.makedirs(os.path.dirname(fp), exist_ok=True)
                with open(fp, 'w') as f:
                    f.write(text)
                if mode:
                    os.chmod(fp, mode)
            w(src + '/build.bfg', "project('e')\npch = precompiled_header(file='pre.h')\nlib = static_library('l', files=['l.c'])\n"
                                  "executable('prog', files=['main.c', 'x.cpp'], pch=pch, libs=[lib])\n")
            w(src + '/pre.h', '#define V 0\n')
            w(src + '/l.c', 'int l(void) { return 0; }\n')
            w(src + '/main.c', 'int l(void); int x(void); int main(void) { return l() + x() + V; }\n')
            w(src + '/x.cpp', 'extern "C" int x(void) { return 0; }\n')
            for name, real in (('mycc', '/usr/bin/cc'), ('mycxx', '/usr/bin/c++'), ('myar', '/usr/bin/ar')):
                if not os.path.exists(real):
                    return None
                w(tools + '/' + name, '#!/bin/sh\nexec %s "$@"\n' % real, 0o755)
            lp = top + '/bin/bfg9000'
            w(lp, "#!/bin/sh\nPYTHONPATH=%s exec /venv/bin/python -c 'import sys; sys.argv[0] = \"%s\"; "
                  "from bfg9000.driver import main; sys.exit(main())' \"$@\"\n" % (REPO, lp), 0o755)
            w(top + '/bin/ninja', '#!/bin/sh\necho 1.10.1\n', 0o755)
            base = {'PATH': top + '/bin:/venv/bin:/usr/bin:/bin', 'HOME': '/root'}
            conf_env = dict(base, PATH=tools + ':' + base['PATH'], CC='mycc', CXX='mycxx', AR='myar')
            r = subprocess.run([lp, 'configure-into', src, b, '--backend=' + raw['backend'], '--no-resolve-packages'],
                               env=conf_env, capture_output=True, text=True, timeout=120)
            if r.returncode != 0:
                return self.fail(case, raw, 'configure_succeeds', stderr=r.stderr[-300:])
            names = ['Makefile' if raw['backend'] == 'make' else 'build.ninja', 'compile_commands.json']

            def snap():
                out = {}
                for n in names:
                    with open(b + '/' + n) as f:
                        out[n] = f.read()
                return out
            first = snap()
            if 'mycc' not in first[names[0]]:
                return self.fail(case, raw, 'configure_uses_the_named_tools')
            later_env = dict(base) if raw['later'] == 'path-without-the-tools' else \
                dict(base, CC='/usr/bin/false', CXX='/usr/bin/false', AR='/usr/bin/false', CFLAGS='-DLEAK=1')
            p = subprocess.run([lp, 'regenerate', b], env=later_env, capture_output=True, text=True, timeout=120, cwd='/')
            if p.returncode != 0:
                return self.fail(case, raw, 'regeneration_succeeds', stderr=p.stderr[-300:])
            second = snap()
            for n in names:
                if first[n] != second[n]:
                    import difflib
                    d = list(difflib.unified_diff(first[n].splitlines(), second[n].splitlines(), lineterm='', n=0))
                    return self.fail(case, raw, 'regenerated_build_files_are_those_of_the_configure_run', file=n, diff=d[:10],
                                     warnings=p.stderr[-300:])
            return True
        finally:
            shutil.rmtree(top, ignore_errors=True)


def registry():
    return [SetItem(), DelItem(), Clear(), Pop(), PopItem(), SetDefault(), Update(), IOr(), Reset(), Init(), FromJson(),
            LazyChanges(), LoadToolchain(), EnvVarDictOps(), EnvSaveLoad(), ToolchainReplay(), RunInvocation(), RegenerateElsewhere()]
