"""C04 (bounded, real tools): special characters in the *directory* names of the source and the build tree.

Every file name bfg9000 writes is below one of the two trees, so a character of their path reaches every prerequisite
(through the `srcdir` variable), every recipe argument and the regeneration rule.  A small project is configured by
the tree under test with the source tree (or the build tree) inside a directory of the given name, and built by the
real GNU make: the build succeeds and creates the outputs, a second build does nothing, clean removes them."""
import os
from contracts.bounded_cmd import Bounded

# representable Make names only (the property's exclusions: backslash, wildcards, `;`, `=`, tab, leading `~`)
NAMES = ['plain', 'sp ace', 'do$llar', 'per%cent', 'ha#sh', "quo'te", 'co:lon', 'amp&er', 'com,ma', 'pa(r)en', 'ti~lde',
         'pl+us', 'at@x', 'ex!cl', 'pi|pe', '..cache', '...', '.hidden', '-dash']


class DirectoryNames(Bounded):
    """Source tree / build tree below a directory whose name contains a special character: configure, build (program
    and a copied data file), rebuild (nothing to do), clean."""
    target = 'bfg9000/backends/make/writer.py::write'
    properties = ('C04',)
    reason = 'whole pipeline plus GNU make, cc, cp: runtime contract with the real tools'
    native_chunk = 1

    def native_inputs(self, case, alphabet, maxlen, rng, extra=0):
        for where in ('source', 'build', 'output'):
            for n in NAMES:
                yield {'tree': where, 'name': n}

    def native_check(self, case, raw):
        import shutil, subprocess, tempfile
        from pyvc.interp import REPO
        top = tempfile.mkdtemp(prefix='pyvc_dirs_')
        try:
            src = top + ('/' + raw['name'] if raw['tree'] == 'source' else '') + '/s'
            b = top + ('/' + raw['name'] if raw['tree'] == 'build' else '') + '/b'
            os.makedirs(src)
            # `output`: both trees have plain names; the outputs are placed in a subdirectory of that name
            sub = raw['name'] + '/' if raw['tree'] == 'output' else ''
            with open(src + '/build.bfg', 'w') as f:
                f.write("project('m')\np = executable(%r, files=['main.c'], includes=['inc'])\nd = copy_file(%r, 'data.txt')\n"
                        "l = copy_file(%r, 'da ta.txt', mode='symlink')\ndefault(p, d, l)\n"
                        % (sub + 'p', sub + 'data.txt', sub + 'lnk.txt'))
            # the header is only found through the per-target include option (a target-specific variable in Make)
            os.makedirs(src + '/inc')
            with open(src + '/inc/v.h', 'w') as f:
                f.write('#define V 0\n')
            with open(src + '/main.c', 'w') as f:
                f.write('#include "v.h"\nint main(void) { return V; }\n')
            with open(src + '/data.txt', 'w') as f:
                f.write('x\n')
            with open(src + '/da ta.txt', 'w') as f:
                f.write('linked\n')
            os.makedirs(top + '/bin')
            for name, mod in (('bfg9000', 'bfg9000.driver'), ('bfg9000-depfixer', 'bfg9000.depfixer')):
                lp = top + '/bin/' + name
                with open(lp, 'w') as f:
                    f.write("#!/bin/sh\nPYTHONPATH=%s exec /venv/bin/python -c 'import sys; sys.argv[0] = \"%s\"; "
                            "from %s import main; sys.exit(main())' \"$@\"\n" % (REPO, lp, mod))
                os.chmod(lp, 0o755)
            env = dict(os.environ, PATH=top + '/bin:/venv/bin:' + os.environ['PATH'])
            env.pop('MAKEFLAGS', None)

            def run(cmd, **kw):
                try:
                    return subprocess.run(cmd, env=env, capture_output=True, text=True, timeout=15, **kw)
                except subprocess.TimeoutExpired as e:
                    class R:
                        returncode, stdout, stderr = 124, '', 'no end after 15 s: ' + str(e.stdout or b'')[-300:]
                    return R
            r = run([top + '/bin/bfg9000', 'configure-into', src, b, '--backend=make', '--no-resolve-packages'])
            if r.returncode != 0:
                return self.fail(case, raw, 'configure_succeeds', stderr=r.stderr[-400:])
            m = run(['make', '-C', b])
            b_out = b + '/' + sub
            if m.returncode != 0 or not (os.path.exists(b_out + 'p') and os.path.exists(b_out + 'data.txt') and
                                         os.path.exists(b_out + 'lnk.txt') and open(b_out + 'lnk.txt').read() == 'linked\n'):
                return self.fail(case, raw, 'build_creates_the_outputs', exit=m.returncode, output=(m.stdout + m.stderr)[-500:])
            m = run(['make', '-C', b])
            if m.returncode != 0 or 'Nothing to be done' not in m.stdout:
                return self.fail(case, raw, 'up_to_date_after_the_build', exit=m.returncode, output=(m.stdout + m.stderr)[-500:])
            m = run(['make', '-C', b, 'clean'])
            if m.returncode != 0 or os.path.exists(b_out + 'p') or os.path.exists(b_out + 'data.txt'):
                return self.fail(case, raw, 'clean_removes_the_outputs', exit=m.returncode, output=(m.stdout + m.stderr)[-500:])
            before = sorted(os.listdir(src))
            if before != ['build.bfg', 'da ta.txt', 'data.txt', 'inc', 'main.c']:
                return self.fail(case, raw, 'source_tree_untouched', listing=before)
            return True
        finally:
            shutil.rmtree(top, ignore_errors=True)


def registry():
    return [DirectoryNames()]
