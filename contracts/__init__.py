"""Property table: which contract modules carry which property, and what stays assumed."""

SH_ASSUME = [
    'specs/sh.py (POSIX sh token recognition as a fold) is the formal reading of "what /bin/sh receives"; validated '
    'against /bin/sh (dash) by specs/validate_sh.py; assignment-word/reserved-word treatment of the *command word* '
    'is not modelled',
    'Python str = finite sequence of code points; int = mathematical integer',
    'induction schemas (snoc / nat) are instantiated by PyVC as stated in DESIGN 2.3 (meta-argument in lean/Schemas.lean)',
]

TABLE = {}

NOT_APPLICABLE = {
    'C10': 'quantifies over crash points between file-system mutations and fault sequences of whole configure/regenerate runs; a function contract relates one call\'s pre-state to its post-state and has no notion of "killed here" (DESIGN.md section 6)',
    'C13': 'two-run hyperproperty of the whole pipeline under hash randomisation; set iteration order is not an input of any function under contract (DESIGN.md section 6)',
    'C16': 'the oracle is the behaviour of the external gcc/clang binaries; a contract on the flag tables can only restate the tables (DESIGN.md section 6)',
    'C18': 'universal statement over all builtins plus the behaviour of the external archive tool; no per-function contract carries it (DESIGN.md section 6)',
}

NJ_ASSUME = ['specs/ninja.py (ninja lexing of values and paths) is written from the ninja manual; no ninja binary is '
             'available in the sandbox, so this spec is NOT tool-validated']

TABLE['C02'] = {
    'modules': ['contracts.ninja'],
    'level': 'proof',
    'assumptions': SH_ASSUME + NJ_ASSUME,
    'trusted_base': ['PyVC (pyvc/*.py): symbolic interpreter, fold normaliser, induction schemas', 'z3 5.1.0',
                     'specs/sh.py', 'specs/ninja.py'],
    'not_covered': ['how builtins/*.py assemble the argument lists handed to the writer', 'Writer.write for jbos / BasePath fragments (in progress)',
                    'write_each/write_shell over argument lists', 'ninja rule/build scoping (command = ${cmd})'],
    'level_text': 'Deductive proof, for all strings, that the sh-quoting and ninja-escaping kernels (posix.inner_quote_info, wrap_quotes, quote_info; ninja Writer.escape_str, Writer.write for str/shell_literal/literal fragments) make ninja+sh read back exactly the argument; property-level sentences about whole build scripts are not carried',
    'level_note': 'Trusted: PyVC itself, z3, the spec folds specs/sh.py (validated against dash) and specs/ninja.py (from the manual, not tool-validated), library models of str.replace/re (cross-checked against CPython each run). Not covered: argument-list assembly in builtins, jbos/Path fragments, rule scoping.',
}
