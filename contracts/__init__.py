"""Property table: which contract modules carry which property, and what stays assumed."""

SPY_ASSUME = ['bounded end-to-end run (ProcessArguments): every program of the generated project is a spy script that records argv and two environment variables; the Ninja side is evaluated by specs/ninja_eval.py (no ninja binary) and run by /bin/sh in dependency order']

SH_ASSUME = [
    'specs/sh.py (POSIX sh token recognition as a fold) is the formal reading of "what /bin/sh receives"; validated '
    'against /bin/sh (dash) by specs/validate_sh.py; assignment-word/reserved-word treatment of the *command word* '
    'is not modelled',
    'Python str = finite sequence of code points; int = mathematical integer',
    'induction schemas (snoc / nat) are instantiated by PyVC as stated in DESIGN 2.3 (meta-argument in lean/Schemas.lean)',
]

TABLE = {}

NOT_APPLICABLE = {
}

NJ_ASSUME = ['specs/ninja.py (ninja lexing of values and paths) is written from the ninja manual; no ninja binary is '
             'available in the sandbox, so this spec is NOT tool-validated']

TABLE['C02'] = {
    'validate': ['sh'],
    'modules': ['contracts.ninja', 'contracts.bounded_cmd', 'contracts.linking', 'contracts.argv', 'contracts.emitters'],
    'level': 'proof',
    'assumptions': SH_ASSUME + NJ_ASSUME + SPY_ASSUME,
    'trusted_base': ['PyVC (pyvc/*.py): symbolic interpreter, fold normaliser, induction schemas', 'z3 5.1.0',
                     'specs/sh.py', 'specs/ninja.py'],
    'not_covered': ['how builtins/*.py assemble the argument lists handed to the writer', 'ninja rule/build scoping (command = ${cmd})', 'cmd /s /c wrapping of shell lists on Windows', 'NinjaFile._write_rule and NinjaFile.write as a whole'],
    'level_text': 'Deductive proof, for all strings, that the sh-quoting and ninja-escaping kernels (posix.inner_quote_info, wrap_quotes, quote_info; ninja Writer.escape_str, Writer.write for str / shell_literal / literal / jbos / BasePath fragments) make ninja+sh read back exactly the argument; for argument lists of any length that tween / write_each / write_shell write the blank-joined fragment texts, read back as exactly that many separate words; that _write_variable / _write_build put every part in the escaping context of its position; and that option_list.collect keeps every string in order. Property-level sentences about whole build scripts are not carried.',
    'level_note': 'Trusted: PyVC itself, z3, the spec folds specs/sh.py (validated against dash) and specs/ninja.py (from the manual, not tool-validated), library models of str.replace/re (cross-checked against CPython each run). Not covered: argument-list assembly in builtins, rule scoping.',
}

MK_ASSUME = ['specs/make.py (GNU make reading of recipe lines, := values, target/prerequisite words and $(call) arguments) '
             'is written from the manual and the probes in DESIGN.md Appendix B; validated against /usr/bin/make 4.3 by '
             'specs/validate_make.py (thorough tier)',
             're.sub on the pattern family F2 "(a*)(class|^x|$)" with the make/windows replacement function is the '
             'run-length transducer of pyvc/models.py f2_fold (cross-checked against CPython re on every run)']

TABLE['C01'] = {
    'validate': ['sh', 'make'],
    'modules': ['contracts.make', 'contracts.bounded_cmd', 'contracts.linking', 'contracts.argv', 'contracts.emitters'],
    'level': 'proof',
    'assumptions': SH_ASSUME + MK_ASSUME + SPY_ASSUME,
    'trusted_base': ['PyVC (pyvc/*.py)', 'z3 5.1.0', 'specs/sh.py', 'specs/make.py'],
    'not_covered': ['how builtins/*.py assemble the argument lists handed to the writer (which option lands in which variable)', 'syntax_string fragments; define/endef bodies (Makefile._write_define); join_lines, local_env, global_env (bounded run with the real sh)', 'nested test-driver quoting (_build_commands)', 'Makefile.write sections other than the include statements'],
    'level_text': 'Deductive proof, for all strings, that the sh-quoting kernel (posix.inner_quote_info, wrap_quotes, quote_info) and the make escaping kernel (Writer.escape_str in all five syntaxes, Writer.write for str / shell_literal / literal / jbos / BasePath fragments) make GNU make + sh read back exactly the argument, in a recipe line and in a := assignment; for argument lists of any length that tween / write_each / write_shell write the blank-joined fragment texts and that such a text is read back as exactly that many separate words; that _write_variable / _write_rule put every part in the escaping context of its position; and that option_list.collect keeps every string (also the empty one) in order. Three genuine defects are recorded as known findings and the failing obligations are re-proved outside their witnesses. Whole-script sentences of the property are not carried.',
    'level_note': 'Trusted: PyVC, z3, spec folds specs/sh.py and specs/make.py (both validated against the real tools in the thorough tier), library models of str.replace/re (cross-checked each run). Not covered: argument-list assembly in builtins, syntax_string fragments, define bodies.',
}

TABLE['C04'] = {
    'validate': ['make'],
    'modules': ['contracts.make', 'contracts.ninja', 'contracts.bounded_cmd', 'contracts.emitters'],
    'level': 'proof',
    'assumptions': SH_ASSUME + MK_ASSUME + NJ_ASSUME + [
        'representable Make names: printable ASCII without backslash, * ? [ ] ; = tab, not starting with ~, not ending in blank or & (the property\'s own exclusions; no escaping accepted by GNU make exists for them)',
        'representable Ninja names: no | and no line break'],
    'trusted_base': ['PyVC (pyvc/*.py)', 'z3 5.1.0', 'specs/make.py', 'specs/ninja.py', 'specs/sh.py'],
    'not_covered': ['that the build step creates / is up to date / notices changes / clean removes the file, beyond the bounded real-make runs (prerequisite names, find depfile)', 'file names with wildcard characters as targets', 'directory sentinels beyond the mkdir recipe (Pattern %/.dir)', 'the ninja tool itself (no binary in the sandbox)'],
    'level_text': 'Deductive proof, for all representable names, that make Writer.escape_str/Writer.write (target, dependency, function syntaxes; str and BasePath fragments) and ninja Writer.escape_str/Writer.write (output, input) are read back by the tool as exactly the name, that target-side and dependency-side spellings agree, and that rule / build / target-specific-assignment / include statements put each name in the escaping context of its position; bounded runs with the real GNU make for prerequisite names (19 special characters incl. wildcards next to matching siblings) and for the find_files depfile. Known findings: comma in $(call), # in an assignment, single quote inside a quoted automatic variable; the %-in-prerequisite defect was repaired (fix commit).',
    'level_note': 'Trusted: PyVC, z3, specs/make.py (validated against make 4.3), specs/ninja.py (not tool-validated), F2 regex transducer model (cross-checked). Not covered: tool behaviour after name resolution, Path realisation, depfiles.',
}

TABLE['C11'] = {
    'modules': ['contracts.glob', 'contracts.regencheck', 'contracts.regen'],
    'level': 'proof',
    'assumptions': [
        'path components and per-component matchers are abstract (uninterpreted sorts; M(matcher, component)); that the matcher '
        'built by re.compile(fnmatch.translate(c)).match / _match_string decides the documented *, ?, [..] semantics of one '
        'component is a library assumption (fnmatch), cross-checked by the bounded reference run',
        'termination of PathGlob._match_glob_runs (recursion on the number of runs) is not verified',
        'Python int = mathematical integer; list_view is interpreted from the real iterutils.list_view source',
    ],
    'trusted_base': ['PyVC (pyvc/*.py)', 'z3 5.1.0', 'the recursive definitions MATCHN/SEM/EXC in contracts/glob.py (the formal reading of "** matches zero or more components")'],
    'not_covered': ['PathGlob.__init__/_compile_glob (deductively; covered by the bounded reference run)', 'NameGlob, FileFilter._match_globs, FindResult algebra (in progress)',
                    'find._find_files pruning walk, uniquetrees, caching, "every returned entry exists", dist membership'],
    'level_text': 'Deductive proof, for all patterns (any number of ** runs) and all paths, that PathGlob._match_base, _match_glob_run, _match_glob_runs and match return yes exactly on the documented glob semantics (soundness and completeness of the first-fit strategy, by induction lemmas) and never only where no descendant can match; _is_glob classifies exactly the fnmatch metacharacters. Compile step and file-system walk are cross-checked bounded only.',
    'level_note': 'Trusted: PyVC, z3, the recursive semantic definitions. Assumed: fnmatch per-component behaviour, termination. Bounded only: constructor/_compile_glob, find_files walk.',
}

TABLE['C09'] = {
    'modules': ['contracts.env'],
    'level': 'proof',
    'assumptions': [
        'dict library contract (pyvc/dictmodel.py): pointwise updates; iteration yields exactly the present keys; cross-checked by the bounded operation-sequence run on the real class',
        'the invariant is proved at an arbitrary variable name x (ghost constant): sound because every map is only updated pointwise',
        'variable names and values are str (the class raises TypeError otherwise)',
    ],
    'trusted_base': ['PyVC (pyvc/*.py) incl. the dict model', 'z3 5.1.0'],
    'not_covered': ['Environment.save/load field-by-field inverse and the version upgrade chain (bounded run only, see evidence.bounded)',
                    'platform/tool detection deductively (bounded: ToolchainReplay, RegenerateElsewhere, RunInvocation)', 'package flags (-P) given at configure time are not part of the saved configuration (reported, untriaged: side9)'],
    'level_text': 'Deductive proof that every public mutator of EnvVarDict (the overridden ones from their real source, the inherited ones from dict\'s library contract) preserves "changes applied to initial == current" for all maps and all keys, that __init__/from_json establish it, and that the lazily recomputed changes of a reloaded object are exactly the differences; the inherited |= defect this exposed was repaired (fix commit).',
    'level_note': 'Trusted: PyVC and its dict model, z3. Not covered deductively: Environment.save/load and the upgrade chain (bounded), toolchain replay.',
}

TABLE['C03'] = {
    'modules': ['contracts.graph', 'contracts.make', 'contracts.ninja', 'contracts.crossbackend', 'contracts.emitters', 'contracts.depfile', 'contracts.scripts'],
    'level': 'proof',
    'assumptions': [
        'Makefile._target_str / NinjaFile._output_str are abstracted as an uninterpreted function from the thing to its escaped text (their injectivity up to the escape is C04)',
        'the invariant is proved at an arbitrary target text x (ghost constant); sets are updated pointwise',
        'command_build is verified for implicit-dependency lists of length 0, 1, 2 and None (list concatenation is uniform in the length; not an induction)',
        'emitter contracts (contracts/emitters.py): the step object is abstract (arbitrary field values), its dependency lists have the lengths 0..2 (list concatenation is uniform in the length; not an induction), callees (multitarget_rule, command_build, Makefile.rule / NinjaFile.build / default / rule / define, the tool objects, flags_vars, _install_files, _build_commands ...) are recorded opaque calls with abstract results; Variable objects for plain-word names are constructed without the constructor\'s re.sub (it only rewrites non-word characters)',
    ],
    'trusted_base': ['PyVC (pyvc/*.py) incl. dict/set model', 'z3 5.1.0'],
    'not_covered': ['emitters other than the ones under contract (dist, msbuild, java/qt/yacc specific steps)', 'multitarget_rule stamp files deductively (bounded MultiOutputStep only)', 'Edge registration, BuildRuleHandler dispatch',
                    'default-set bookkeeping DefaultOutputs.add / remove (the `all` goal emitters and the outputs property are under contract)', 'rebuild behaviour of make given the graph beyond the bounded edit histories; ninja itself (no binary)'],
    'level_text': 'Deductive proof that Makefile.rule and NinjaFile.build never give a target text a second producing rule and record exactly the call\'s targets (for all target lists and all previous states), and that ninja command_build passes every given dependency (plus PHONY) to the single build statement it emits. Only these data-structure and emitter kernels of the property are carried; the per-builtin dependency lists and rebuild behaviour are not. Bounded (real pipeline): a generated project with an explicitly described graph (generated header, build steps with files/extra_deps/command inputs, a symlink copy, a test-only program) has exactly the described prerequisites and default set in both backends.',
    'level_note': 'Trusted: PyVC, z3. Partial claim: duplicate-output rejection and command_build only; everything listed under not_covered is unverified.',
}

TABLE['C05'] = {
    'modules': ['contracts.naming', 'contracts.paths'],
    'level': 'proof',
    'assumptions': [
        're.sub on the family F3 "(^|/)X1..Xk(?=/|$)" with template "\\1LIT" (classes not matching "/") is the per-component transducer of pyvc/models.py f3_fold (cross-checked against CPython re)',
        'BasePath.relpath / parent / append are abstracted in the within_directory contract (their algebra is C12); the bounded run uses the real ones',
    ],
    'trusted_base': ['PyVC (pyvc/*.py)', 'z3 5.1.0', 'the spec transducer PARMAP (".." components and only they become PAR)'],
    'not_covered': ['CcCompiler.default_name/output_file, Link.convert_args (<name>.int/), relpath/relname/buildpath root checks (bounded run only for stripext)',
                    'that every builtin places implicit outputs under Root.builddir'],
    'level_text': 'Deductive proof that within_directory rewrites exactly the ".." components of the relative path to PAR (the regex the code uses denotes the specified transducer, for all strings) and hands the result to directory.append; that Makefile.rule / NinjaFile.build reject a second producing rule for any target text (shared with C03). Injectivity and containment of the whole naming pipeline, and stripext, are checked bounded on the real Path objects.',
    'level_note': 'Trusted: PyVC, z3, F3 regex transducer model (cross-checked). Bounded only: relpath/append/stripext composition (posixpath library).',
}

TABLE['C17'] = {
    'modules': ['contracts.versions', 'contracts.pcfiles'],
    'level': 'proof',
    'assumptions': [
        'versions form a dense total order without end points (modelled by the reals); `v in Specifier(op, w)` is the comparison (specs/verorder.py); PEP 440 pre/post-release quirks are outside the model',
        'the version *text* of a specifier is identified with its position in that order (Version(text) is the identity of the model): the deductive contract cannot tell a comparison of texts from a comparison of versions; that difference is decided only by the bounded SimplifyNative run over a multi-digit version family (1.9 / 1.10 / 2.0) on the real verspec objects, which found the text comparison repaired in e0f4fed',
        'SpecifierSet(text) built from str() of specifiers denotes their conjunction (verspec print/parse round trip), keyed to the three return expressions of simplify_specifiers by their source text',
        'a filtering list comprehension keeps exactly the elements that satisfy the condition (stated as ALLNEF)',
        'the invariant and the postcondition are proved at an arbitrary version v (ghost constant)',
        'PkgConfigInfo.finalize is verified with RequirementSet operations as recorded opaque events (their own algebra is covered bounded only)',
        'the installed mopack cannot start (pkg_resources missing): projects that need it get a stub `mopack` written by the harness that answers only resolve / list-files / linkage',
    ],
    'trusted_base': ['PyVC (pyvc/*.py)', 'z3 5.1.0', 'specs/verorder.py'],
    'not_covered': ['Requirement.__iand__, RequirementSet.add/merge_from/split bodies', '.pc text writer beyond the bounded run; real pkg-config; consumer compilation; auto_fill'],
    'level_text': 'Deductive proof, for all specifier lists and all versions of a dense order, that simplify_specifiers returns a set accepting exactly the versions every specifier accepts and raises ValueError only when no version does (the >=v,<=v,!=v defect this exposed was repaired), and that PkgConfigInfo.finalize adds inherited requirements before merging public and private lists. Writer and requirement algebra are checked bounded on the real classes.',
    'level_note': 'Trusted: PyVC, z3, the dense-order model of versions, verspec print/parse round trip. Bounded only: "unsatisfiable => rejected", RequirementSet algebra, .pc writer.',
}

TABLE['C20'] = {
    'modules': ['contracts.windows', 'contracts.graph'],
    'level': 'proof',
    'assumptions': [
        'specs/crt.py (MS C runtime argument parsing, post-2008 rules incl. "" inside quotes) is written from the documentation; no Windows runtime exists in the sandbox: NOT tool-validated',
        're.search on the family F5 "(class|...|a$)" and re.sub on the family F2 with the windows replacement function are the models of pyvc/models.py (cross-checked against CPython re on every run)',
        'arguments contain no line break (Python\'s `$` also matches before a trailing newline); cmd.exe metacharacters are outside the claim, as the property says',
        'uuid.uuid4() is an opaque source of fresh values; file I/O of the GUID map = json round trip (bounded run only)',
    ],
    'trusted_base': ['PyVC (pyvc/*.py)', 'z3 5.1.0', 'specs/crt.py'],
    'not_covered': ['windows._tokenize / split / join deductively (bounded run on the real functions, including quoted pieces next to verbatim text)', 'escape_percent variant', 'Solution.dependencies / set_default deductively (bounded runs over the written .sln, incl. MSVC link steps over a history of scripts)'],
    'level_text': 'Deductive proof, for all strings without line breaks (any runs of backslashes and quotes), that the MS C runtime rules read windows.quote_info(s) back as exactly the one argument s; that UuidMap.__getitem__ marks the key seen, returns an existing GUID unchanged and leaves every other key alone; and that Project.set_uuid takes the GUID of the full project name. join/split inverse, GUID stability over run sequences and well-formedness of the written .sln (unique GUIDs, dependencies inside the solution) are checked bounded on the real code.',
    'level_note': 'Trusted: PyVC, z3, specs/crt.py (not tool-validated), regex family models (cross-checked). Bounded only: tokenizer/split/join, multi-run GUID persistence.',
}

TABLE['C12'] = {
    'modules': ['contracts.paths', 'contracts.naming'],
    'level': 'other',
    'explanation': 'proof of the three kernels whose logic is bfg9000\'s own (equality/hash agreement, hash input, JSON shape incl. the directory flag) + bounded runtime contracts of every algebraic law of the property on the real PosixPath/WindowsPath classes (all strings of up to 4 components over {"", ".", "..", "a", "b.c", "a b", "..x"}, both separators); the laws themselves are laws of posixpath/ntpath/os.path, for which no deductive model exists here (a model would restate the library), so they are NOT proved',
    'assumptions': ['posixpath/ntpath/os.path behave as in the running CPython (the bounded run uses the real library)',
                    'names beginning with ~ are excluded (os.path.expanduser is applied to every appended string: known divergence, see DESIGN.md)'],
    'trusted_base': ['PyVC (pyvc/*.py)', 'z3 5.1.0', 'the reference normaliser oracle_norm in contracts/paths.py'],
    'not_covered': ['absolute and drive-prefixed forms beyond the bounded alphabet', 'reroot/addext/stripext/splitleaf laws (stripext: see C05)', 'leading ~ components'],
    'level_text': 'Partial: deductive proof of __eq__/__hash__ agreement and of the to_json shape; all algebraic laws (normal form, containment, separator agnosticism, parent/append, relpath/append, JSON inverse, string = join, commonprefix/uniquetrees) are checked as runtime contracts on the real classes up to a stated bound, for both platform flavours. Not a proof of the laws.',
    'level_note': 'Bounded stand-in for the library-dependent laws (labelled bounded, not counted as proved); proof only for three small kernels.',
}

TABLE['C07'] = {
    'modules': ['contracts.depfile', 'contracts.make', 'contracts.emitters'],
    'level': 'other',
    'explanation': 'real compilers and edit histories cannot be put under contract. What is decided: (proof) CcBaseCompiler._call emits -MMD -MF <depfile> whenever a depfile is requested; (proof, for all file names) the -include statements written by Makefile.write name the depfile in TARGET syntax; (bounded, real function) depfixer.emit_deps turns every well-formed gcc depfile text up to the stated bound into exactly one empty rule per dependency, spelled as given with % escaped; (bounded, real cc + GNU make) four generated projects (plain names, blanks, # and %, nested directories) over the edit history build / no-op build / change of a transitively included header / drop-and-delete of the headers / clean / build behave as the property says',
    'assumptions': ['the gcc depfile shape is the grammar stated in contracts/depfile.py::DepfixerReference (written from the gcc documentation of -MMD output)'],
    'trusted_base': ['PyVC (pyvc/*.py)', 'z3 5.1.0'],
    'not_covered': ['other edit histories and project shapes than the four generated ones', 'ninja deps=gcc (no ninja binary in the sandbox)', 'C++ / other compilers than the installed cc'],
    'level_text': 'Partial: two deductive kernels (depfile flags, include statements), a bounded exhaustive run of the depfixer on the real function, and bounded end-to-end histories with the real compiler and make; the quantifier over all edit histories is outside this family.',
    'level_note': 'Mostly bounded; CompilerCall and the include statements of Makefile.write are proofs. One genuine defect found by the bounded history run and repaired (% in a header name).',
}
TABLE['C04']['modules'].append('contracts.depfile')
TABLE['C04']['modules'].append('contracts.regen')
TABLE['C04']['modules'].append('contracts.dirnames')

TABLE['C19'] = {
    'modules': ['contracts.scripts', 'contracts.naming'],
    'level': 'other',
    'explanation': 'partial: (proof) add_user_argument registers exactly the names and their --x- aliases and rejects reserved/malformed names, for all name strings; (syntactic proof on the AST) the globals handed to exec() are a fresh two-key dict display; (bounded, real classes) both spellings parse to the same value for plain/enable/with arguments, and push_path keeps the path stack balanced on normal and exceptional exit; (bounded, real configure_build on generated script trees: chains to depth 4, ../ references, a sibling included twice, a directory name with a blank; build and options contexts) every submodule() call runs the callee script of the kind of the caller, exports reach exactly the caller, no variable leaks, input paths are relative to the source directory of the script, output paths of copy_file/object_file/executable/static_library to the matching build directory (build_step: known finding), nested project arguments carry the configured values.',
    'assumptions': ['argparse dispatches option strings as documented', 'Python exec() with an explicit globals dict does not share names between calls'],
    'trusted_base': ['PyVC (pyvc/*.py)', 'z3 5.1.0'],
    'not_covered': ['trees deeper than 4 / other shapes than the listed ones', 'output builtins other than the five listed', 'values seen by later regenerations (see C09)'],
    'level_text': 'Partial claim, see explanation.',
    'level_note': 'Two small proofs plus bounded runs on the real pipeline; submodule-relative paths and export flow are bounded only.',
}

TABLE['C08'] = {
    'modules': ['contracts.regen', 'contracts.scripts', 'contracts.regencheck', 'contracts.env', 'contracts.installglue'],
    'level': 'other',
    'explanation': 'history property (edits interleaved with regenerations): outside one-call contracts. What is decided: (proof) the skip decision of find_check_cache, for any number of regeneration inputs/outputs and arbitrary cached find results, over an abstract file system: skipped only if the cache is not newer than the build file, no input is newer than any output and every cached result (found and extra) equals the fresh search; fresh results and searched directories are recorded for every cached filter; (proof) BasePath.to_json encodes the directory flag as a trailing separator (the only way from_json can recover it); (bounded, real code) to_json/from_json of PathGlob, NameGlob, FileFilter, FindCache (kinds preserved), RegenerateFiles and the cache-file version gate are identities / refusals as required; find() on real trees equals the reference semantics; push_path records scripts in start order; (bounded, real driver + GNU make) on a generated project with two find_files calls, a submodule and an options file, 12 single edits and 10 edit pairs (all ordered pairs in the thorough tier) each followed by the generated regeneration rule leave Makefile, .bfg_find_deps (as a set), .bfg_find_cache and compile_commands.json identical to a fresh configure, and a second make regenerates nothing; (bounded, real GNU make) the depfile written by find.write_depfile makes the output depend on exactly the searched directories, for directory names with Make-special characters, and survives deletion of a directory',
    'assumptions': ['json.dumps/loads round-trips lists, dicts, strings, booleans and None'],
    'trusted_base': ['PyVC (pyvc/*.py)', 'z3 5.1.0'],
    'not_covered': ['edit histories longer than two steps / other project shapes', 'the ninja backend (no ninja binary in the sandbox)', 'toolchain-file edits'],
    'level_text': 'Partial claim, see explanation.',
    'level_note': 'One proof (to_json shape) + bounded runs including real regeneration histories; the history quantifier of the property is not reachable by this family. One genuine defect found by the history run and repaired (watched directories not refreshed when lazy regeneration is skipped).',
}

TABLE['C14'] = {
    'modules': ['contracts.linking'],
    'level': 'other',
    'explanation': 'linking and running are external. What is decided: (proof) option_list.append appends a string always and an option object exactly when it matches no element already present (first occurrence kept); (bounded, real classes) for every DAG of up to four libraries with up to two forwarded libraries each, the final lib option list contains every reachable library and puts each static library before an occurrence of everything it forwards -- except where a library is reachable along two paths, which is a recorded known finding (confirmed with the real toolchain); local_rpath is $ORIGIN-relative and independent of where the build directory is; (bounded, real cc/ar + GNU make + doppel/patchelf) four generated DAGs (static chain forwarding a package, nested shared library, shared library behind a static one, diamond over a shared base) link, run from another directory, run after the build directory was moved, and the installed program runs without the build directory',
    'assumptions': ['static-library link order semantics of ld: a library must precede the libraries that resolve its undefined symbols'],
    'trusted_base': ['PyVC (pyvc/*.py)', 'z3 5.1.0'],
    'not_covered': ['DAG shapes beyond the generated ones; dual-use and whole-archive libraries; --enable/--disable-shared/static combinations', 'linkers other than the installed GNU ld'],
    'level_text': 'Partial claim, see explanation.',
    'level_note': 'One small proof + bounded runs on the real kernel classes and on the real toolchain; one known finding (link order with a shared forwarded dependency).',
}

TABLE['C15'] = {
    'modules': ['contracts.install', 'contracts.emitters', 'contracts.installglue'],
    'level': 'other',
    'explanation': 'proved (deductive): make_install_rule and ninja_install_rule emit the install goal iff there are files to copy or packages to deploy, let it depend on `all`, always out of date, running the file commands followed by the package deployment; the uninstall goal iff files were installed, running exactly the removal commands; nothing when installation is disabled; Environment.supports_destdir answers yes exactly when every installation directory is set and none is an absolute path with a drive; post_install of install_name_tool and of patchelf emit one command that patches the staged (DESTDIR) copy and writes the installed library locations (abstract install database, 0..2 libraries); the path function of installify sends the file and its public parts below the given directory / the root of the kind with DESTDIR iff the build is native, keeps private parts and refuses external files; _install_files emits one copy per database entry (onto / into with members relative to the directory, mode of the kind) followed by the post-install steps; _uninstall_files removes exactly the paths those copies create; _add_install_paths defines one path variable per installation root and DESTDIR iff the backend has it. Everything else about *which* files go *where* is bounded only (file_types.clone machinery, getattr-based tables, external doppel/patchelf tools): installify / InstallOutputs / _uninstall_files on the real classes, and the real install and uninstall targets of generated projects run by GNU make with the real doppel and patchelf under six option sets (prefix in place, separate exec-prefix, DESTDIR with a blank, individually set bin/lib/include/man directories with blanks, a prebuilt source-tree library next to / instead of a project library) and four further projects (dual-use library, implicit dependency chain, versioned dependency, explicit search directory)',
    'assumptions': ['the installed doppel 0.5.0 and patchelf are the tools a user runs', '_install_files / _uninstall_files / _install_mopack / can_install are abstract in the goal contracts (their results are arbitrary command lists)'],
    'trusted_base': ['PyVC (pyvc/*.py)', 'z3 5.1.0'],
    'not_covered': ['pkg-config files as installed files, Windows layouts, mach-o tools beyond the post_install contract', 'the ninja backend beyond the goal emitter (no ninja binary in the sandbox)', 'option sets other than the generated ones', 'file_types.clone / install_kind / install_root tables deductively (bounded InstallMapping)'],
    'level_text': 'Partial: the two goal emitters are proved to refine one description of the install / uninstall goals; the mapping of files to directories, the run-time dependency closure, search-path rewriting and uninstall symmetry are bounded explorations (labelled) with the real tools.',
    'level_note': 'deductive for make_install_rule / ninja_install_rule, installify, _install_files, _uninstall_files, _add_install_paths, supports_destdir and the two post_install functions (all over abstract file objects); the rest is a bounded stand-in (DESIGN.md 8.3)',
    'technique': 'contract-based proof of the install goal emitters (PyVC + z3) and bounded runtime contracts on the real functions and tools (stand-in, not counted as proved)',
}


TABLE['C16'] = {
    'modules': ['contracts.ccflags'],
    'level': 'exploration',
    'explanation': 'the oracle of this property is the behaviour of the external compiler: a deductive contract on the flag tables could only restate them, so nothing is proved. The check is a bounded runtime contract on the real pipeline: for 18 semantic-option cases (define with and without value and with shell-special text, std c99/c11, include_dir with a blank, warning all/extra/error/disable, debug, optimize disable/size/speed/linktime and size+linktime, pic, pthread), each placed per target and as a global option, a generated project is configured by the tree under test and built with the installed cc through GNU make; the flags must be accepted and the program must show the documented effect through predefined macros, its exit status, a .debug_info section or a failing build.',
    'assumptions': ['the installed cc (gcc) is the detected compiler; its predefined macros (__OPTIMIZE__, __OPTIMIZE_SIZE__, _REENTRANT, __PIC__, __STDC_VERSION__) report the effect of the corresponding flags'],
    'trusted_base': [],
    'not_covered': ['languages other than C; compilers other than the installed gcc (clang, MSVC tables)', 'sanitize, static, entry_point, lib / lib_dir, pch, sys include', 'pairwise combinations, toolchain files, CFLAGS-style variables'],
    'level_text': 'Bounded exploration only (labelled): 36 generated projects built with the real compiler. Nothing is proved for this property.',
    'level_note': 'bounded stand-in only; the contract technique does not apply to an external oracle (DESIGN.md section 6 and 8.3). One genuine defect found and repaired (-Osize).',
    'technique': 'bounded runtime contracts on the real pipeline and compiler (stand-in; no deductive obligations)',
}


TABLE['C13'] = {
    'modules': ['contracts.determinism'],
    'level': 'exploration',
    'explanation': 'a two-run hyperproperty of the whole pipeline (hash seed, environment, invocation directory): no function contract can state it, nothing is proved. The check is a bounded runtime contract on the real driver: one generated project using most builtins is configured for the Make and the Ninja backend under a reference context and four other contexts (hash seeds 1, 77, 4242, 12345; invoked from the parent, the root and the source directory; relative and absolute directory spellings; an unrelated environment variable); primary build files must be byte-identical and auxiliary files equal as sets of entries.',
    'assumptions': ['build.ninja is written with a stub `ninja` that only answers --version (no ninja binary exists in the sandbox; bfg9000 asks it for nothing else while configuring)'],
    'trusted_base': [],
    'not_covered': ['other projects and builtins than the generated one (external pkg-config lookups, msbuild)', 'directory listing order of the file system (path.listdir does not sort; reported, untriaged: side9)', 'process id and time dependence beyond what five runs show', 'all hash seeds'],
    'level_text': 'Bounded exploration only (labelled): eight configure pairs. Nothing is proved for this property.',
    'level_note': 'bounded stand-in only; the contract technique does not apply to a two-run hyperproperty (DESIGN.md section 6 and 8.3).',
    'technique': 'bounded runtime contracts on the real driver (stand-in; no deductive obligations)',
}


TABLE['C18'] = {
    'modules': ['contracts.distarchive', 'contracts.regencheck', 'contracts.regen'],
    'level': 'other',
    'explanation': '(proof: find_from_filter under contract -- whether a find_files() result comes from the find cache or from a fresh search, cached or not, every found path becomes an object of the requested type and every extra path is registered, all with the dist flag of the caller.) Beyond that kernel: a universal statement over all builtins plus the behaviour of the external archive tool: no per-function contract carries it, nothing else is proved. The rest of the check is a bounded runtime contract on the real pipeline: one generated project that creates file objects through find_files (with extra=), header_directory (with a pattern), static_library, executable, header_file, man_page, generic_file, copy_file, build_step and command inputs, a submodule with its own options file, extra_dist and a dist=False source is configured by the tree under test; the dist-gzip, dist-bzip2 and dist-zip targets are run by GNU make with the real doppel; the archive members must be exactly the files the description reads, and the unpacked archive must configure and build the distributed targets.',
    'assumptions': ['the installed doppel 0.5.0 is the archive tool a user runs'],
    'trusted_base': ['PyVC (pyvc/*.py)', 'z3 5.1.0'],
    'not_covered': ['builtins not used by the generated project (packages, pkg-config, generated sources, precompiled headers)', 'files below an extra_dist directory deeper than one level (accepted either way: no influence on the build, not settled by the property text)', 'the ninja backend'],
    'level_text': 'Partial: one deductive kernel (find_from_filter registers found and extra files with the dist flag in every branch) plus a bounded run (labelled): one generated project, three archive formats.',
    'level_note': 'bounded stand-in only; the contract technique does not apply (DESIGN.md section 6 and 8.3).',
    'technique': 'contract-based proof of find_from_filter (PyVC + z3) and bounded runtime contracts on the real pipeline and archive tool (stand-in, not counted as proved)',
}


TABLE['C06'] = {
    'modules': ['contracts.crossbackend', 'contracts.emitters', 'contracts.installglue', 'contracts.argv'],
    'level': 'other',
    'explanation': 'a relational property across three hand-written emitters per builtin over duck-typed rule objects. Proved (deductive, abstract step object, dependency lists of length 0..2): the Make and the Ninja emitter of custom steps (command / build_step) each hand their backend exactly one description of the step -- outputs, every consumed file (files and extra_deps), the command line with its environment, always-outdated iff declared -- so the two build files agree on such steps. For all other builtins no product-program contract was built (the emitter kernels under contract are claimed under C01/C02/C03). The check is a bounded runtime contract on the real pipeline: seven generated projects (libraries with forwarded options, tests with an environment, install, pkg-config, alias; build_step / command / copy_file with blanks, `$` and quotes in names and options) are configured for Make and for Ninja by the tree under test. GNU make reports the Make side itself (make -n -B for command lines, make -pn for the dependency relation); build.ninja is read with the evaluator specs/ninja_eval.py; compile_commands.json of each backend is matched against the compile steps of that backend. Compared: buildable file targets, dependency relation, argument lists (program, arguments, environment assignments) of every build step and of test / install / uninstall / dist.',
    'assumptions': ['emitter contracts (contracts/emitters.py): the step object is abstract (arbitrary field values), its dependency lists have the lengths 0..2 (list concatenation is uniform in the length; not an induction), callees (multitarget_rule, command_build, Makefile.rule / NinjaFile.build / default / rule / define, the tool objects, flags_vars, _install_files, _build_commands ...) are recorded opaque calls with abstract results; Variable objects for plain-word names are constructed without the constructor\'s re.sub (it only rewrites non-word characters)',
                    'specs/ninja_eval.py reads build.ninja as ninja would (written from the ninja manual; no ninja binary in the sandbox; build.ninja itself is written with a stub `ninja` that only answers --version)',
                    'documented backend-specific differences normalised away: Ninja-only -fdiagnostics-color, Make directory sentinels, the stamp file of a step with several outputs and the depfixer line, the regeneration statement, a leading ./',
                    'the installed mopack cannot start (pkg_resources missing): projects that need it get a stub `mopack` written by the harness that answers only resolve / list-files / linkage'],
    'trusted_base': ['PyVC (pyvc/*.py)', 'z3 5.1.0'],
    'not_covered': ['emitters of compile / link / copy_file / install / test / pkg-config steps (bounded only)', 'builtins not used by the seven generated projects', 'configure options (library modes, install dirs, environment-provided flags)', 'working directory of steps (both backends run in the build directory by construction)', 'msbuild'],
    'level_text': 'Partial: the two emitters of custom steps are proved to refine one step description; everything else is a bounded exploration (labelled) of seven generated projects in both backends.',
    'level_note': 'deductive for make_command / ninja_command only; the cross-backend comparison of whole projects is a bounded stand-in (DESIGN.md 8.3).',
    'technique': 'contract-based proof that the Make and Ninja emitters of custom steps refine one step description (PyVC + z3) and bounded runtime contracts on the real pipeline with GNU make as the reader of the Make side (stand-in, not counted as proved)',
}


TABLE['C10'] = {
    'modules': ['contracts.faults', 'contracts.regencheck', 'contracts.regen', 'contracts.installglue'],
    'level': 'other',
    'explanation': '(proof, find_check_cache under contract with an abstract file system: for any number of regeneration inputs and outputs and arbitrary cached find results, a lazy regeneration is skipped only if the find cache is not newer than the build file, no input is newer than any output and every cached result equals the fresh search; the depfile is refreshed before skipping; regenerate._outputs lists the build file of the configured backend first and then every immediate file, and RegenerateFiles.to_json / from_json persist both lists one by one in order.) Beyond that kernel the property quantifies over crash points between file-system mutations of a whole run: a function contract relates the pre-state of one call to its post-state and has no notion of "killed here", so nothing else is proved. The rest of the check is bounded fault injection on the real driver, without any change to the repository: the generated regeneration rule is run by GNU make with a launcher that patches open-for-write / close / os.utime / remove / makedirs / rename / replace for paths in the build directory and, at the k-th such event, kills the process (buffered data lost) or raises OSError -- for every k of an uninterrupted run (up to 31 events; 32 points are injected), two kinds of edit (build.bfg changed; a new file matching find_files) and both fault modes; the next, undisturbed make must then either leave Makefile, .bfg_find_deps and .bfg_find_cache equal to a fresh configure of the edited project or exit non-zero. A build script that raises must leave the previous Makefile byte-identical and fail visibly.',
    'assumptions': ['a kill is modelled by os._exit at a patched call: files are absent, empty or complete, never partially flushed'],
    'trusted_base': ['PyVC (pyvc/*.py)', 'z3 5.1.0'],
    'not_covered': ['two faults in a row', 'crash points inside one write() call (a file is absent, empty or complete)', 'the make-level view: an interrupted run that leaves nothing newer than the outputs is only repaired by an explicit regeneration attempt', 'MSBuild backend'],
    'level_text': 'Partial: deductive kernels (the skip decision of find_check_cache, the declared inputs / outputs of the regeneration step, their persistence and the regeneration rule of both backends) plus bounded fault injection (labelled): 32 fault points x 2 fault modes x (2 edits x make / direct / ninja follow-ups, an explicit follow-up, an interrupted re-configure with the same and with another option) + failing scripts (raise, exit codes 3 / 256 / message / True, an error while a .pc file is written, each also taken back with the old time stamp).',
    'level_note': 'bounded fault injection; the contract technique does not apply to crash points (DESIGN.md section 6 and 8.3). One genuine defect found and repaired.',
    'technique': 'contract-based proof of the skip decision (PyVC + z3) and bounded fault injection on the real process (stand-in, not counted as proved)',
}
