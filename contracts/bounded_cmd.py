"""Bounded stand-ins (runtime contracts on the real functions) for the command-line writers that PyVC does not
reach deductively yet: BasePath fragments, list-level writers, environment helpers, posix.split.

Every class here is labelled *bounded*: it enumerates inputs up to a stated bound, runs the REAL function, reads
the produced text with the spec readers (make / ninja expansion, then the sh fold) and compares with the
arguments that were handed in.  Nothing here is ever counted as proved.
"""
import io
import os
import itertools

from pyvc.contract import Contract
from specs.sh import sh_words
from specs import make as MK
from specs import ninja as NJ

import bfg9000.backends.make.syntax as msyn
import bfg9000.backends.ninja.syntax as nsyn
import bfg9000.shell as bshell
import bfg9000.shell.posix as posix
from bfg9000.path import Path, Root, InstallRoot
from bfg9000.safe_str import jbos, literal, shell_literal

SRCDIR_VALUE = "/S D"          # a source directory with a blank: quoting of the realised path must cover it
MK_ENV = {'srcdir': SRCDIR_VALUE, ',': ','}
NJ_ENV = {'srcdir': SRCDIR_VALUE}


class Bounded(Contract):
    deductive = False
    reason = ''
    alphabet = "a '$#,\\"
    maxlen = 2

    def native_alphabet(self):
        return self.alphabet

    def fail(self, case, raw, clause, **kw):
        d = {'contract': type(self).__name__, 'target': self.target, 'case': case, 'input': raw, 'clause': clause}
        d.update(kw)
        return d


def expected_path_string(root, suffix, shelly):
    p = Path(suffix, root)
    sfx = p.suffix
    if p.root == Root.srcdir:
        return SRCDIR_VALUE + ('/' + sfx if sfx else '')
    if p.root == Root.builddir:
        if not sfx:
            return '.'
        return './' + sfx if (shelly and '/' not in sfx) else sfx
    return sfx


def arg_strings(alphabet, maxlen):
    from pyvc.native import strings
    return [s for s in strings(alphabet, maxlen) if '\n' not in s]


class MakeWriteArgs(Bounded):
    """make Writer.write_shell / Makefile._write_variable on lists of str and Path arguments."""
    target = 'bfg9000/backends/make/syntax.py::Writer.write_shell'
    properties = ('C01', 'C04')

    def case_in_property(self, case, pid):
        return case.endswith('path') if pid == 'C04' else True
    reason = 'list-level writer over BasePath/jbos fragments and iterutils.tween generators: not yet under a deductive contract'
    alphabet = "a '$#-@"

    def cases(self):
        return ['recipe', 'assignment', 'recipe-path', 'assignment-path', 'target-assignment-path']

    def native_inputs(self, case, alphabet, maxlen, rng, extra=0):
        if case == 'target-assignment-path':
            for n in arg_strings("a %|#:$ '", 2):
                if n and not n.startswith('/') and not n.endswith(' ') and not n.startswith('~'):
                    yield {'target': n, 'args': ['-Dx']}
            return
        words = arg_strings(alphabet, 2)
        if case.endswith('path'):
            names = [w for w in words if w and not w.startswith('/') and '\\' not in w and w not in ('.', '..') and
                     not w.startswith('~')]
            for n in names:
                for root in ('srcdir', 'builddir'):
                    yield {'args': ['cc', {'path': n, 'root': root}]}
            return
        for w in words:
            yield {'args': [w]}
        sample = words if len(words) < 40 else rng.sample(words, 40)
        for a, b in itertools.product(sample, sample):
            yield {'args': [a, b]}

    def build_args(self, raw):
        out, exp = [], []
        for a in raw['args']:
            if isinstance(a, dict):
                root = Root[a['root']]
                out.append(Path(a['path'], root))
                exp.append(expected_path_string(root, a['path'], True))
            else:
                out.append(a)
                exp.append(a)
        return out, exp

    def native_check(self, case, raw):
        try:
            args, expected = self.build_args(raw)
        except ValueError:
            return None         # not a valid path string (drive prefix, escapes the root ...)
        mk = msyn.Makefile('build.bfg')
        buf = io.StringIO()
        w = mk.writer(buf)
        if case == 'target-assignment-path':
            # `target: X := value`: make must read the word before the colon as exactly that target (a `%` left
            # unescaped makes the line a pattern-specific assignment that leaks into other targets)
            try:
                p = Path(raw['target'], Root.builddir)
            except ValueError:
                return None
            if p.root != Root.builddir or not p.suffix:
                return None
            mk._write_variable(w, msyn.Variable('X'), args, target=p)
            text = buf.getvalue()
            tail = ": X := -Dx\n"
            if not text.endswith(tail):
                return self.fail(case, raw, 'target_specific_assignment_shape', text=text)
            st, out = MK.mk_target.pyrun_codes((MK.N, 0, 1, 1, 0), text[:-len(tail)])
            got = ''.join(chr(c) for c in out) + '\\' * st[1]
            if not (st[0] == MK.N and st[2] == 1 and st[4] == 0) or got != p.suffix:
                return self.fail(case, raw, 'make_reads_the_assignment_target_back', text=text, read=got, expected=p.suffix)
            return True
        try:
            if case.startswith('recipe'):
                w.write_shell(args)
                text = buf.getvalue()
                prefixes, line = MK.mk_recipe_line_py(text, MK_ENV)
                if prefixes.strip():
                    return self.fail(case, raw, 'recipe_command_word_not_eaten_by_make', text=text)
            else:
                mk._write_variable(w, msyn.Variable('X'), args)
                text = buf.getvalue()
                if not text.endswith('\n') or '\n' in text[:-1]:
                    return self.fail(case, raw, 'one_line', text=text)
                name, line = MK.mk_assignment_value_py(text[:-1], MK_ENV)
        except MK.MakeReadError as e:
            return self.fail(case, raw, 'make_reads_text', text=buf.getvalue(), error=str(e))
        words = sh_words(line)
        if words != expected:
            return self.fail(case, raw, 'assignment_args_reach_sh' if case.startswith('assign') else 'recipe_args_reach_sh',
                             text=text, sh_line=line, sh_words=words, expected=expected)
        return True


class NinjaWriteArgs(Bounded):
    target = 'bfg9000/backends/ninja/syntax.py::Writer.write_shell'
    properties = ('C02', 'C04')

    def case_in_property(self, case, pid):
        return case.endswith('path') if pid == 'C04' else True
    reason = MakeWriteArgs.reason
    alphabet = "a '$:#-"

    def cases(self):
        return ['variable', 'variable-path']

    native_inputs = MakeWriteArgs.native_inputs
    build_args = MakeWriteArgs.build_args

    def native_check(self, case, raw):
        try:
            args, expected = self.build_args(raw)
        except ValueError:
            return None
        nf = nsyn.NinjaFile('build.bfg')
        buf = io.StringIO()
        w = nf.writer(buf)
        nf._write_variable(w, nsyn.var('cmd'), args, indent=1)
        text = buf.getvalue()
        if not (text.startswith('  cmd = ') and text.endswith('\n') and '\n' not in text[:-1]):
            return self.fail(case, raw, 'one_binding_line', text=text)
        try:
            line = NJ.nj_expand_py(text[len('  cmd = '):-1].lstrip(' '), NJ_ENV)
        except NJ.NinjaReadError as e:
            return self.fail(case, raw, 'ninja_reads_text', text=text, error=str(e))
        words = sh_words(line)
        if words != expected:
            return self.fail(case, raw, 'args_reach_sh', text=text, sh_line=line, sh_words=words, expected=expected)
        return True


class PathNames(Bounded):
    """Writer.write(BasePath) in the file-name syntaxes of both backends (C04)."""
    target = 'bfg9000/backends/make/syntax.py::Writer.write'
    properties = ('C04',)
    reason = 'BasePath branch of Writer.write (realize + nested writer + wrap_quotes): not yet under a deductive contract'
    alphabet = "a $:#%|'"

    def cases(self):
        return ['make/target', 'make/dependency', 'ninja/output', 'ninja/input']

    def native_inputs(self, case, alphabet, maxlen, rng, extra=0):
        for n in arg_strings(alphabet, 3):
            if not n or n.startswith('/') or n.endswith(' ') or n.endswith('&') or n.startswith('~'):
                continue
            if case.startswith('ninja') and '|' in n:
                continue
            for root in ('srcdir', 'builddir'):
                yield {'path': n, 'root': root}

    def native_check(self, case, raw):
        root = Root[raw['root']]
        try:
            p = Path(raw['path'], root)
        except ValueError:
            return None
        if p.root != root or not p.suffix:
            return None
        backend, sx = case.split('/')
        buf = io.StringIO()
        if backend == 'make':
            w = msyn.Makefile('build.bfg').writer(buf)
            w.write(p, msyn.Syntax[sx])
            text = buf.getvalue()
            # expand the root variable with a value that needs no escaping in a rule line
            text = text.replace('$(srcdir)', '/S')
            fold = MK.mk_target if sx == 'target' else MK.mk_dep
            st, out = fold.pyrun_codes((MK.N, 0, 1, 1, 0), text)
            ok = st[0] == MK.N and st[2] == 1 and st[4] == 0
            got = ''.join(chr(c) for c in out) + '\\' * st[1]
        else:
            w = nsyn.NinjaFile('build.bfg').writer(buf)
            w.write(p, nsyn.Syntax[sx])
            text = buf.getvalue().replace('${srcdir}', '/S')
            st, out = NJ.nj_path.pyrun_codes((NJ.NORMAL, 1), text)
            ok = st[0] == NJ.NORMAL and st[1] == 1
            got = ''.join(chr(c) for c in out)
        want = ('/S/' + p.suffix) if root == Root.srcdir else p.suffix
        if not ok or got != want:
            return self.fail(case, raw, 'tool_reads_name_back', text=buf.getvalue(), read=got, expected=want, literal=ok)
        return True


class PrerequisiteNames(Bounded):
    """A rule written by the real Makefile class and run by the real GNU make: the prerequisite name (a source file
    that exists, next to sibling files a glob pattern would also match) reaches the recipe as exactly that file
    (`$<`), the target is built from it, is up to date afterwards and is rebuilt when that file changes."""
    target = 'bfg9000/backends/make/syntax.py::Makefile.rule'
    properties = ('C04',)
    reason = 'behaviour of GNU make wildcard expansion on existing files: runtime contract with the real tool'
    native_chunk = 2
    NAMES = ['in?.txt', 'in*.txt', 'in[12].txt', 'in 1.txt', 'in#1.txt', 'in$1.txt', 'in%1.txt', "in'1.txt",
             'in:1.txt', 'in|1.txt', 'd?/in.txt', 'in(1).txt', 'in&1.txt', 'in@1.txt', 'in!1.txt', 'in+1.txt',
             'in{1}.txt', 'in,1.txt', 'in"1.txt']

    def native_inputs(self, case, alphabet, maxlen, rng, extra=0):
        for n in self.NAMES:
            yield {'name': n}

    def native_check(self, case, raw):
        import shutil, subprocess, tempfile
        name = raw['name']
        top = tempfile.mkdtemp(prefix='pyvc_prereq_')
        try:
            src, b = top + '/src', top + '/b'
            for f, text in ((name, 'WANTED'), ('in1.txt', 'sibling-1'), ('in2.txt', 'sibling-2'), ('inXY.txt', 'sibling-xy'),
                            ('d1/in.txt', 'sibling-dir')):
                fp = os.path.join(src, f)
                os.makedirs(os.path.dirname(fp), exist_ok=True)
                if f == name or not os.path.exists(fp):
                    with open(fp, 'w') as fh:
                        fh.write(text)
            os.makedirs(b)
            mk = msyn.Makefile('build.bfg')
            mk.rule(target=Path('out.txt', Root.builddir), deps=[Path(name, Root.srcdir)],
                    recipe=[['cp', msyn.qvar('<'), msyn.qvar('@')]])      # the way every bfg9000 rule names its files
            buf = io.StringIO()
            mk.write(buf)
            text = buf.getvalue()
            with open(b + '/Makefile', 'w') as fh:
                fh.write('srcdir := %s\n' % src + text)
            env = dict(os.environ)
            env.pop('MAKEFLAGS', None)

            def make():
                r = subprocess.run(['make', '-C', b, '--no-print-directory', 'out.txt'], env=env, capture_output=True,
                                   text=True, timeout=30)
                return r.returncode, r.stdout + r.stderr
            rc, out = make()
            got = open(b + '/out.txt').read() if os.path.exists(b + '/out.txt') else None
            rule = [l for l in text.splitlines() if l.startswith('out.txt:')]
            if rc != 0 or got != 'WANTED':
                return self.fail(case, raw, 'target_built_from_exactly_the_named_prerequisite', rule=rule, built=got, make=out[-300:])
            rc, out = make()
            if rc != 0 or 'cp ' in out:
                return self.fail(case, raw, 'up_to_date_after_the_build', rule=rule, make=out[-300:])
            with open(os.path.join(src, name), 'w') as fh:
                fh.write('CHANGED')
            t = os.stat(b + '/out.txt').st_mtime + 100
            os.utime(os.path.join(src, name), (t, t))
            rc, out = make()
            got = open(b + '/out.txt').read()
            if rc != 0 or got != 'CHANGED':
                return self.fail(case, raw, 'change_of_the_named_prerequisite_is_noticed', rule=rule, built=got, make=out[-300:])
            return True
        finally:
            shutil.rmtree(top, ignore_errors=True)


class EnvLines(Bounded):
    """posix.global_env / local_env / join_lines, written by the ninja writer and executed by the real /bin/sh."""
    target = 'bfg9000/shell/posix.py::global_env'
    properties = ('C01', 'C02')
    reason = 'generator pipelines (itertools.chain, iterutils.tween) and real sh execution: runtime contract only'
    alphabet = "a '$#="

    def cases(self):
        return ['global_env', 'local_env']

    def native_inputs(self, case, alphabet, maxlen, rng, extra=0):
        vals = arg_strings(alphabet, 2)
        vals = vals if len(vals) <= 60 else rng.sample(vals, 60)
        for v in vals:
            for a in vals[:12]:
                yield {'value': v, 'arg': a}

    def native_check(self, case, raw):
        import subprocess
        cmd = ['/bin/sh', '-c', 'printf "%s\\0" "$BFGV" "$@"', 'x', raw['arg']]
        if case == 'global_env':
            line = posix.global_env({'BFGV': raw['value']}, [cmd])
        else:
            line = posix.local_env({'BFGV': raw['value']}, cmd)
        buf = io.StringIO()
        nsyn.Writer(buf, {}, bshell).write_shell(line)
        try:
            text = NJ.nj_expand_py(buf.getvalue(), {})
        except NJ.NinjaReadError as e:
            return self.fail(case, raw, 'ninja_reads_text', text=buf.getvalue(), error=str(e))
        p = subprocess.run(['/bin/sh', '-c', text], capture_output=True, timeout=10, env={'PATH': '/usr/bin:/bin'})
        got = [x.decode('utf-8', 'replace') for x in p.stdout.split(b'\0')[:-1]]
        if got != [raw['value'], raw['arg']]:
            return self.fail(case, raw, 'env_value_and_arg_reach_process', text=text, got=got, stderr=p.stderr.decode()[:200])
        return True


class PosixSplit(Bounded):
    """posix.split (option strings "split by sh rules"): agrees with the sh fold wherever sh reads literally."""
    target = 'bfg9000/shell/posix.py::split'
    properties = ('C01', 'C02')
    reason = 'delegates to the stdlib shlex state machine (outside the verified subset)'
    alphabet = "a '#-="

    def native_inputs(self, case, alphabet, maxlen, rng, extra=0):
        for s in arg_strings(alphabet, 5):
            yield {'s': s}

    def native_check(self, case, raw):
        want = sh_words(raw['s'])
        if want is None:
            return None
        try:
            got = posix.split(raw['s'])
        except Exception as e:      # noqa
            return self.fail(case, raw, 'split_agrees_with_sh', error=repr(e), expected=want)
        if got != want:
            return self.fail(case, raw, 'split_agrees_with_sh', got=got, expected=want)
        return True


def registry():
    return [MakeWriteArgs(), NinjaWriteArgs(), PathNames(), PrerequisiteNames(), EnvLines(), PosixSplit()]
