"""List-level writers (C01, C02): iterutils.tween, Writer.write_each / write_shell for argument lists of any length.

Fragments are abstract (sort SafeStr): Wt(x) is the text Writer.write produces for x (contracts/fragments.py).  The
list-level law: the text of a list is the fragments' texts joined by the delimiter's text; and if every fragment text
is read by the build tool + sh as one word fragment, the joined text is read as exactly that many separate words."""
import z3
from pyvc import terms as T
from pyvc.contract import Contract, Lemma, LoopInv, Args
from pyvc.values import Sym, Obj, PList, PStream, fresh_sym
from pyvc import models as M
from contracts import fragments as FR
from contracts import posix_shell as PS
from specs.sh import sh, START, WORD, BREAK

import bfg9000.iterutils as IU
import bfg9000.backends.make.syntax as msyn
import bfg9000.backends.ninja.syntax as nsyn
import bfg9000.shell as bshell
from bfg9000.safe_str import literal

SafeStr, Bits, BITS_TY = FR.SafeStr, FR.Bits, FR.BITS_TY
ELT = ('opaque', 'SafeStr')

# interleaving: [x0, D, x1, D, ..., x(n-1)]
TW = T.RecDef('TWEEN', [Bits, SafeStr], Bits, lambda xs, d: z3.Empty(Bits),
              lambda xs, d, k, prev: z3.If(k == 0, z3.Unit(xs[0]), z3.Concat(prev, z3.Unit(d), z3.Unit(xs[k]))))

_LITS = {}


def literal_fragment(obj):
    """The abstract fragment standing for a concrete `literal(...)` object (e.g. the default delimiter ' ')."""
    s = obj.string if isinstance(obj, literal) else obj
    if s not in _LITS:
        _LITS[s] = z3.Const('literal_%s' % '_'.join('%x' % ord(c) for c in s), SafeStr)
    return _LITS[s]


def as_fragment(v):
    if v is None:
        return None
    if isinstance(v, Sym):
        return v.e
    if isinstance(v, literal):
        return literal_fragment(v)
    if isinstance(v, Obj) and v.cls is literal and isinstance(v.attrs.get('string'), str):
        return literal_fragment(v.attrs['string'])
    from pyvc.interp import OutOfSubset
    raise OutOfSubset('fragment %r has no abstract term' % (v,))


class Tween(Contract):
    target = 'bfg9000/iterutils.py::tween'
    properties = ('C01', 'C02')

    def cases(self):
        return ['plain', 'prefix', 'prefix+suffix']

    def params(self, cx, case):
        xs = z3.Const('xs', Bits)
        d = {'iterable': PList(None, xs, ELT), 'delim': Sym(z3.Const('delim', SafeStr), ELT)}
        if 'prefix' in case:
            d['prefix'] = Sym(z3.Const('prefix', SafeStr), ELT)
        if 'suffix' in case:
            d['suffix'] = Sym(z3.Const('suffix', SafeStr), ELT)
        return d

    def spec(self, a, n=None):
        it = a.iterable
        xs = it.e if isinstance(it, (PList, Sym)) else None
        if xs is None:
            from pyvc.interp import InlineInstead
            raise InlineInstead()        # a concrete iterable: the caller interprets the generator itself
        n = z3.Length(xs) if n is None else n
        D = as_fragment(a.delim)
        P, S = as_fragment(a._d.get('prefix')), as_fragment(a._d.get('suffix'))
        parts = []
        if P is not None:
            parts.append(z3.If(n > 0, z3.Unit(P), z3.Empty(Bits)))
        parts.append(TW(xs, D, n))
        return xs, parts, S

    def ensures(self, a, r):
        xs, parts, S = self.spec(a)
        if S is not None:
            parts = parts + [z3.If(z3.Length(xs) > 0, z3.Unit(S), z3.Empty(Bits))]
        re_ = r.e if isinstance(r, (PList, Sym)) else M.list_to_seq(None, r, ELT)
        return {'interleaved_with_the_delimiter': re_ == (z3.Concat(*parts) if len(parts) > 1 else parts[0])}

    def result_value(self, I, a):
        return Sym(T.fresh('tween', Bits), ('seq', ELT))

    def loops(self):
        def inv(I, loc, i, seq):
            a = self.cur
            xs, parts, S = self.spec(a, i)
            y = loc['__yield']
            ye = M.list_to_seq(I, y, ELT)
            first = FR.the_flag(loc, ('iterable', 'delim', 'prefix', 'suffix'))
            return {'yielded_so_far': ye == (z3.Concat(*parts) if len(parts) > 1 else parts[0]),
                    'first_flag': T.zbool(M.lift(first)) == (i == 0)}
        return {('tween', 1): LoopInv(inv, var_types={'__yield': ('list', ELT)})}


class WriteEachBase(Contract):
    """write_each: the text written for a list is the concatenation of the texts of the interleaved fragments."""
    BACKEND = None
    properties = ()
    SYNTAXES = ()

    def cases(self):
        return [s for s in self.SYNTAXES] + [s + '/prefix' for s in self.SYNTAXES]

    def params(self, cx, case):
        xs = z3.Const('things', Bits)
        buf0 = z3.Const('buf0', T.Str)
        cx.ghost('buf0', buf0)
        sx = case.split('/')[0]
        d = {'self': self.mk_self(buf0), 'things': PList(None, xs, ELT), 'syntax': self.SYNTAX[sx]}
        if case.endswith('/prefix'):
            d['prefix'] = Sym(z3.Const('prefix', SafeStr), ELT)
        return d

    def tw_term(self, a):
        xs = a.things.e if isinstance(a.things, (PList, Sym)) else None
        if xs is None:
            from pyvc.interp import InlineInstead
            raise InlineInstead()
        n = z3.Length(xs)
        D = as_fragment(a._d.get('delim', literal(' ')))
        t = TW(xs, D, n)
        P, S = as_fragment(a._d.get('prefix')), as_fragment(a._d.get('suffix'))
        if P is not None:
            t = z3.Concat(z3.If(n > 0, z3.Unit(P), z3.Empty(Bits)), t)
        if S is not None:
            t = z3.Concat(t, z3.If(n > 0, z3.Unit(S), z3.Empty(Bits)))
        return t

    def fns(self, a):
        return FR.frag_fns(self.BACKEND, a.syntax, FR.sq_tag(a._d.get('shell_quote', IU.default_sentinel)))

    def ensures(self, a, r):
        tw = self.tw_term(a)
        buf = M.sym_str(a.self.attrs['stream'].buf)
        return {'text_is_the_interleaved_fragment_texts': buf == z3.Concat(a.buf0, self.fns(a).CW(tw, z3.Length(tw)))}

    def loops(self):
        def inv(I, loc, i, seq):
            a = self.cur
            buf = M.sym_str(loc['self'].attrs['stream'].buf)
            return {'text_so_far': buf == z3.Concat(a.buf0, self.fns(a).CW(seq.e, i))}

        def havoc_obj(I, nm, o):
            if nm == 'self':
                o.attrs['stream'].buf = fresh_sym('h_buf', 'str')
                return
            from pyvc.interp import OutOfSubset
            raise OutOfSubset('loop mutates %s' % nm)
        return {('Writer.write_each', 1): LoopInv(inv, var_types={'i': ELT}, havoc_obj=havoc_obj)}

    def apply_at_call(self, I, bound, site, frame):
        # the caller's stream grows by the text of the interleaved fragments (this contract's postcondition)
        a = Args(bound, {})
        tw = self.tw_term(a)
        st = bound['self'].attrs['stream']
        st.buf = M.mk_str(z3.Concat(M.sym_str(st.buf), self.fns(a).CW(tw, z3.Length(tw))))
        return None


class MakeWriteEach(WriteEachBase):
    target = 'bfg9000/backends/make/syntax.py::Writer.write_each'
    properties = ('C01',)
    BACKEND, SYNTAX = 'make', msyn.Syntax
    SYNTAXES = ('shell', 'target', 'dependency', 'function')

    def mk_self(self, buf0):
        return Obj(msyn.Writer, {'stream': PStream(Sym(buf0, 'str')), 'path_vars': None})


class NinjaWriteEach(WriteEachBase):
    target = 'bfg9000/backends/ninja/syntax.py::Writer.write_each'
    properties = ('C02',)
    BACKEND, SYNTAX = 'ninja', nsyn.Syntax
    SYNTAXES = ('shell', 'output', 'input')

    def mk_self(self, buf0):
        return Obj(nsyn.Writer, {'stream': PStream(Sym(buf0, 'str')), 'path_vars': None, 'shell': bshell})


# ---- the reading of a joined list: as many separate words as there are arguments ------------------------------------

DEN = z3.Function('fragment_content', SafeStr, T.Str)          # the argument string a fragment stands for
SPACE = literal_fragment(literal(' '))

L_tween_len = Lemma('tween_length', [('xs', Bits), ('d', SafeStr), ('n', T.Int)],
                    lambda xs, d, n: z3.Length(TW(xs, d, n)) == z3.If(n >= 1, 2 * n - 1, 0), induct=('nat', 'n'))

_CWP, _WL = {}, {}


def cw_prefix_lemma(fns):
    """CW(b, k) only looks at the first k elements of b."""
    if fns not in _CWP:
        _CWP[fns] = Lemma('%s_depends_on_the_prefix_only' % fns.CW.name, [('b', Bits), ('c', Bits), ('k', T.Int)],
                          lambda b, c, k: z3.Implies(k <= z3.Length(b), fns.CW(z3.Concat(b, c), k) == fns.CW(b, k)),
                          induct=('nat', 'k'))
    return _CWP[fns]


class ListSpec:
    def __init__(self, backend, syntax, reader):
        self.backend, self.syntax, self.reader = backend, syntax, reader
        fns = self.fns = FR.frag_fns(backend, syntax, 'quote')
        tag = '%s_%s' % (backend, syntax.name)

        def frag_ok(x):
            ok, t = PS.reader_out(reader, fns.Wt(x))
            return z3.And(ok, PS.frag(t, DEN(x)))
        self.frag_ok = frag_ok
        self.ALLF = T.RecDef('ALLFRAG_' + tag, [Bits], T.Bool, lambda xs: z3.BoolVal(True),
                             lambda xs, k, prev: z3.And(prev, frag_ok(xs[k])))
        self.WORDS = T.RecDef('WORDS_' + tag, [Bits], T.Str, lambda xs: z3.Empty(T.Str),
                              lambda xs, k, prev: z3.If(k == 0, DEN(xs[0]),
                                                        z3.Concat(prev, z3.Unit(z3.IntVal(BREAK)), DEN(xs[k]))))
        self.JOIN = T.RecDef('JOIN_' + tag, [Bits], T.Str, lambda xs: z3.Empty(T.Str),
                             lambda xs, k, prev: z3.If(k == 0, fns.Wt(xs[0]), z3.Concat(prev, T.lit(' '), fns.Wt(xs[k]))))
        self.space_text = fns.Wt(SPACE) == T.lit(' ')     # instance of Writer.write's literal case (proved there)

        def join_stmt(xs, n):
            tw = TW(xs, SPACE, n)
            return z3.Implies(z3.And(n >= 1, self.space_text), fns.CW(tw, 2 * n - 1) == self.JOIN(xs, n))

        def join_script(p, phase, ih, **kw):
            if phase != 'step':
                return p.qed()
            xs, n0 = kw['xs'], kw['n0']
            p.intro()
            one, more = p.cases('n', [('one', n0 == 0), ('more', n0 >= 1)])
            one.rewrite('tween', TW(xs, SPACE, n0 + 1), z3.Unit(xs[0]))
            one.qed()
            b0 = TW(xs, SPACE, n0)
            tail = z3.Concat(z3.Unit(SPACE), z3.Unit(xs[n0]))
            b1 = z3.Concat(b0, tail)
            more.use(L_tween_len.inst(xs=xs, d=SPACE, n=n0))
            ln = more.let('len', value=z3.Length(b0))
            more.have('last_two', z3.And(b1[ln] == SPACE, b1[ln + 1] == xs[n0], ln == 2 * n0 - 1))
            more.use(cw_prefix_lemma(fns).inst(b=b0, c=tail, k=2 * n0 - 1))
            more.rewrite('tween', TW(xs, SPACE, n0 + 1), b1)
            more.rewrite('text', fns.CW(b1, 2 * (n0 + 1) - 1),
                         z3.Concat(fns.CW(b1, 2 * n0 - 1), fns.Wt(b1[2 * n0 - 1]), fns.Wt(b1[2 * n0])))
            more.qed()
        self.L_join = Lemma('text_of_tween_is_the_blank_joined_texts_' + tag, [('xs', Bits), ('n', T.Int)],
                            join_stmt, induct=('nat', 'n'), script=join_script)

        def words_stmt(xs, n):
            ok, t = PS.reader_out(reader, self.JOIN(xs, n))
            st, out = sh.run((START, 1), t)
            return z3.Implies(z3.And(n >= 1, self.ALLF(xs, n)),
                              z3.And(ok, st[0] == WORD, st[1] == 1, out == self.WORDS(xs, n)))

        def words_script(p, phase, ih, **kw):
            if phase != 'step':
                return p.qed()
            xs, n0 = kw['xs'], kw['n0']
            p.intro()
            one, more = p.cases('n', [('one', n0 == 0), ('more', n0 >= 1)])
            one.rewrite('join', self.JOIN(xs, n0 + 1), fns.Wt(xs[0]))
            one.rewrite('words', self.WORDS(xs, n0 + 1), DEN(xs[0]))
            one.qed()
            more.rewrite('join', self.JOIN(xs, n0 + 1), z3.Concat(self.JOIN(xs, n0), T.lit(' '), fns.Wt(xs[n0])))
            more.rewrite('words', self.WORDS(xs, n0 + 1),
                         z3.Concat(self.WORDS(xs, n0), z3.Unit(z3.IntVal(BREAK)), DEN(xs[n0])))
            more.qed()
        self.L_words = Lemma('blank_joined_fragments_are_read_as_separate_words_' + tag,
                             [('xs', Bits), ('n', T.Int)], words_stmt, induct=('nat', 'n'), script=words_script)


def list_spec(backend, syntax, reader):
    key = (backend, syntax.name, reader)
    if key not in _WL:
        _WL[key] = ListSpec(*key[:0] or (backend, syntax, reader))
    return _WL[key]


class WriteShellBase(Contract):
    """write_shell on a list of n fragments: if every fragment's own text is read back (build tool, then sh) as one
    closed word fragment standing for its argument, the whole command text is read as exactly those n words, in
    order -- no argument is split, merged, dropped or reinterpreted.  The per-fragment hypothesis is what the
    Writer.write contracts establish for each kind of fragment."""
    properties = ()
    BACKEND = READER = None

    def spec(self):
        return list_spec(self.BACKEND, self.SYNTAX.shell, self.READER)

    def xs_of(self, a):
        t = a.thing
        t = t.attrs['data'] if isinstance(t, Obj) and 'data' in t.attrs else t
        if not isinstance(t, (PList, Sym)) or getattr(t, 'concrete', False) or not hasattr(t, 'e'):
            from pyvc.interp import InlineInstead
            raise InlineInstead()        # not a symbolic list of fragments: the caller interprets the body
        return t.e

    def text_term(self, a):
        xs = self.xs_of(a)
        syntax = a._d.get('syntax', self.SYNTAX.shell)
        fns = FR.frag_fns(self.BACKEND, syntax, 'quote')
        tw = TW(xs, SPACE, z3.Length(xs))
        t = fns.CW(tw, z3.Length(tw))
        if isinstance(a.thing, Obj):
            t = z3.Concat(T.lit('@'), t)
        return t

    def ensures(self, a, r):
        from contracts.ninja import written
        sp = self.spec()
        xs = self.xs_of(a)
        n = z3.Length(xs)
        w = written(a.self, a.buf0)
        out = {'text_is_the_blank_joined_fragment_texts': w == self.text_term(a)}
        if a._d.get('syntax', self.SYNTAX.shell) is not self.SYNTAX.shell:
            return out          # other syntaxes: only the structure of the text (their reading is per fragment)
        if isinstance(a.thing, Obj):
            out['silent_marker_first'] = z3.And(z3.Length(w) >= 1, w[0] == ord('@'))
            w = z3.Extract(w, z3.IntVal(1), z3.Length(w) - 1)
        ok, t = PS.reader_out(self.READER, w)
        st, o = sh.run((START, 1), t)
        hyp = z3.And(sp.ALLF(xs, n), sp.space_text)
        out['empty_list_writes_nothing'] = z3.Implies(n == 0, w == T.empty())
        out['read_back_as_exactly_the_arguments'] = z3.Implies(
            z3.And(hyp, n >= 1), z3.And(ok, st[0] == WORD, st[1] == 1, o == sp.WORDS(xs, n)))
        return out

    def apply_at_call(self, I, bound, site, frame):
        # call-site use: the text written (first postcondition); the reading clause is a fact about that text
        a = Args(bound, {})
        st = bound['self'].attrs['stream']
        st.buf = M.mk_str(z3.Concat(M.sym_str(st.buf), self.text_term(a)))
        return None

    def proof(self, p, a, r, name, case):
        sp = self.spec()
        xs = self.xs_of(a)
        n = z3.Length(xs)
        p.use(L_tween_len.inst(xs=xs, d=SPACE, n=n))
        p.use(sp.L_join.inst(xs=xs, n=n))
        p.use(sp.L_words.inst(xs=xs, n=n))
        p.qed()


class MakeWriteShell(WriteShellBase):
    target = 'bfg9000/backends/make/syntax.py::Writer.write_shell'
    properties = ('C01',)
    BACKEND, READER, SYNTAX = 'make', 'make', msyn.Syntax

    def cases(self):
        return ['list', 'silent', 'list/clean']

    def params(self, cx, case):
        xs = z3.Const('args', Bits)
        buf0 = z3.Const('buf0', T.Str)
        cx.ghost('buf0', buf0)
        lst = PList(None, xs, ELT)
        thing = lst if case != 'silent' else Obj(msyn.Silent, {'data': lst})
        d = {'self': Obj(msyn.Writer, {'stream': PStream(Sym(buf0, 'str')), 'path_vars': None}), 'thing': thing}
        if case.endswith('/clean'):
            d['syntax'] = msyn.Syntax.clean
        return d


class NinjaWriteShell(WriteShellBase):
    target = 'bfg9000/backends/ninja/syntax.py::Writer.write_shell'
    properties = ('C02',)
    BACKEND, READER, SYNTAX = 'ninja', 'ninja', nsyn.Syntax

    def cases(self):
        return ['list', 'list/clean', 'list/can_wrap']

    def params(self, cx, case):
        xs = z3.Const('args', Bits)
        buf0 = z3.Const('buf0', T.Str)
        cx.ghost('buf0', buf0)
        d = {'self': Obj(nsyn.Writer, {'stream': PStream(Sym(buf0, 'str')), 'path_vars': None, 'shell': bshell}),
             'thing': PList(None, xs, ELT)}
        if case.endswith('/clean'):
            d['syntax'] = nsyn.Syntax.clean
        if case.endswith('/can_wrap'):
            d['can_wrap'] = True         # a plain list is never wrapped in `cmd /s /c` (only shell_list on Windows)
        return d


def registry():
    return [Tween(), MakeWriteEach(), NinjaWriteEach()]


def _lemmas():
    out = [L_tween_len]
    for sp in (list_spec('ninja', nsyn.Syntax.shell, 'ninja'), list_spec('make', msyn.Syntax.shell, 'make')):
        out += [cw_prefix_lemma(sp.fns), sp.L_join, sp.L_words]
    return out


LEMMAS = _lemmas()
