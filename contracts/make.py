"""Contracts for bfg9000/backends/make/syntax.py (C01, C04)."""
import z3
from pyvc import terms as T
from pyvc.contract import Contract, Lemma, Args
from pyvc.values import Sym, Obj, PList, PStream, fresh_sym
from pyvc import models as M
from pyvc.interp import OutOfSubset
from specs import make as MK
from specs.make import mk_recipe, mk_assign, mk_target, mk_dep, mk_call_arg, N
from contracts.posix_shell import frag, has_crlf, has_char, real_sh

import bfg9000.backends.make.syntax as msyn
from bfg9000.safe_str import shell_literal, literal, jbos
from contracts import fragments as FR
from contracts import posix_shell as PS
from bfg9000.backends.make.syntax import Syntax

BS = ord('\\')

# characters a file name must not contain to be representable in a Makefile rule at all (the property's own
# exclusions: backslash is bfg9000's separator; `;` `=` tab and wildcard characters have no escaping that GNU
# make accepts; line breaks never)
UNREPRESENTABLE = '\\*?[];=\t\n\r'


NONPRINTABLE = T.CharClass([(0x20, 0x7e)], 'printable-ascii').complement()
NONPRINTABLE.name = 'not-printable-ascii'


def printable(u):
    return z3.Not(M.any_fold(NONPRINTABLE).state((0,), u)[0] == 1)


def representable_hereditary(u):
    """The part of `representable` that is inherited by prefixes (usable as induction hypothesis)."""
    cs = [printable(u)] + [z3.Not(has_char(ch, u)) for ch in UNREPRESENTABLE]
    cs.append(z3.Or(z3.Length(u) == 0, u[0] != ord('~')))
    return T.AND(*cs)


def representable(u):
    n = z3.Length(u)
    return T.AND(representable_hereditary(u),
                 z3.Or(n == 0, z3.And(u[n - 1] != ord(' '), u[n - 1] != ord('&'))))


def balanced_hereditary(u):
    return T.AND(z3.Not(has_char('(', u)), z3.Not(has_char(')', u)))


def enc_of(result_term, string_const):
    """The code's encoder as a function of its argument: the path's result term with the parameter replaced."""
    def enc(u):
        return z3.substitute(result_term, (string_const, u))
    return enc


def f2_state_facts(term, u):
    """Invariant part about every F2 transducer occurring in `term`: no pending run (the input has no
    backslash), and its at-start flag is 1 exactly for the empty input."""
    facts = []
    seen = set()

    def walk(t):
        if t.get_id() in seen:
            return
        seen.add(t.get_id())
        if z3.is_app(t):
            nm = t.decl().name()
            if nm in T.FOLDS:
                f, comp = T.FOLDS[nm]
                if getattr(f, 'fam', None) is not None:
                    args = t.children()
                    st, _ = f.raw(args[:-1], args[-1])
                    facts.append(st[0] == 0)
                    facts.append(st[1] == z3.If(z3.Length(u) == 0, z3.IntVal(1), z3.IntVal(0)))
            for k in t.children():
                walk(k)
    walk(term)
    return facts


def split_on_chars(chars):
    """Proof script for a snoc-induction step: case split on the appended character."""
    def script(p, phase=None, ih=None, c=None, **kw):
        if phase != 'step':
            return p.qed()
        conds = [(repr(ch), c == ord(ch)) for ch in chars]
        conds.append(('other', z3.And(*[c != ord(ch) for ch in chars])))
        for q in p.cases('c', conds):
            q.qed()
    return script


_GEN = {}


def roundtrip_lemma(kind, result_term, string_const, tag):
    """Generated lemma about the code's current encoder `enc` (whatever folds it is made of):

        for all u:  hereditary-precondition(u)  ==>  decoder state after enc(u) is neutral and its output is u
    """
    key = (kind, result_term.get_id())
    if key in _GEN:
        return _GEN[key]
    enc = enc_of(result_term, string_const)

    def stmt(u):
        e = enc(u)
        n = z3.Length(u)
        if kind in ('target', 'dependency'):
            fold = mk_target if kind == 'target' else mk_dep
            st, out = fold.run((N, 0, 1, 1, 0), e)
            last_bad = z3.And(n > 0, z3.Or(u[n - 1] == ord(' '), u[n - 1] == ord('&')))
            concl = T.AND(st[0] == N, st[1] == 0, st[2] == 1, st[3] == z3.If(n == 0, z3.IntVal(1), z3.IntVal(0)),
                          st[4] == z3.If(last_bad, z3.IntVal(1), z3.IntVal(0)), out == u,
                          *f2_state_facts(e, u))
            return z3.Implies(representable_hereditary(u), concl)
        if kind == 'function':
            st, out = mk_call_arg.run((N, 1, 0), e)
            return z3.Implies(T.AND(z3.Not(has_crlf(u)), balanced_hereditary(u)),
                              T.AND(st[0] == N, st[1] == 1, st[2] == 0, out == u))
        if kind == 'recipe':
            st, out = mk_recipe.run((N, 1, 0), e)
            return z3.Implies(z3.Not(has_crlf(u)), T.AND(st[0] == N, st[1] == 1, st[2] == 0, out == u))
        if kind == 'assign':
            st, out = mk_assign.run((N, 0, 1), e)
            return z3.Implies(T.AND(z3.Not(has_crlf(u)), z3.Not(has_char('#', u))),
                              T.AND(st[0] == N, st[1] >= 0, st[2] == 1, T.cat(out, T.rep(BS, st[1])) == u))
        if kind == 'first':
            return z3.Implies(n > 0, T.AND(z3.Length(e) > 0, e[0] == u[0]))
        raise ValueError(kind)
    lem = Lemma('make_%s_roundtrip_%s' % (kind, tag), [('u', T.Str)], stmt, induct=('snoc', 'u'),
                script=split_on_chars('$\\#,()') if kind in ('assign',) else None)
    _GEN[key] = lem
    return lem


class EscapeStr(Contract):
    target = 'bfg9000/backends/make/syntax.py::Writer.escape_str'
    properties = ('C01', 'C04')

    def cases(self):
        return ['target', 'dependency', 'function', 'shell', 'clean']

    def case_in_property(self, case, pid):
        return case in {'C01': ('shell', 'clean', 'function'), 'C04': ('target', 'dependency', 'function')}.get(pid, (case,))

    def params(self, cx, case):
        return {'cls': msyn.Writer, 'string': cx.str('string'), 'syntax': Syntax[case]}

    def requires(self, a):
        s = M.sym_str(a.string)
        if a.syntax in (Syntax.target, Syntax.dependency):
            return representable(s)
        if a.syntax == Syntax.function:
            return T.AND(z3.Not(has_char('\r', s)), balanced_hereditary(s))
        return z3.Not(has_char('\r', s))

    def raises(self, a):
        return [(ValueError, has_char('\n', M.sym_str(a.string)))]

    def ensures(self, a, r):
        s, rt = M.sym_str(a.string), M.sym_str(r)
        if a.syntax == Syntax.target:
            return {'make_reads_target_back': MK.word_reads(mk_target, rt, s)}
        if a.syntax == Syntax.dependency:
            return {'make_reads_dependency_back': MK.word_reads(mk_dep, rt, s)}
        if a.syntax == Syntax.function:
            return {'make_reads_call_argument_back': MK.call_arg_reads(rt, s)}
        st, out = mk_recipe.run((N, 1, 0), rt)
        st2, out2 = mk_assign.run((N, 0, 1), rt)
        return {'make_recipe_text_reads_back': T.AND(st[0] == N, st[1] == 1, out == s),
                'make_assignment_value_reads_back': z3.Implies(
                    z3.Not(has_char('#', s)),
                    T.AND(st2[0] == N, st2[2] == 1, T.cat(out2, T.rep(BS, st2[1])) == s)),
                'first_char_kept': z3.Implies(z3.Length(s) > 0, T.AND(z3.Length(rt) > 0, rt[0] == s[0])),
                'text_is_dollar_doubling': rt == FR.dol(s)}

    def apply_at_call(self, I, bound, site, frame):
        if isinstance(bound.get('string'), str):
            # a concrete string: the caller interprets the body (the result is then the concrete text)
            from pyvc.interp import InlineInstead
            raise InlineInstead()
        return Contract.apply_at_call(self, I, bound, site, frame)

    def result_value(self, I, a):
        return fresh_sym('mesc', 'str')

    def proof(self, p, a, r, name, case):
        rt = M.sym_str(r)
        sc = M.sym_str(a.string)
        if name == 'text_is_dollar_doubling':
            from contracts.ninja import fold_of
            fo = fold_of(rt)
            if fo is not None:
                p.use(FR.same_cmap_lemma(fo[0], FR.dollar2, 'make').inst(u=fo[1]))
            return p.qed()
        kind = {'make_reads_target_back': 'target', 'make_reads_dependency_back': 'dependency',
                'make_reads_call_argument_back': 'function', 'make_recipe_text_reads_back': 'recipe',
                'make_assignment_value_reads_back': 'assign', 'first_char_kept': 'first'}[name]
        lem = roundtrip_lemma(kind, rt, sc, case)
        p.need(lem)
        p.use(lem.inst(u=sc))
        p.qed()

    def native_params(self, case):
        return ['string']

    def native_build(self, case, raw):
        return ({'string': raw['string'], 'syntax': Syntax[case]},
                Args({'cls': msyn.Writer, 'string': raw['string'], 'syntax': Syntax[case]}))

    def native_call(self, case, call_args):
        return msyn.Writer.escape_str(**call_args)

    def native_alphabet(self):
        return "a$ :%#,|~'()"

    def native_explain(self, case, raw, res):
        return {'escaped': res}


def written(self_obj, buf0):
    from contracts.ninja import written as w
    return w(self_obj, buf0)


def registry():
    from contracts import posix_shell
    return posix_shell.registry() + [EscapeStr()]


LEMMAS = []


def make_write_kinds():
    return ['str', 'shell_literal', 'literal']


class Write(Contract):
    """make Writer.write for one fragment: the C01 obligation for one argument string, in the two places a
    shell word can stand (a recipe line; the value of a `:=` assignment that a recipe later references)."""
    target = 'bfg9000/backends/make/syntax.py::Writer.write'
    properties = ('C01', 'C04')

    SYNTAXES = ('shell', 'clean', 'function', 'target', 'dependency')

    def cases(self):
        cs = ['%s/%s' % (k, sx) for k in make_write_kinds() for sx in self.SYNTAXES]
        cs += ['jbos/%s/%s' % (sx, sq) for sx in self.SYNTAXES for sq in ('quote', 'inner', 'none')]
        cs += ['str/shell/inner', 'path/shell/str', 'path/shell/var+str', 'path/shell/var']
        cs += ['synstr/shell/function', 'synstr/shell/inherit', 'synstr/target/inherit']
        return cs

    def loops(self):
        return {('Writer.write', 1): FR.jbos_loop_invariant('make', self)}

    def is_jbos(self, a):
        return isinstance(a.thing, Obj) and a.thing.cls is jbos

    def apply_at_call(self, I, bound, site, frame):
        thing = bound['thing']
        if isinstance(thing, Obj) and thing.cls is jbos and isinstance(thing.attrs.get('_jbos__bits'), tuple):
            esc = False
            for k, bit in enumerate(thing.attrs['_jbos__bits']):
                b2 = dict(bound)
                b2['thing'] = bit
                e = self.apply_at_call(I, b2, '%s.bit%d' % (site, k), frame)
                esc = M.mk_bool(T.OR(T.zbool(M.lift(esc)), T.zbool(M.lift(e))))
            return esc
        if isinstance(thing, Sym) and isinstance(thing.ty, tuple) and thing.ty[0] == 'opaque':
            fns = FR.frag_fns('make', bound['syntax'], FR.sq_tag(bound.get('shell_quote')))
            st = bound['self'].attrs['stream']
            st.buf = M.mk_str(z3.Concat(M.sym_str(st.buf), fns.Wt(thing.e)))
            return M.mk_bool(fns.We(thing.e))
        if not isinstance(I.active, type(self)):
            # a concrete fragment written from another function: that caller interprets Writer.write itself
            from pyvc.interp import InlineInstead
            raise InlineInstead()
        return Contract.apply_at_call(self, I, bound, site, frame)

    def case_in_property(self, case, pid):
        sx = case.split('/')[1]
        if case.startswith('path/') or case == 'str/shell/inner':
            return pid in ('C01', 'C04')
        return sx in {'C01': ('shell', 'clean', 'function'), 'C04': ('target', 'dependency', 'function')}.get(pid, (sx,))

    READER = 'make'

    def is_path(self, a):
        return isinstance(a.thing, Obj) and a.thing.attrs.get('is_path_param')

    def opaque_calls(self):
        from bfg9000.platforms.basepath import BasePath

        def realize(I, args, kwargs, node):
            a = self.cur
            if not self.is_path(a):
                raise OutOfSubset('realize() outside the path cases')
            I.events.append(('realize', args, dict(kwargs)))
            rz, V = Sym(a.rz, 'str'), Obj(literal, {'string': Sym(a.V, 'str')})
            if a.shape == 'str':
                return rz
            if a.shape == 'var':
                return V
            return Obj(jbos, {'_jbos__bits': (V, rz)})
        return {BasePath.__dict__['realize']: realize}

    def var_ok(self, a):
        V, pm = a.V, a.pm
        n = z3.Length(V)
        return z3.And(n >= 3, V[0] == ord('$'), V[n - 1] != ord("'"), PS.reads(self.READER, V, pm), FR.all_markers(pm))

    def ghosts_for(self, callee, a, frame, site):
        if isinstance(callee, PS.WrapQuotes):
            me = self.cur
            pre, pm = (T.empty(), T.empty()) if me.shape == 'str' else (me.V, me.pm)
            m = T.empty() if me.shape == 'var' else me.rz
            return {'m': m, 'pre': pre, 'pm': pm, 'reader': self.READER}
        return None

    def side_proof(self, p, a, kind, name, case):
        if case.startswith('path/') and 'wrap_quotes' in name:
            p.use(PS.L_sq_identity.inst(u=a.rz))
            p.use(PS.L_inert_no_quote.inst(u=a.rz))
        p.qed()

    def proof(self, p, a, r, name, case):
        if case.startswith('path/'):
            p.use(PS.L_inert.inst(u=a.rz))
            p.use(PS.L_reader_dollar[self.READER].inst(u=a.rz))
            p.use(PS.L_markers_sq.inst(u=a.pm))
        p.qed()

    def params(self, cx, case):
        kind, sx = case.split('/')[:2]
        buf0 = z3.Const('buf0', T.Str)
        cx.ghost('buf0', buf0)
        selfv = Obj(msyn.Writer, {'stream': PStream(Sym(buf0, 'str')), 'path_vars': None})
        self.cur_sq = 'quote'
        if case == 'str/shell/inner':
            self.cur_sq = 'inner'
            return {'self': selfv, 'thing': cx.str('thing'), 'syntax': Syntax.shell, 'shell_quote': FR.sq_fn('inner')}
        if kind == 'path':
            from bfg9000.platforms.posix import PosixPath
            cx.ghost('shape', case.split('/')[2])
            cx.ghost('rz', cx.str('realized_suffix').e)
            cx.ghost('V', z3.Const('var_ref', T.Str))
            cx.ghost('pm', z3.Const('var_markers', T.Str))
            return {'self': selfv, 'thing': Obj(PosixPath, {'is_path_param': True}), 'syntax': Syntax[sx]}
        if kind == 'synstr':
            # an unquoted syntax_string (the shape of Function.use / Call): its data is written by a nested writer in
            # the string's own syntax if it has one, else in the caller's, with the caller's shell_quote
            own = Syntax.function if case.split('/')[2] == 'function' else None
            data = Sym(z3.Const('data', FR.SafeStr), ('opaque', 'SafeStr'))
            return {'self': selfv, 'thing': Obj(msyn.syntax_string, {'data': data, 'syntax': own, 'quoted': False}),
                    'syntax': Syntax[sx]}
        if kind == 'jbos':
            self.cur_sq = case.split('/')[2]
            bits = z3.Const('bits', FR.Bits)
            thing = Obj(jbos, {'_jbos__bits': Sym(bits, FR.BITS_TY)})
            return {'self': selfv, 'thing': thing, 'syntax': Syntax[sx], 'shell_quote': FR.sq_fn(self.cur_sq)}
        if kind == 'str':
            thing = cx.str('thing')
        elif kind == 'shell_literal':
            thing = Obj(shell_literal, {'string': cx.str('thing_string')})
        else:
            thing = Obj(literal, {'string': cx.str('thing_string')})
        return {'self': selfv, 'thing': thing, 'syntax': Syntax[sx]}

    def content(self, a):
        t = a.thing
        return M.sym_str(t.attrs['string']) if isinstance(t, Obj) else M.sym_str(t)

    def is_synstr(self, a):
        return isinstance(a.thing, Obj) and a.thing.cls is msyn.syntax_string

    def requires(self, a):
        if self.is_jbos(a) or self.is_synstr(a):
            return z3.BoolVal(True)
        if self.is_path(a):
            return T.AND(z3.Not(has_crlf(a.rz)), self.var_ok(a),
                         z3.BoolVal(True) if a.shape == 'var' else z3.Length(a.rz) > 0)
        s = self.content(a)
        if isinstance(a.thing, Obj) and a.thing.cls is literal:
            return z3.BoolVal(True)
        if a.syntax in (Syntax.target, Syntax.dependency):
            return representable(s)
        if a.syntax == Syntax.function:
            return T.AND(z3.Not(has_crlf(s)), balanced_hereditary(s))
        return z3.Not(has_crlf(s))

    def ensures(self, a, r):
        if self.is_jbos(a):
            fns = FR.frag_fns('make', a.syntax, FR.sq_tag(a._d.get('shell_quote')))
            bits = a.thing.attrs['_jbos__bits'].e
            n = z3.Length(bits)
            buf = M.sym_str(a.self.attrs['stream'].buf)
            return {'text_is_concatenation_of_fragment_texts': buf == z3.Concat(a.buf0, fns.CW(bits, n)),
                    'flag_is_disjunction_of_fragment_flags': T.zbool(M.lift(r)) == fns.OE(bits, n)}
        w = written(a.self, a.buf0)
        if self.is_synstr(a):
            sx = a.thing.attrs['syntax'] or a.syntax
            fns = FR.frag_fns('make', sx, 'quote')
            d = a.thing.attrs['data'].e
            return {'text_is_the_data_written_in_the_strings_own_syntax': w == fns.Wt(d),
                    'flag_is_the_flag_of_the_data': T.zbool(M.lift(r)) == fns.We(d)}
        if self.is_path(a):
            ok, tt = PS.reader_out(self.READER, w)
            content = {'str': a.rz, 'var': a.pm, 'var+str': T.cat(a.pm, a.rz)}[a.shape]
            ev = [e for e in a.events if e[0] == 'realize']
            return {'path_realized_once_with_the_writers_variables': z3.BoolVal(
                        len(ev) == 1 and ev[0][1][0] is a.thing and ev[0][1][1] is a.self.attrs['path_vars']),
                    'build_tool_reads_literal_text': ok,
                    'sh_reads_exactly_the_realized_path_as_one_fragment': frag(tt, content)}
        s = self.content(a)
        t = a.thing
        if FR.sq_tag(a._d.get('shell_quote')) == 'inner' and not isinstance(t, Obj):
            q = T.zbool(M.lift(r))
            return {'text_is_dollar_doubled_inner_quoting': w == FR.dol(z3.If(q, PS.sq(s), s)),
                    'unquoted_only_if_inert': z3.Implies(z3.Not(q), T.AND(z3.Length(s) > 0, z3.Not(PS.not_inert(s))))}
        if isinstance(t, Obj) and t.cls is literal:
            return {'literal_verbatim': w == s, 'literal_counts_as_escaped': T.zbool(M.lift(r))}
        if a.syntax == Syntax.target:
            return {'make_reads_target_back': MK.word_reads(mk_target, w, s)}
        if a.syntax == Syntax.dependency:
            return {'make_reads_dependency_back': MK.word_reads(mk_dep, w, s)}
        plain = isinstance(t, Obj) or a.syntax == Syntax.clean      # no sh quoting layer
        if a.syntax == Syntax.function:
            st, out = mk_call_arg.run((N, 1, 0), w)
            okc = T.AND(st[0] == N, st[1] == 1, st[2] == 0)
            if plain:
                return {'make_reads_call_argument_back': T.AND(okc, out == s)}
            return {'make_call_argument_is_literal': okc, 'sh_reads_back_exactly_thing': frag(out, s)}
        # shell / clean: a recipe line, or the value of an assignment
        st, out = mk_recipe.run((N, 1, 0), w)
        okr = T.AND(st[0] == N, st[1] == 1)
        st1, out1 = mk_recipe.run((N, 1, 1), w)
        st2, out2 = mk_assign.run((N, 0, 1), w)
        oka = T.AND(st2[0] == N, st2[2] == 1)
        val2 = T.cat(out2, T.rep(BS, st2[1]))
        if plain:
            return {'recipe_text_reads_back': T.AND(okr, out == s),
                    'assignment_value_reads_back': T.AND(oka, val2 == s)}
        return {'recipe_text_is_literal': okr, 'recipe_sh_reads_back_exactly_thing': frag(out, s),
                'recipe_command_word_not_eaten_by_make': z3.Not(MK.PREFIX.contains(w[0])),
                'assignment_value_is_literal': oka, 'assignment_sh_reads_back_exactly_thing': frag(val2, s)}

    def result_value(self, I, a):
        return fresh_sym('mw_escaped', 'bool')

    def effects(self, I, a):
        st = a.self.attrs['stream']
        a.buf0 = M.sym_str(st.buf)
        st.buf = M.mk_str(z3.Concat(M.sym_str(st.buf), T.fresh('mw_text', T.Str)))

    def native_params(self, case):
        return ['thing'] if case.startswith('str/') else None

    def native_alphabet(self):
        return "a$ #-'@+,\\%:"

    def native_build(self, case, raw):
        import io
        parts = case.split('/')
        kind, sx = parts[0], parts[1]
        buf0 = 'PRE'
        stream = io.StringIO()
        stream.write(buf0)
        wr = msyn.Writer(stream, {})
        selfv = Obj(msyn.Writer, {'stream': PStream(buf0), 'path_vars': None})
        d = {'self': selfv, 'thing': raw['thing'], 'syntax': Syntax[sx]}
        extra = {}
        if len(parts) == 3:
            d['shell_quote'] = FR.sq_fn(parts[2])
            extra['shell_quote'] = d['shell_quote']
        a = Args(d, {'buf0': T.lit(buf0)})
        return dict({'writer': wr, 'thing': raw['thing'], 'syntax': Syntax[sx], '_self': selfv}, **extra), a

    def native_call(self, case, call_args):
        wr = call_args['writer']
        if 'shell_quote' in call_args:
            r = wr.write(call_args['thing'], call_args['syntax'], call_args['shell_quote'])
        else:
            r = wr.write(call_args['thing'], call_args['syntax'])
        call_args['_self'].attrs['stream'].buf = wr.stream.getvalue()
        return r

    def native_explain(self, case, raw, res):
        return None


def registry():
    from contracts import posix_shell
    return posix_shell.registry() + [EscapeStr(), Write()]


# ---- directory sentinels: the mkdir recipe quotes the directory it derives from the target -------------------

import bfg9000.backends.make.writer as mwriter


class DirectoryRule(Contract):
    """make writer directory_rule: the pattern rule `%/.dir` creates the directory with
    `mkdir -p '$(patsubst %/.dir,%,$@)'` -- the derived directory name is passed *quoted* (it is the expansion of a
    target name and may contain blanks or shell characters), and the sentinel is touched as '$@' (quoted)."""
    target = 'bfg9000/backends/make/writer.py::directory_rule'
    properties = ('C04',)

    def params(self, cx, case):
        from specs.stubs import EnvStub
        from pyvc.values import OpaqueFn, PDict

        def mkdir_p(I2, a2, k2):
            I2.events.append(('mkdir_p', a2, dict(k2)))
            return PList(['mkdir', '-p', a2[0]])
        env = Obj(EnvStub, {'_tools': PDict({'mkdir_p': OpaqueFn('mkdir_p', mkdir_p)})})
        return {'build_inputs': Obj(object, {}), 'buildfile': Obj(msyn.Makefile, {}), 'env': env}

    def opaque_calls(self):

        def rule(I, args, kwargs, node):
            I.events.append(('rule', args[1:], dict(kwargs)))
            return None
        return {msyn.Makefile.__dict__['rule']: rule}

    def ensures(self, a, r):
        mk = [e for e in a.events if e[0] == 'mkdir_p']
        rl = [e for e in a.events if e[0] == 'rule']
        out = {'one_pattern_rule_with_one_mkdir': z3.BoolVal(len(mk) == 1 and len(rl) == 1)}
        if len(mk) == 1 and len(rl) == 1:
            arg = mk[0][1][0]
            isfn = isinstance(arg, Obj) and arg.cls is msyn.Function
            out['derived_directory_is_passed_quoted'] = z3.BoolVal(isfn and arg.attrs.get('quoted') is True and
                                                                   arg.attrs.get('name') == 'patsubst')
            tgt = rl[0][2].get('target')
            out['rule_is_for_the_sentinel_pattern'] = z3.BoolVal(isinstance(tgt, Obj) and tgt.cls is msyn.Pattern and
                                                                 tgt.attrs.get('path') == '%/.dir')
        return out


def registry():
    from contracts import posix_shell
    from contracts import lists, buildfile
    return posix_shell.registry() + [EscapeStr(), Write(), DirectoryRule(), lists.Tween(), lists.MakeWriteEach(), lists.MakeWriteShell()] + buildfile.make_registry()
