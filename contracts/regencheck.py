"""find_check_cache (C08, C10): when is a lazy regeneration skipped?

The skip decision is the kernel of two repaired defects (1776f7c, 0f8b1bd).  Contract, for any number of regeneration
inputs and outputs and two cached find_files() calls with arbitrary cached results:
  the function raises AbortConfigure (= skips)  only if   the find cache is not newer than the build file,
      no input is newer than any output, and every cached result (found and extra) equals the fresh search;
  before skipping it refreshes the depfile with the directories of the fresh searches and touches the outputs;
  whenever the searches were run, their results are put into the find cache and their directories recorded.
The file system is abstract: modification times are an uninterpreted function of the path, the searches return
fresh abstract paths."""
import z3
from pyvc import terms as T
from pyvc.contract import Contract, Args
from pyvc.values import Sym, Obj, PList, PDict, OpaqueFn, ExcVal, opaque_sort, fresh_sym
from pyvc.interp import RaiseSig
from pyvc import models as M

import bfg9000.builtins.find as F
import bfg9000.path as BP
from bfg9000.build_inputs import Regenerating
from bfg9000.exceptions import AbortConfigure
from specs.stubs import Recorder, ItemsStub, StringStub, ContextStub, CacheMapStub

PathT = opaque_sort('FsPath')
PT = ('opaque', 'FsPath')
_MT_RAW = z3.Function('mtime_ns', PathT, T.Int)


def MT(p):
    """modification time of an abstract path in ns: never negative; 0 is what the lenient lookup
    (getmtime_ns(strict=False)) reports for a file that does not exist"""
    r = _MT_RAW(p)
    return z3.If(r >= 0, r, -r)
CACHE_FILE = z3.Const('the_find_cache_file', PathT)
K_IN, K_OUT = z3.Const('k_input', T.Int), z3.Const('k_output', T.Int)
NFILTERS = 2


class FindCheckCache(Contract):
    target = 'bfg9000/builtins/find.py::find_check_cache'
    properties = ('C08', 'C10', 'C11', 'C18')
    ghost_indices = [K_IN, K_OUT]
    raises_exact = False

    def cases(self):
        return ['lazy', 'not-lazy']

    def params(self, cx, case):
        build = PDict({'find_cache': Obj(Recorder, {'calls': PList([])}), 'find_dirs': Obj(Recorder, {'calls': PList([])})})
        env = Obj(object, {'builddir': Obj(StringStub, {'_s': 'B'}), 'base_dirs': Obj(object, {}), 'backend': 'make'})
        ctx = Obj(object, {'regenerating': Regenerating.lazy if case == 'lazy' else Regenerating.true, 'env': env,
                           'build': build})
        cx.ghost('inputs', z3.Const('regen_inputs', z3.SeqSort(PathT)))
        cx.ghost('outputs', z3.Const('regen_outputs', z3.SeqSort(PathT)))
        cached = []
        for i in range(NFILTERS):
            cached.append((z3.Const('cached_found_%d' % i, z3.SeqSort(PathT)), z3.Const('cached_extra_%d' % i, z3.SeqSort(PathT))))
        cx.ghost('cached', cached)
        cx.ghost('fresh', [(z3.Const('found_now_%d' % i, PathT), z3.Const('extra_now_%d' % i, PathT),
                            z3.Const('ignored_now_%d' % i, PathT), z3.Const('dir_now_%d' % i, PathT)) for i in range(NFILTERS)])
        cx.ghost('filters', [Sym(z3.Const('filter_%d' % i, opaque_sort('FileFilter')), ('opaque', 'FileFilter')) for i in range(NFILTERS)])
        return {'context': ctx}

    def opaque_calls(self):
        a = self.cur

        def load(I, args, kwargs, node):
            I.events.append(('load',))
            if I.decide(z3.Bool('find_cache_file_missing')):
                raise RaiseSig(ExcVal(FileNotFoundError, ()))
            from bfg9000.builtins.regenerate import RegenerateFiles
            rf = Obj(RegenerateFiles, {'inputs': PList(None, a.inputs, PT), 'outputs': PList(None, a.outputs, PT)})
            items = PList([(a.filters[i], (PList(None, a.cached[i][0], PT), PList(None, a.cached[i][1], PT)))
                           for i in range(NFILTERS)])
            return (rf, Obj(ItemsStub, {'_items': items}))

        def mtime(I, args, kwargs, node):
            p = args[0]
            if isinstance(p, Sym):
                return Sym(MT(p.e), 'int')
            return Sym(MT(CACHE_FILE), 'int')        # the only concrete path asked about is the cache file itself

        def find_files(I, args, kwargs, node):
            flt, seen = args[1], args[2]
            i = [k for k in range(NFILTERS) if a.filters[k] is flt or (isinstance(flt, Sym) and a.filters[k].e.eq(flt.e))][0]
            I.events.append(('search', i))
            f, e, x, d = a.fresh[i]
            I.call(I.getattr(seen, 'append', node), [Sym(d, PT)], {}, node)
            return PList([(Sym(f, PT), F.FindResult.include), (Sym(e, PT), F.FindResult.not_now),
                          (Sym(x, PT), F.FindResult.exclude)])

        def rec(tag):
            def h(I, args, kwargs, node):
                I.events.append((tag, args, dict(kwargs)))
                return True if tag == 'exists' else None
            return h
        return {F.FindCacheFile.__dict__['load'].__func__: load, BP.getmtime_ns: mtime, F._find_files: find_files,
                F._write_find_deps: rec('write_find_deps'), BP.exists: rec('exists'), BP.touch: rec('touch')}

    def raises(self, a):
        return [(AbortConfigure, z3.BoolVal(True))]

    def skip_conditions(self, a):
        n_in, n_out = z3.Length(a.inputs), z3.Length(a.outputs)
        conds = {
            'cache_not_newer_than_the_build_file': z3.Not(MT(CACHE_FILE) > MT(a.outputs[0])),
            'no_input_newer_than_any_output': z3.Implies(z3.And(K_IN >= 0, K_IN < n_in, K_OUT >= 0, K_OUT < n_out),
                                                         MT(a.inputs[K_IN]) <= MT(a.outputs[K_OUT])),
            # (a modification time of 0 is what the lenient lookup reports for a file that does not exist)
            'no_input_is_missing': z3.Implies(z3.And(K_IN >= 0, K_IN < n_in), MT(a.inputs[K_IN]) != 0),
        }
        for i in range(NFILTERS):
            f, e, x, d = a.fresh[i]
            conds['cached_result_%d_equals_the_fresh_search' % i] = z3.And(a.cached[i][0] == z3.Unit(f),
                                                                            a.cached[i][1] == z3.Unit(e))
        return conds

    def recorded(self, a):
        """what a completed round of searches must have recorded"""
        fc = a.context.attrs['build'].d['find_cache'].attrs['calls']
        fd = a.context.attrs['build'].d['find_dirs'].attrs['calls']
        ok = fc.concrete and fd.concrete and len(fc.items) == NFILTERS and len(fd.items) == NFILTERS
        if ok:
            for i in range(NFILTERS):
                flt, found, extra = fc.items[i]
                f, e, x, d = a.fresh[i]
                ok = ok and flt is a.filters[i] and [v.e.eq(f) for v in found.items] == [True] and \
                    [v.e.eq(e) for v in extra.items] == [True]
                seen, = fd.items[i]
                ok = ok and [v.e.eq(d) for v in seen.items] == [True]
        return ok

    def requires(self, a):
        # a regeneration step always has the build file among its outputs and the build script among its inputs
        return z3.And(z3.Length(a.inputs) >= 1, z3.Length(a.outputs) >= 1)

    def exc_ensures(self, a, exc):
        if exc.cls is not AbortConfigure:
            return {}
        out = dict(self.skip_conditions(a))
        ev = [e[0] for e in a.events]
        out['all_cached_searches_were_repeated'] = z3.BoolVal([e for e in a.events if e[0] == 'search'] ==
                                                              [('search', i) for i in range(NFILTERS)])
        out['fresh_results_and_directories_recorded'] = z3.BoolVal(bool(self.recorded(a)))
        out['depfile_refreshed_before_skipping'] = z3.BoolVal('write_find_deps' in ev)
        return out

    def loops(self):
        from pyvc.contract import LoopInv
        # the loop that touches every existing output: nothing is claimed about it beyond termination of the walk
        return {('find_check_cache', 4): LoopInv(lambda I, loc, i, seq: {'no_claim': z3.BoolVal(True)})}

    def ensures(self, a, r):
        # normal return: regeneration goes ahead.  If the searches were run, everything they found is recorded.
        searched = [e for e in a.events if e[0] == 'search']
        out = {'nothing_touched_when_regenerating': z3.BoolVal(not any(e[0] in ('touch', 'write_find_deps') for e in a.events))}
        if a.context.attrs['regenerating'] is not Regenerating.lazy:
            out['only_lazy_regeneration_consults_the_cache'] = z3.BoolVal(not a.events)
        if searched:
            out['fresh_results_and_directories_recorded'] = z3.BoolVal(
                searched == [('search', i) for i in range(NFILTERS)] and bool(self.recorded(a)))
        return out




class FindFromFilter(Contract):
    """find_from_filter: whether the result comes from the find cache or from a fresh search, every found path becomes
    a file object of the requested type and every extra (`not_now`) path is registered as a generic file / directory,
    all with the caller's `dist` flag; a fresh cached search stores its results and searched directories."""
    target = 'bfg9000/builtins/find.py::find_from_filter'
    properties = ('C08', 'C18', 'C11')

    def cases(self):
        return ['cache-hit', 'cache-miss', 'uncached']

    def params(self, cx, case):
        def path(n):
            return Obj(object, {'directory': cx.bool('is_dir_' + n), 'tag': n})
        found, extra = [path('f0'), path('f1')], [path('e0')]
        cx.ghost('found', found)
        cx.ghost('extra', extra)
        cx.ghost('ignored', path('x0'))
        cx.ghost('seen_dir', path('d0'))

        def maker(name):
            def h(I2, args, kwargs):
                I2.events.append(('make', name, args[0], kwargs.get('dist', 'MISSING')))
                return Obj(object, {'made_by': name, 'of': args[0]})
            return OpaqueFn(name, h)
        fns = PDict({k: maker(k) for k in ('auto_file', 'directory', 'generic_file')})
        entry = Obj(object, {'found': PList(list(found)), 'extra': PList(list(extra))}) if case == 'cache-hit' else None
        cache = Obj(CacheMapStub, {'_entry': entry, 'calls': PList([])})
        build = PDict({'find_cache': cache, 'find_dirs': Obj(Recorder, {'calls': PList([])})})
        ctx = Obj(ContextStub, {'_fns': fns, 'build': build, 'env': Obj(object, {})})
        flt = Sym(z3.Const('the_filter', opaque_sort('FileFilter')), ('opaque', 'FileFilter'))
        return {'context': ctx, 'file_filter': flt, 'dist': cx.bool('dist'), 'cache': case != 'uncached'}

    def opaque_calls(self):
        a = self.cur

        def find_files(I, args, kwargs, node):
            I.events.append(('search',))
            I.call(I.getattr(args[2], 'append', node), [a.seen_dir], {}, node)
            return PList([(a.found[0], F.FindResult.include), (a.extra[0], F.FindResult.not_now),
                          (a.ignored, F.FindResult.exclude), (a.found[1], F.FindResult.include)])
        return {F._find_files: find_files}

    def ensures(self, a, r):
        makes = [e for e in a.events if e[0] == 'make']
        dist = a.dist

        def kind_ok(e, p, extra):
            # files: auto_file (found) / generic_file (extra); directories: directory -- decided by the path's flag
            isdir = p.attrs['directory']
            want_dir = e[1] == 'directory'
            other = 'generic_file' if extra else 'auto_file'
            return z3.And(T.zbool(M.lift(isdir)) == z3.BoolVal(want_dir), z3.BoolVal(want_dir or e[1] == other))
        out = {}
        tag = lambda o: o.attrs['tag']        # noqa: E731  (paths are cloned per explored path: compare by tag)
        by_path = {tag(e[2]): e for e in makes}
        ok_count = len(makes) == len(a.found) + len(a.extra) and len(by_path) == len(makes)
        out['one_object_per_found_or_extra_path'] = z3.BoolVal(ok_count and tag(a.ignored) not in by_path)
        conds = []
        for p in a.found:
            e = by_path.get(tag(p))
            conds.append(kind_ok(e, e[2], False) if e else z3.BoolVal(False))
        for p in a.extra:
            e = by_path.get(tag(p))
            conds.append(kind_ok(e, e[2], True) if e else z3.BoolVal(False))
        out['type_follows_the_kind_of_path'] = z3.And(*conds)
        out['dist_flag_forwarded_to_every_object'] = z3.BoolVal(all(e[3] is dist for e in makes))
        res = r.items if isinstance(r, PList) and r.concrete else None
        out['result_is_the_objects_of_the_found_paths_in_order'] = z3.BoolVal(
            res is not None and [tag(x.attrs.get('of')) for x in res] == [tag(p) for p in a.found])
        cache = a.context.attrs['build'].d['find_cache'].attrs['calls']
        dirs = a.context.attrs['build'].d['find_dirs'].attrs['calls']
        searched = any(e[0] == 'search' for e in a.events)
        if a.cache and searched:
            c = cache.items
            out['fresh_search_is_cached_with_its_directories'] = z3.BoolVal(
                len(c) == 1 and c[0][0] is a.file_filter and [tag(x) for x in c[0][1].items] == [tag(p) for p in a.found] and
                [tag(x) for x in c[0][2].items] == [tag(p) for p in a.extra] and len(dirs.items) == 1 and
                [tag(x) for x in dirs.items[0][0].items] == [tag(a.seen_dir)])
        else:
            out['cache_untouched'] = z3.BoolVal(not cache.items and not dirs.items)
        out['searched_only_without_a_cache_entry'] = z3.BoolVal(searched == (a.context.attrs['build'].d['find_cache'].attrs['_entry'] is None or not a.cache))
        return out


def registry():
    return [FindCheckCache(), FindFromFilter()]
