"""C17 (bounded, real tools): the .pc files written by the pkg_config() builtin, read by the real pkg-config."""
import os
import shlex
from contracts.bounded_cmd import Bounded

BUILD_BFG = """
project('proj', version='3.1')
inc = header_directory('include dir', include='*.h')
inner = shared_library('inner', files=['i.c'])
lib = shared_library('my lib/mylib', files=['l.c'], includes=[inc], libs=[inner])
st = static_library('stat', files=['s.c'])
install(inc, lib, st)
pkg_config('explicit', version='1.2', includes=[inc], libs=[lib], requires=[('dep', '>=1.0')], conflicts=['bad'],
           options=['-DEXP=1'], link_options=['-pthread'])
pkg_config('emptyinc', auto_fill=True, includes=[], version='0.5')
pkg_config('emptylibs', auto_fill=True, libs=[], version='0.6')
pkg_config(auto_fill=True)
z = package('z', '>=1.0')
pkg_config('withpkg', version='2.0', requires=[z])
pkg_config('priv', version='1.0', libs=[lib], libs_private=[st])
innerst = static_library('innerst', files=['is.c'], link_options=['-pthread'])
outerst = static_library('outerst', files=['os.c'], libs=[innerst])
fwd = pkg_config('fwd', version='1.0', libs=[outerst], link_options_private=['-Wl,-O1'])
executable('consumer2', files=['c2.c'], packages=[fwd])
g = package('g', kind='static')
pkg_config('usesgen', version='1.0', requires=[g])
pkg_config('special', version='1.0', options=['-DA=a#b', '-DB=${x}', '-DC=c d'])
mine = pkg_config('mine', version='1.0', includes=[inc], libs=[lib], options=['-DGREETING="hi there"'])
executable('consumer', files=['c.c'], packages=[mine])
"""
# package -> form -> (cflags, libs, version, requires) the description declares ({S} source dir, {B} build dir,
# {P} prefix); the dependency `dep` contributes its own flags behind them
DEP_C, DEP_L = ['-I/opt/dep/include'], ['-L/opt/dep/lib', '-ldep']
# the package `z` is known to pkg-config as the module `zcore` (what mopack's `pcnames` says; stub mopack)
Z_C, Z_L = ['-I/opt/z/include'], ['-L/opt/z/lib', '-lzcore']
EXPECT = {
    'explicit': {'installed': (['-I{P}/include', '-DEXP=1'] + DEP_C, ['-pthread', '-L{P}/lib/my lib', '-lmylib'] + DEP_L, '1.2', 'dep >= 1.0'),
                 'uninstalled': (['-I{S}/include dir', '-DEXP=1'] + DEP_C, ['-pthread', '-L{B}/my lib', '-lmylib'] + DEP_L, '1.2', 'dep >= 1.0')},
    # (auto-filled libraries: every library installed explicitly -- also `outerst`, which the package `fwd` lists)
    'emptyinc': {'installed': ([], ['-L{P}/lib/my lib', '-L{P}/lib', '-lmylib', '-lstat', '-louterst'], '0.5', ''),
                 'uninstalled': ([], ['-L{B}/my lib', '-L{B}', '-lmylib', '-lstat', '-louterst'], '0.5', '')},
    'emptylibs': {'installed': (['-I{P}/include'], [], '0.6', ''), 'uninstalled': (['-I{S}/include dir'], [], '0.6', '')},
    'withpkg': {'installed': (Z_C, Z_L, '2.0', 'zcore >= 1.0'), 'uninstalled': (Z_C, Z_L, '2.0', 'zcore >= 1.0')},
    # private libraries are handed to static consumers only
    'priv': {'installed': ([], ['-L{P}/lib/my lib', '-lmylib'], '1.0', '', ['-L{P}/lib/my lib', '-L{P}/lib', '-lmylib', '-lstat']),
             'uninstalled': ([], ['-L{B}/my lib', '-lmylib'], '1.0', '', ['-L{B}/my lib', '-L{B}', '-lmylib', '-lstat'])},
    # requirements of a static dependency (its libraries and link options) are private requirements of the package, next
    # to the declared private link options
    'fwd': {'installed': ([], ['-L{P}/lib', '-louterst'], '1.0', '', ['-L{P}/lib', '-louterst', '-linnerst', '-pthread', '-Wl,-O1']),
            'uninstalled': ([], ['-L{B}', '-louterst'], '1.0', '', ['-L{B}', '-louterst', '-linnerst', '-pthread', '-Wl,-O1'])},
    # option values with characters the .pc format itself reads (`#` comment, `${x}` variable reference)
    # a package that the package manager *generated* (no .pc of its own to require): its flags are copied in, for a
    # static package the private ones with their directories too
    'usesgen': {'installed': (['-I/opt/g/include'], ['-L/opt/g/lib', '-L/opt/gcore/lib', '-lg', '-lgcore'], '1.0', ''),
                'uninstalled': (['-I/opt/g/include'], ['-L/opt/g/lib', '-L/opt/gcore/lib', '-lg', '-lgcore'], '1.0', '')},
    'special': {'installed': (['-DA=a#b', '-DB=${{x}}', '-DC=c d'], [], '1.0', ''), 'uninstalled': (['-DA=a#b', '-DB=${{x}}', '-DC=c d'], [], '1.0', '')},
    'mine': {'installed': (['-I{P}/include', '-DGREETING="hi there"'], ['-L{P}/lib/my lib', '-lmylib'], '1.0', ''),
             'uninstalled': (['-I{S}/include dir', '-DGREETING="hi there"'], ['-L{B}/my lib', '-lmylib'], '1.0', '')},
    'proj': {'installed': (['-I{P}/include'], ['-L{P}/lib/my lib', '-L{P}/lib', '-lmylib', '-lstat', '-louterst'], '3.1', ''),
             'uninstalled': (['-I{S}/include dir'], ['-L{B}/my lib', '-L{B}', '-lmylib', '-lstat', '-louterst'], '3.1', '')},
}


class PkgConfigRun(Bounded):
    """A generated project with an explicit package (includes, a library in a directory with a blank, a versioned
    requirement, a conflict, compile and link options) and auto-filled packages (one with an explicitly empty include
    list, one with an explicitly empty library list, one with everything defaulted), configured by the tree under
    test; the real pkg-config then reports, for the installed and the uninstalled form of each package, exactly the
    declared include flags, library flags, version and requirements."""
    target = 'bfg9000/builtins/pkg_config.py::finalize_pkg_config'
    properties = ('C17',)
    reason = 'whole configure pipeline plus the external pkg-config: runtime contract with the real tool'
    native_chunk = 1

    def native_inputs(self, case, alphabet, maxlen, rng, extra=0):
        for pkg in EXPECT:
            yield {'package': pkg}

    def native_check(self, case, raw):
        import shutil, subprocess, tempfile
        from pyvc.interp import REPO
        top = tempfile.mkdtemp(prefix='pyvc_pc_')
        try:
            src, b, prefix = top + '/src', top + '/b', '/opt/my pre'

            def w(fp, text):
                os.makedirs(os.path.dirname(fp), exist_ok=True)
                with open(fp, 'w') as f:
                    f.write(text)
            w(src + '/build.bfg', BUILD_BFG)
            w(src + '/include dir/a.h', '')
            w(src + '/l.c', 'int l(void) { return 0; }\n')
            w(src + '/s.c', 'int s(void) { return 0; }\n')
            w(src + '/i.c', 'int inner(void) { return 0; }\n')
            w(src + '/c2.c', 'int outerst(void);\nint main(void) { return outerst(); }\n')
            w(src + '/is.c', 'int innerst(void) { return 0; }\n')
            w(src + '/os.c', 'int innerst(void); int outerst(void) { return innerst(); }\n')
            w(src + '/c.c', '#include "a.h"\n#include <string.h>\nint l(void);\n'
                            'int main(void) { return l() + strcmp(GREETING, "hi there"); }\n')
            w(top + '/deps/gdep.pc', 'Name: gdep\nDescription: g\nVersion: 1.0\nCflags: -I/opt/g/include\n'
                                     'Libs: -L/opt/g/lib -lg\nLibs.private: -L/opt/gcore/lib -lgcore\n')
            w(top + '/deps/zcore.pc', 'Name: zcore\nDescription: z\nVersion: 1.2\nCflags: -I/opt/z/include\n'
                                      'Libs: -L/opt/z/lib -lzcore\n')
            # no usable mopack in the sandbox: a stub that knows the package `z` as the pkg-config module `zcore`
            w(top + '/bin/mopack', '#!/bin/sh\ncase "$1" in linkage) for a; do last=$a; done\n'
                                   'case "$last" in z) echo \'{"name": "z", "type": "pkg_config", "pcnames": ["zcore"], '
                                   '"pkg_config_path": ["%s/deps"]}\';; '
                                   'g) echo \'{"name": "g", "type": "pkg_config", "generated": true, "pcnames": ["gdep"], '
                                   '"pkg_config_path": ["%s/deps"]}\';; *) echo \'{"error": "unknown"}\'; exit 1;; esac;; esac\n'
                                   % (top, top))
            os.chmod(top + '/bin/mopack', 0o755)
            w(top + '/deps/dep.pc', 'Name: dep\nDescription: d\nVersion: 1.5\nCflags: -I/opt/dep/include\n'
                                    'Libs: -L/opt/dep/lib -ldep\n')
            lp = top + '/bin/bfg9000'
            w(lp, "#!/bin/sh\nPYTHONPATH=%s exec /venv/bin/python -c 'import sys; sys.argv[0] = \"%s\"; "
                  "from bfg9000.driver import main; sys.exit(main())' \"$@\"\n" % (REPO, lp))
            os.chmod(lp, 0o755)
            dp = top + '/bin/bfg9000-depfixer'
            w(dp, "#!/bin/sh\nPYTHONPATH=%s exec /venv/bin/python -c 'import sys; sys.argv[0] = \"%s\"; "
                  "from bfg9000.depfixer import main; sys.exit(main())' \"$@\"\n" % (REPO, dp))
            os.chmod(dp, 0o755)
            env = dict(os.environ, PATH=top + '/bin:/venv/bin:' + os.environ['PATH'], PKG_CONFIG_PATH=top + '/deps')
            env.pop('MAKEFLAGS', None)
            r = subprocess.run([lp, 'configure-into', src, b, '--backend=make', '--no-resolve-packages',
                                '--prefix=' + prefix], env=env, capture_output=True, text=True, timeout=120)
            if r.returncode != 0:
                return self.fail(case, raw, 'configure_succeeds', stderr=r.stderr[-500:])
            pkg = raw['package']
            for form in ('installed', 'uninstalled'):
                e2 = dict(env, PKG_CONFIG_PATH=b + '/pkgconfig:' + top + '/deps')
                if form == 'installed':
                    e2['PKG_CONFIG_DISABLE_UNINSTALLED'] = '1'

                def q(*args):
                    p = subprocess.run(['pkg-config'] + list(args) + [pkg], env=e2, capture_output=True, text=True, timeout=30)
                    return p.returncode, p.stdout.strip(), p.stderr.strip()

                def norm(tok):
                    if tok[:2] in ('-I', '-L') and len(tok) > 2:
                        return tok[:2] + os.path.normpath(tok[2:])
                    return tok
                want_c, want_l, want_v, want_r = EXPECT[pkg][form][:4]
                fmt = lambda xs: [norm(x.format(P=prefix, S=src, B=b)) for x in xs]       # noqa: E731
                rc, out, err = q('--cflags')
                if rc != 0 or [norm(t) for t in shlex.split(out)] != fmt(want_c):
                    return self.fail(case, raw, 'consumers_get_exactly_the_declared_compile_flags', form=form,
                                     got=out, expected=fmt(want_c), stderr=err[:200])
                rc, out, err = q('--libs')
                if rc != 0 or [norm(t) for t in shlex.split(out)] != fmt(want_l):
                    return self.fail(case, raw, 'consumers_get_exactly_the_declared_link_flags', form=form,
                                     got=out, expected=fmt(want_l), stderr=err[:200])
                if len(EXPECT[pkg][form]) > 4:
                    want_s = fmt(EXPECT[pkg][form][4])
                    rc, out, err = q('--static', '--libs')
                    got_s = [norm(t) for t in shlex.split(out)]
                    # same directories, same libraries in the same order, the same other link options
                    if rc != 0 or {t for t in got_s if t[:2] == '-L'} != {t for t in want_s if t[:2] == '-L'} or \
                            [t for t in got_s if t[:2] == '-l'] != [t for t in want_s if t[:2] == '-l'] or \
                            sorted(t for t in got_s if t[:2] not in ('-L', '-l')) != sorted(t for t in want_s if t[:2] not in ('-L', '-l')):
                        return self.fail(case, raw, 'static_consumers_get_the_private_libraries', form=form,
                                         got=out, expected=want_s, stderr=err[:200])
                rc, out, err = q('--modversion')
                if out != want_v:
                    return self.fail(case, raw, 'declared_version', form=form, got=out, expected=want_v)
                rc, out, err = q('--print-requires')
                if out != want_r:
                    return self.fail(case, raw, 'declared_requirements', form=form, got=out, expected=want_r)
            if pkg in ('mine', 'fwd'):
                # a consumer inside the project, given the package object that pkg_config() returned
                for goal in ('all', 'consumer' if pkg == 'mine' else 'consumer2'):
                    m = subprocess.run(['make', '-C', b, goal], env=env, capture_output=True, text=True, timeout=300)
                    if m.returncode != 0:
                        return self.fail(case, raw, 'consumer_builds_against_the_project', goal=goal,
                                         output=(m.stdout + m.stderr)[-700:])
            return True
        finally:
            shutil.rmtree(top, ignore_errors=True)


class PkgConfigLibraryModes(Bounded):
    """An auto-filled package of a project whose library is declared with library(): under every library mode
    (shared only, static only, both) the real pkg-config hands a consumer the library, in the installed and the
    uninstalled form, and a consumer links against the built project with the flags of the uninstalled form."""
    target = 'bfg9000/builtins/pkg_config.py::finalize_pkg_config'
    properties = ('C17',)
    reason = 'whole configure pipeline plus the external pkg-config, make and cc: runtime contract with the real tools'
    native_chunk = 1
    MODES = {'shared-only': [], 'static-only': ['--disable-shared', '--enable-static'], 'both': ['--enable-shared', '--enable-static']}

    def native_inputs(self, case, alphabet, maxlen, rng, extra=0):
        for m in self.MODES:
            yield {'mode': m}

    def native_check(self, case, raw):
        import shutil, subprocess, tempfile
        from pyvc.interp import REPO
        top = tempfile.mkdtemp(prefix='pyvc_pcm_')
        try:
            src, b = top + '/src', top + '/b'

            def w(fp, text):
                os.makedirs(os.path.dirname(fp), exist_ok=True)
                with open(fp, 'w') as f:
                    f.write(text)
            w(src + '/build.bfg', "project('hello', version='1.0')\ninc = header_directory('include', include='*.h')\n"
                                  "lib = library('hello', files=['h.c'], includes=[inc])\ninstall(lib, inc)\npkg_config(auto_fill=True)\n")
            w(src + '/include/hello.h', 'int hello(void);\n')
            w(src + '/h.c', '#include "hello.h"\nint hello(void) { return 0; }\n')
            w(top + '/use.c', '#include <hello.h>\nint main(void) { return hello(); }\n')
            for name, mod in (('bfg9000', 'bfg9000.driver'), ('bfg9000-depfixer', 'bfg9000.depfixer')):
                lp = top + '/bin/' + name
                w(lp, "#!/bin/sh\nPYTHONPATH=%s exec /venv/bin/python -c 'import sys; sys.argv[0] = \"%s\"; "
                      "from %s import main; sys.exit(main())' \"$@\"\n" % (REPO, lp, mod))
                os.chmod(lp, 0o755)
            env = dict(os.environ, PATH=top + '/bin:/venv/bin:' + os.environ['PATH'])
            for k in ('MAKEFLAGS', 'PKG_CONFIG_PATH', 'LD_LIBRARY_PATH'):
                env.pop(k, None)
            r = subprocess.run([top + '/bin/bfg9000', 'configure-into', src, b, '--backend=make', '--no-resolve-packages',
                                '--prefix=/opt/hello'] + self.MODES[raw['mode']], env=env, capture_output=True, text=True, timeout=120)
            if r.returncode != 0:
                return self.fail(case, raw, 'configure_succeeds', stderr=r.stderr[-500:])
            for form in ('installed', 'uninstalled'):
                e2 = dict(env, PKG_CONFIG_PATH=b + '/pkgconfig')
                if form == 'installed':
                    e2['PKG_CONFIG_DISABLE_UNINSTALLED'] = '1'
                for static in ([], ['--static']):
                    p = subprocess.run(['pkg-config', '--libs'] + static + ['hello'], env=e2, capture_output=True, text=True, timeout=30)
                    toks = shlex.split(p.stdout)
                    wantdir = '/opt/hello/lib' if form == 'installed' else b
                    if p.returncode != 0 or '-lhello' not in toks or not any(
                            t[:2] == '-L' and os.path.normpath(t[2:]) == wantdir for t in toks):
                        return self.fail(case, raw, 'consumers_get_the_library', form=form, static=bool(static), got=p.stdout.strip(),
                                         stderr=p.stderr[:200])
            m = subprocess.run(['make', '-C', b], env=env, capture_output=True, text=True, timeout=300)
            if m.returncode != 0:
                return self.fail(case, raw, 'project_builds', output=(m.stdout + m.stderr)[-400:])
            e2 = dict(env, PKG_CONFIG_PATH=b + '/pkgconfig')
            fl = subprocess.run(['pkg-config', '--cflags', '--libs', 'hello'], env=e2, capture_output=True, text=True, timeout=30)
            c = subprocess.run(['cc', top + '/use.c', '-o', top + '/use'] + shlex.split(fl.stdout), env=env, capture_output=True, text=True, timeout=120)
            if c.returncode != 0:
                return self.fail(case, raw, 'consumer_builds_against_the_project', flags=fl.stdout.strip(), output=c.stderr[-400:])
            rr = subprocess.run([top + '/use'], env=dict(env, LD_LIBRARY_PATH=b), capture_output=True, timeout=30)
            if rr.returncode != 0:
                return self.fail(case, raw, 'consumer_runs', exit=rr.returncode)
            return True
        finally:
            shutil.rmtree(top, ignore_errors=True)


class ConflictRanges(Bounded):
    """A package that requires `zed` and declares a conflict with some versions of it, configured while a given
    version of `zed` is visible to the real pkg-config: a version outside the declared conflict is accepted
    (configure succeeds and pkg-config hands out the flags); a version inside it is refused (by configure or by
    pkg-config)."""
    target = 'bfg9000/builtins/pkg_config.py::finalize_pkg_config'
    properties = ('C17',)
    reason = 'the reading of Conflicts is the external pkg-config\'s: runtime contract with the real tool'
    native_chunk = 1
    SPECS = ['<1.2', '>=1.2', '!=1.1', '==1.3', '>=1.0,<1.2', '>1.0,<=1.3', '>=1.2,!=1.3']
    VERSIONS = ['0.9', '1.1', '1.3', '1.10']

    def native_inputs(self, case, alphabet, maxlen, rng, extra=0):
        for sp in self.SPECS:
            for v in self.VERSIONS:
                yield {'conflicts': sp, 'zed': v, 'ranged': ',' in sp}

    def native_check(self, case, raw):
        import shutil, subprocess, tempfile
        from pyvc.interp import REPO
        from bfg9000.versioning import SpecifierSet, Version
        inside = Version(raw['zed']) in SpecifierSet(raw['conflicts'])
        top = tempfile.mkdtemp(prefix='pyvc_cfl_')
        try:
            src, b = top + '/src', top + '/b'
            os.makedirs(src)
            os.makedirs(top + '/deps')
            with open(src + '/build.bfg', 'w') as f:
                f.write("project('p', version='1.0')\npkg_config('r', version='1.0', requires=['zed'], conflicts=[('zed', %r)])\n"
                        % raw['conflicts'])
            with open(top + '/deps/zed.pc', 'w') as f:
                f.write('Name: zed\nDescription: z\nVersion: %s\nCflags: -DZED\n' % raw['zed'])
            os.makedirs(top + '/bin')
            lp = top + '/bin/bfg9000'
            with open(lp, 'w') as f:
                f.write("#!/bin/sh\nPYTHONPATH=%s exec /venv/bin/python -c 'import sys; sys.argv[0] = \"%s\"; "
                        "from bfg9000.driver import main; sys.exit(main())' \"$@\"\n" % (REPO, lp))
            os.chmod(lp, 0o755)
            env = dict(os.environ, PATH=top + '/bin:/venv/bin:' + os.environ['PATH'], PKG_CONFIG_PATH=top + '/deps')
            env.pop('MAKEFLAGS', None)
            r = subprocess.run([lp, 'configure-into', src, b, '--backend=make', '--no-resolve-packages'], env=env,
                               capture_output=True, text=True, timeout=120)
            ok = r.returncode == 0
            flags = ''
            if ok:
                p = subprocess.run(['pkg-config', '--cflags', 'r'], env=dict(env, PKG_CONFIG_PATH=b + '/pkgconfig:' + top + '/deps',
                                                                             PKG_CONFIG_DISABLE_UNINSTALLED='1'),
                                   capture_output=True, text=True, timeout=30)
                ok = p.returncode == 0 and '-DZED' in p.stdout
                flags = (p.stdout + p.stderr).strip()[-200:]
            if inside and ok:
                return self.fail(case, raw, 'version_inside_the_declared_conflict_is_refused', got=flags)
            if not inside and not ok:
                return self.fail(case, raw, 'version_outside_the_declared_conflict_is_accepted',
                                 configure=(r.stderr or '')[-200:], pkg_config=flags)
            return True
        finally:
            shutil.rmtree(top, ignore_errors=True)


def registry():
    return [PkgConfigRun(), PkgConfigLibraryModes(), ConflictRanges()]
