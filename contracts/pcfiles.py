"""C17 (bounded, real tools): the .pc files written by the pkg_config() builtin, read by the real pkg-config."""
import os
import shlex
from contracts.bounded_cmd import Bounded

BUILD_BFG = """
project('proj', version='3.1')
inc = header_directory('include dir', include='*.h')
lib = shared_library('my lib/mylib', files=['l.c'], includes=[inc])
st = static_library('stat', files=['s.c'])
install(inc, lib, st)
pkg_config('explicit', version='1.2', includes=[inc], libs=[lib], requires=[('dep', '>=1.0')], conflicts=['bad'],
           options=['-DEXP=1'], link_options=['-pthread'])
pkg_config('emptyinc', auto_fill=True, includes=[], version='0.5')
pkg_config('emptylibs', auto_fill=True, libs=[], version='0.6')
pkg_config(auto_fill=True)
"""
# package -> form -> (cflags, libs, version, requires) the description declares ({S} source dir, {B} build dir,
# {P} prefix); the dependency `dep` contributes its own flags behind them
DEP_C, DEP_L = ['-I/opt/dep/include'], ['-L/opt/dep/lib', '-ldep']
EXPECT = {
    'explicit': {'installed': (['-I{P}/include', '-DEXP=1'] + DEP_C, ['-pthread', '-L{P}/lib/my lib', '-lmylib'] + DEP_L, '1.2', 'dep >= 1.0'),
                 'uninstalled': (['-I{S}/include dir', '-DEXP=1'] + DEP_C, ['-pthread', '-L{B}/my lib', '-lmylib'] + DEP_L, '1.2', 'dep >= 1.0')},
    'emptyinc': {'installed': ([], ['-L{P}/lib/my lib', '-L{P}/lib', '-lmylib', '-lstat'], '0.5', ''),
                 'uninstalled': ([], ['-L{B}/my lib', '-L{B}', '-lmylib', '-lstat'], '0.5', '')},
    'emptylibs': {'installed': (['-I{P}/include'], [], '0.6', ''), 'uninstalled': (['-I{S}/include dir'], [], '0.6', '')},
    'proj': {'installed': (['-I{P}/include'], ['-L{P}/lib/my lib', '-L{P}/lib', '-lmylib', '-lstat'], '3.1', ''),
             'uninstalled': (['-I{S}/include dir'], ['-L{B}/my lib', '-L{B}', '-lmylib', '-lstat'], '3.1', '')},
}


class PkgConfigRun(Bounded):
    """A generated project with an explicit package (includes, a library in a directory with a blank, a versioned
    requirement, a conflict, compile and link options) and auto-filled packages (one with an explicitly empty include
    list, one with an explicitly empty library list, one with everything defaulted), configured by the tree under
    test; the real pkg-config then reports, for the installed and the uninstalled form of each package, exactly the
    declared include flags, library flags, version and requirements."""
    target = 'bfg9000/builtins/pkg_config.py::finalize_pkg_config'
    properties = ('C17',)
    reason = 'whole configure pipeline plus the external pkg-config: runtime contract with the real tool'
    native_chunk = 1

    def native_inputs(self, case, alphabet, maxlen, rng, extra=0):
        for pkg in EXPECT:
            yield {'package': pkg}

    def native_check(self, case, raw):
        import shutil, subprocess, tempfile
        from pyvc.interp import REPO
        top = tempfile.mkdtemp(prefix='pyvc_pc_')
        try:
            src, b, prefix = top + '/src', top + '/b', '/opt/my pre'

            def w(fp, text):
                os.makedirs(os.path.dirname(fp), exist_ok=True)
                with open(fp, 'w') as f:
                    f.write(text)
            w(src + '/build.bfg', BUILD_BFG)
            w(src + '/include dir/a.h', '')
            w(src + '/l.c', 'int l(void) { return 0; }\n')
            w(src + '/s.c', 'int s(void) { return 0; }\n')
            w(top + '/deps/dep.pc', 'Name: dep\nDescription: d\nVersion: 1.5\nCflags: -I/opt/dep/include\n'
                                    'Libs: -L/opt/dep/lib -ldep\n')
            lp = top + '/bin/bfg9000'
            w(lp, "#!/bin/sh\nPYTHONPATH=%s exec /venv/bin/python -c 'import sys; sys.argv[0] = \"%s\"; "
                  "from bfg9000.driver import main; sys.exit(main())' \"$@\"\n" % (REPO, lp))
            os.chmod(lp, 0o755)
            env = dict(os.environ, PATH=top + '/bin:/venv/bin:' + os.environ['PATH'], PKG_CONFIG_PATH=top + '/deps')
            env.pop('MAKEFLAGS', None)
            r = subprocess.run([lp, 'configure-into', src, b, '--backend=make', '--no-resolve-packages',
                                '--prefix=' + prefix], env=env, capture_output=True, text=True, timeout=120)
            if r.returncode != 0:
                return self.fail(case, raw, 'configure_succeeds', stderr=r.stderr[-500:])
            pkg = raw['package']
            for form in ('installed', 'uninstalled'):
                e2 = dict(env, PKG_CONFIG_PATH=b + '/pkgconfig:' + top + '/deps')
                if form == 'installed':
                    e2['PKG_CONFIG_DISABLE_UNINSTALLED'] = '1'

                def q(*args):
                    p = subprocess.run(['pkg-config'] + list(args) + [pkg], env=e2, capture_output=True, text=True, timeout=30)
                    return p.returncode, p.stdout.strip(), p.stderr.strip()

                def norm(tok):
                    if tok[:2] in ('-I', '-L') and len(tok) > 2:
                        return tok[:2] + os.path.normpath(tok[2:])
                    return tok
                want_c, want_l, want_v, want_r = EXPECT[pkg][form]
                fmt = lambda xs: [norm(x.format(P=prefix, S=src, B=b)) for x in xs]       # noqa: E731
                rc, out, err = q('--cflags')
                if rc != 0 or [norm(t) for t in shlex.split(out)] != fmt(want_c):
                    return self.fail(case, raw, 'consumers_get_exactly_the_declared_compile_flags', form=form,
                                     got=out, expected=fmt(want_c), stderr=err[:200])
                rc, out, err = q('--libs')
                if rc != 0 or [norm(t) for t in shlex.split(out)] != fmt(want_l):
                    return self.fail(case, raw, 'consumers_get_exactly_the_declared_link_flags', form=form,
                                     got=out, expected=fmt(want_l), stderr=err[:200])
                rc, out, err = q('--modversion')
                if out != want_v:
                    return self.fail(case, raw, 'declared_version', form=form, got=out, expected=want_v)
                rc, out, err = q('--print-requires')
                if out != want_r:
                    return self.fail(case, raw, 'declared_requirements', form=form, got=out, expected=want_r)
            return True
        finally:
            shutil.rmtree(top, ignore_errors=True)


def registry():
    return [PkgConfigRun()]
