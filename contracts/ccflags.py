"""C16: semantic options through the real configure pipeline and the installed C compiler (bounded, real tools).

The oracle is the compiler itself: a flag table can only be judged by handing its flags to the tool.  Each case is a
tiny generated project whose program reports, through its exit status or its build result, whether the option had its
documented effect (predefined macros such as __OPTIMIZE_SIZE__, _REENTRANT, __STDC_VERSION__; a header found through
an include directory; a symbol found through a library directory; a warning turned into an error)."""
import os
from contracts.bounded_cmd import Bounded

# name -> (option expression, main.c, extra files, expectation)   expectation: 'run0' (builds, program exits 0),
# 'fail' (the build must fail), 'build' (must build)
MAIN_MACRO = 'int main(void) {\n#if %s\n  return 0;\n#else\n  return 1;\n#endif\n}\n'
CASES = {
    'define-value': ("opts.define('VALUE', '5')", 'int main(void) { return VALUE - 5; }\n', {}, 'run0'),
    'define-flag': ("opts.define('FLAG')", MAIN_MACRO % 'defined(FLAG)', {}, 'run0'),
    'define-string': ("opts.define('GREETING', '\"a b$c\"')",
                      '#include <string.h>\nint main(void) { return strcmp(GREETING, "a b$c"); }\n', {}, 'run0'),
    'std-c99': ("opts.std('c99')", MAIN_MACRO % '__STDC_VERSION__ == 199901L', {}, 'run0'),
    'std-c11': ("opts.std('c11')", MAIN_MACRO % '__STDC_VERSION__ == 201112L', {}, 'run0'),
    'include-dir': ("opts.include_dir(header_directory('inc dir'))", '#include "val.h"\nint main(void) { return VAL - 7; }\n',
                    {'inc dir/val.h': '#define VAL 7\n'}, 'run0'),
    'warning-all-error': ("opts.warning('all', 'error')", 'int main(void) { int unused; return 0; }\n', {}, 'fail'),
    'warning-all': ("opts.warning('all')", 'int main(void) { int unused; return 0; }\n', {}, 'run0'),
    'warning-extra': ("opts.warning('extra')", 'int main(void) { return 0; }\n', {}, 'run0'),
    'warning-disable': ("opts.warning('disable')", 'int main(void) { int unused; return 0; }\n', {}, 'run0'),
    'debug': ("opts.debug()", 'int main(void) { return 0; }\n', {}, 'debuginfo'),
    'optimize-disable': ("opts.optimize('disable')", MAIN_MACRO % '!defined(__OPTIMIZE__)', {}, 'run0'),
    'optimize-size': ("opts.optimize('size')", MAIN_MACRO % 'defined(__OPTIMIZE_SIZE__)', {}, 'run0'),
    'optimize-speed': ("opts.optimize('speed')", MAIN_MACRO % 'defined(__OPTIMIZE__) && !defined(__OPTIMIZE_SIZE__)', {}, 'run0'),
    'optimize-linktime': ("opts.optimize('linktime')", 'int main(void) { return 0; }\n', {}, 'run0'),
    'optimize-size-linktime': ("opts.optimize('size', 'linktime')", MAIN_MACRO % 'defined(__OPTIMIZE_SIZE__)', {}, 'run0'),
    'pic': ("opts.pic()", MAIN_MACRO % 'defined(__PIC__)', {}, 'run0'),
    'define-empty-value': ("opts.define('EMPTY', '')",
                           '#define STR2(x) #x\n#define STR(x) STR2(x)\nint main(void) { return sizeof(STR(EMPTY)) - 1; }\n', {}, 'run0'),
    'sanitize': ("opts.sanitize()", MAIN_MACRO % 'defined(__SANITIZE_ADDRESS__)', {}, 'run0'),
    'pthread': ("opts.pthread()", MAIN_MACRO % 'defined(_REENTRANT)', {}, 'run0'),
}
# cases with their own build script: (build.bfg body, main.c, files, expectation, environment at configure time,
# prebuilt shared libraries {path: C source})
SCRIPT_CASES = {
    # a prebuilt library whose file name has `.a` in the middle, next to a decoy with the shorter name
    'library-named-x.api': (
        "pre = shared_library('libs/libgreet.api.so')\nexecutable('prog', files=['main.c'], libs=[pre])\n",
        'int greet(void);\nint main(void) { return greet() - 42; }\n', {}, 'run0', {},
        {'libs/libgreet.api.so': 'int greet(void) { return 42; }\n', 'libs/libgreet.so': 'int greet(void) { return 7; }\n'}),
    # an include directory that is also listed in CPATH still comes before a later include directory
    'include-dir-also-in-CPATH': (
        "executable('prog', files=['main.c'], includes=[header_directory(env.srcdir.append('first')), "
        "header_directory(env.srcdir.append('second'))])\n",
        '#include "which.h"\nint main(void) { return WHICH - 1; }\n',
        {'first/which.h': '#define WHICH 1\n', 'second/which.h': '#define WHICH 2\n'}, 'run0', {'CPATH': '{src}/first'}, {}),
    # a precompiled header used by the sources of a shared library: options added to the sources because of the kind of
    # target (pic) reach the header too, so a compiler told to insist on a valid precompiled header accepts it
    'pch-in-shared-library': (
        "lib = shared_library('foo', files=['foo.c'], pch='pre.h', compile_options=['-Winvalid-pch', '-Werror'])\n"
        "executable('prog', files=['main.c'], libs=[lib])\n",
        'int foo(void);\nint main(void) { return foo(); }\n',
        {'pre.h': '#define PRE_VAL 3\n', 'foo.c': 'int foo(void) { return PRE_VAL - 3; }\n'}, 'run0', {}, {}),
    'pch-in-static-library-linked-into-shared': (
        "st = static_library('st', files=['foo.c'], pch='pre.h', compile_options=['-Winvalid-pch', '-Werror'])\n"
        "sh = shared_library('sh', files=['bar.c'], libs=[st])\n"
        "executable('prog', files=['main.c'], libs=[sh])\n",
        'int bar(void);\nint main(void) { return bar(); }\n',
        {'pre.h': '#define PRE_VAL 3\n', 'foo.c': 'int foo(void) { return PRE_VAL - 3; }\n',
         'bar.c': 'int foo(void);\nint bar(void) { return foo(); }\n'}, 'run0', {}, {}),
    # a system include directory given as a *global* option keeps its meaning: warnings in its headers are not errors
    'system-include-dir-global': (
        "sysinc = header_directory('sysinc', system=True)\n"
        "global_options([opts.include_dir(sysinc), opts.warning('all', 'error')], lang='c')\n"
        "executable('prog', files=['main.c'])\n",
        '#include "noisy.h"\nint main(void) { return 0; }\n', {'sysinc/noisy.h': 'static int unused_fn(void) { return 0; }\n'},
        'run0', {}, {}),
    'system-include-dir-target': (
        "sysinc = header_directory('sysinc', system=True)\n"
        "executable('prog', files=['main.c'], compile_options=[opts.include_dir(sysinc), opts.warning('all', 'error')])\n",
        '#include "noisy.h"\nint main(void) { return 0; }\n', {'sysinc/noisy.h': 'static int unused_fn(void) { return 0; }\n'},
        'run0', {}, {}),
    # a C++ program whose precompiled header has the ambiguous extension .h: it is a C++ header
    'pch-dot-h-in-c++': (
        "executable('prog', files=['main.cpp'], pch='pre.h', compile_options=[opts.std('c++14')])\n",
        'int main(void) { return 0; }\n',
        {'main.cpp': 'int main() { std::vector<int> v(PRE); return (int)v.size() - 3; }\n',
         'pre.h': '#include <vector>\n#define PRE 3\n'}, 'run0', {}, {}),
    # a library given as a global link option reaches the link
    'library-as-global-link-option': (
        "global_link_options([opts.lib('m')])\nexecutable('prog', files=['main.c'])\n",
        '#include <math.h>\nint main(int c, char **v) { return cos((double)c) > 2.0; }\n', {}, 'run0', {}, {}),
    # another compiler driver and an explicitly chosen linker: warnings as errors must still accept clean code
    'clang-with-ld.bfd-warnings-as-errors': (
        "executable('prog', files=['main.c'], compile_options=[opts.warning('all', 'error')])\n",
        'int main(void) { return 0; }\n', {}, 'run0', {'CC': 'clang', 'LD': 'ld.bfd'}, {}),
}
PLACEMENTS = {
    # several global_options() / global_link_options() calls accumulate
    'global-then-more': "global_options([%(opt)s], lang='c')\nglobal_options([opts.define('UNRELATED')], lang=['c', 'c++'])\n"
                        "global_link_options([%(lopt)s])\nglobal_link_options(['-Wl,--as-needed'])\n"
                        "executable('prog', files=['main.c'])\n",
    'target': "executable('prog', files=['main.c'], compile_options=[%(opt)s], link_options=[%(lopt)s])\n",
    'global': "global_options([%(opt)s], lang='c')\nglobal_link_options([%(lopt)s])\nexecutable('prog', files=['main.c'])\n",
}
LINK_TOO = ('sanitize', 'pthread', 'debug', 'optimize-linktime', 'optimize-size-linktime', 'optimize-size', 'optimize-speed',
            'optimize-disable')


class SemanticOptions(Bounded):
    """Each semantic option, per target and as a global option, through the real configure pipeline of the tree under
    test, GNU make and the installed C compiler: the flags are accepted and the compiled program shows the documented
    effect."""
    target = 'bfg9000/tools/cc/compiler.py::CcBaseCompiler.flags'
    properties = ('C16',)
    reason = 'the oracle is the external compiler: runtime contract with the real tool'
    native_chunk = 1

    def native_inputs(self, case, alphabet, maxlen, rng, extra=0):
        for c in CASES:
            for p in PLACEMENTS:
                yield {'option': c, 'placement': p}
        for c in SCRIPT_CASES:
            yield {'option': c, 'placement': 'script'}

    def native_check(self, case, raw):
        import shutil, subprocess, tempfile
        from pyvc.interp import REPO
        cenv, prebuilt, body = {}, {}, None
        if raw['placement'] == 'script':
            body, main, files, expect, cenv, prebuilt = SCRIPT_CASES[raw['option']]
            opt = ''
        else:
            opt, main, files, expect = CASES[raw['option']]
        top = tempfile.mkdtemp(prefix='pyvc_ccopt_')
        try:
            src, b = top + '/src', top + '/b'

            def w(rel, text):
                fp = src + '/' + rel
                os.makedirs(os.path.dirname(fp), exist_ok=True)
                with open(fp, 'w') as f:
                    f.write(text)
            lopt = opt if raw['option'] in LINK_TOO else ''
            w('build.bfg', "project('p')\n" + (body if body is not None else
                                               PLACEMENTS[raw['placement']] % {'opt': opt, 'lopt': lopt}))
            w('main.c', main)
            for k, v in files.items():
                w(k, v)
            os.makedirs(top + '/bin')
            for name, mod in (('bfg9000', 'bfg9000.driver'), ('bfg9000-depfixer', 'bfg9000.depfixer')):
                lp = top + '/bin/' + name
                with open(lp, 'w') as f:
                    f.write("#!/bin/sh\nPYTHONPATH=%s exec /venv/bin/python -c 'import sys; sys.argv[0] = \"%s\"; "
                            "from %s import main; sys.exit(main())' \"$@\"\n" % (REPO, lp, mod))
                os.chmod(lp, 0o755)
            env = dict(os.environ, PATH=top + '/bin:/venv/bin:' + os.environ['PATH'])
            for k in ('MAKEFLAGS', 'CFLAGS', 'CPPFLAGS', 'LDFLAGS', 'LDLIBS'):
                env.pop(k, None)

            def run(cmd, **kw):
                return subprocess.run(cmd, env=env, capture_output=True, text=True, timeout=300, **kw)
            for k, v in cenv.items():
                if k == 'CC' and not shutil.which(v):
                    return None            # that compiler is not installed
                env[k] = v.format(src=src)
            for lib, csrc in prebuilt.items():
                w(lib + '.c', csrc)
                pr = run(['cc', '-shared', '-fPIC', '-o', src + '/' + lib, src + '/' + lib + '.c'])
                if pr.returncode != 0:
                    return None
            r = run([top + '/bin/bfg9000', 'configure-into', src, b, '--backend=make', '--no-resolve-packages'])
            if r.returncode != 0:
                return self.fail(case, raw, 'configure_succeeds', stderr=r.stderr[-500:])
            m = run(['make', '-C', b])
            out = (m.stdout + m.stderr)[-600:]
            if expect == 'fail':
                if m.returncode == 0:
                    return self.fail(case, raw, 'option_has_its_documented_effect', expected='the build fails on the warning', output=out)
                if 'unused' not in out:
                    return self.fail(case, raw, 'flags_accepted_by_the_compiler', output=out)
                return True
            if m.returncode != 0:
                return self.fail(case, raw, 'flags_accepted_by_the_compiler', output=out)
            if expect == 'debuginfo':
                d = run(['readelf', '-S', b + '/prog'])
                if '.debug_info' not in d.stdout:
                    return self.fail(case, raw, 'option_has_its_documented_effect', expected='.debug_info section in the program')
                return True
            p = run([b + '/prog'])
            if p.returncode != 0:
                return self.fail(case, raw, 'option_has_its_documented_effect', exit=p.returncode, output=out)
            return True
        finally:
            shutil.rmtree(top, ignore_errors=True)


def registry():
    return [SemanticOptions()]
