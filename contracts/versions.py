"""Contracts for bfg9000/versioning.py::simplify_specifiers (C17)."""
import ast
import z3
from pyvc import terms as T
from pyvc.contract import Contract, Lemma, LoopInv, Args
from pyvc.values import Sym, Obj, PList, opaque_sort, fresh_sym
from pyvc import models as MD
from specs.verorder import SpecModel

import bfg9000.versioning as V

Spec = opaque_sort('Spec')
Specs = z3.SeqSort(Spec)
Real = z3.RealSort()
opk = z3.Function('spec_op', Spec, T.Int)          # 0 '==', 1 '!=', 2 '>', 3 '>=', 4 '<', 5 '<=', anything else: invalid
ver = z3.Function('spec_version', Spec, Real)
OPS = ['==', '!=', '>', '>=', '<', '<=']
VV = z3.Const('v_any', Real)                       # an arbitrary version


def op_string(code):
    t = T.lit('~=')
    for k in reversed(range(len(OPS))):
        t = z3.If(code == k, T.lit(OPS[k]), t)
    return t


def spec_obj(e):
    o = Obj(SpecModel, {'operator': MD.mk_str(op_string(opk(e))), 'version': Sym(ver(e), 'real')})
    o.term = e
    return o


SPEC_TY = ('obj', spec_obj, Spec)


def accepts_term(code, w, v):
    return z3.If(code == 0, v == w, z3.If(code == 1, v != w, z3.If(code == 2, v > w, z3.If(code == 3, v >= w,
                 z3.If(code == 4, v < w, z3.If(code == 5, v <= w, z3.BoolVal(False)))))))


def accepts(s, v):
    """v in s, for an abstract element term or a SpecModel object"""
    if isinstance(s, Obj):
        if hasattr(s, 'term'):
            return accepts_term(opk(s.term), ver(s.term), v)
        op = s.attrs['operator']
        w = MD.lift(s.attrs['version'])
        return accepts_term(z3.IntVal(OPS.index(op)), w, v) if isinstance(op, str) else None
    return accepts_term(opk(s), ver(s), v)


# every one of the first n specifiers accepts v
ALLIN = T.RecDef('ALLIN', [Specs, Real], T.Bool, lambda sp, v: z3.BoolVal(True),
                 lambda sp, v, k, prev: z3.And(prev, accepts(sp[k], v)))
# v differs from the versions of the first n elements (used for the `ne` list, whose elements are all `!=`)
ALLNE = T.RecDef('ALLNE', [Specs, Real], T.Bool, lambda ne, v: z3.BoolVal(True),
                 lambda ne, v, k, prev: z3.And(prev, v != ver(ne[k])))
ALLNEOP = T.RecDef('ALLNEOP', [Specs], T.Bool, lambda ne: z3.BoolVal(True),
                   lambda ne, k, prev: z3.And(prev, opk(ne[k]) == 1))


def opt_accepts(s, v):
    return z3.BoolVal(True) if s is None else accepts(s, v)


def bound_params(s):
    """(present, op code, version) of an optional bound"""
    if s is None:
        return z3.BoolVal(False), z3.IntVal(0), z3.RealVal(0)
    if hasattr(s, 'term'):
        return z3.BoolVal(True), opk(s.term), ver(s.term)
    return z3.BoolVal(True), z3.IntVal(OPS.index(s.attrs['operator'])), MD.lift(s.attrs['version'])


def inb(t, hg, gop, gv, hl, lop, lv):
    return z3.And(z3.Implies(hg, accepts_term(gop, gv, t)), z3.Implies(hl, accepts_term(lop, lv, t)))


# v differs from every one of the first n elements of ne that is within the bounds
ALLNEF = T.RecDef('ALLNEF', [Specs, Real, T.Bool, T.Int, Real, T.Bool, T.Int, Real], T.Bool,
                  lambda ne, v, hg, gop, gv, hl, lop, lv: z3.BoolVal(True),
                  lambda ne, v, hg, gop, gv, hl, lop, lv, k, prev:
                  z3.And(prev, z3.Implies(inb(ver(ne[k]), hg, gop, gv, hl, lop, lv), v != ver(ne[k]))))

# for a version that is itself within the bounds, filtering the exclusions changes nothing
L_filter = Lemma('filtering_exclusions_outside_the_bounds_is_harmless',
                 [('ne', Specs), ('v', Real), ('hg', T.Bool), ('gop', T.Int), ('gv', Real), ('hl', T.Bool), ('lop', T.Int),
                  ('lv', Real), ('n', T.Int)],
                 lambda ne, v, hg, gop, gv, hl, lop, lv, n: z3.Implies(
                     inb(v, hg, gop, gv, hl, lop, lv),
                     ALLNEF(ne, v, hg, gop, gv, hl, lop, lv, n) == ALLNE(ne, v, n)),
                 induct=('nat', 'n'))


# some one of the first n elements of ne is within the bounds (the filtered list is non-empty)
ANYKEPT = T.RecDef('ANYKEPT', [Specs, T.Bool, T.Int, Real, T.Bool, T.Int, Real], T.Bool,
                   lambda ne, hg, gop, gv, hl, lop, lv: z3.BoolVal(False),
                   lambda ne, hg, gop, gv, hl, lop, lv, k, prev: z3.Or(prev, inb(ver(ne[k]), hg, gop, gv, hl, lop, lv)))

# when the bounds are the single point p (>= p and <= p), "some exclusion is kept" means "p is excluded"
L_point = Lemma('single_point_bounds', [('ne', Specs), ('pt', Real), ('n', T.Int)],
                lambda ne, pt, n: ANYKEPT(ne, z3.BoolVal(True), z3.IntVal(3), pt, z3.BoolVal(True), z3.IntVal(5), pt, n) ==
                z3.Not(ALLNEF(ne, pt, z3.BoolVal(True), z3.IntVal(3), pt, z3.BoolVal(True), z3.IntVal(5), pt, n)),
                induct=('nat', 'n'))


class FilteredNe:
    """`[i for i in ne if in_bounds(i.version, gt, lt)]` -- kept abstract: all we need is, for any version t,
    whether t differs from every kept element (library contract of a filtering comprehension)."""

    def __init__(self, ne, gt, lt):
        self.ne, self.gt, self.lt = ne, gt, lt
        self.params = bound_params(gt) + bound_params(lt)

    def all_differ(self, t):
        return ALLNEF(self.ne, t, *(self.params + (z3.Length(self.ne),)))

    def pyvc_truth(self, I):
        return ANYKEPT(self.ne, *(self.params + (z3.Length(self.ne),)))

    def point_lemma(self):
        return L_point.inst(ne=self.ne, pt=self.params[2], n=z3.Length(self.ne))

    def lemma_inst(self, t):
        names = ['hg', 'gop', 'gv', 'hl', 'lop', 'lv']
        return L_filter.inst(ne=self.ne, v=t, n=z3.Length(self.ne), **dict(zip(names, self.params)))


class ResultSet:
    """SpecifierSet built from the listed specifiers (verspec print/parse round trip: assumed)."""

    def __init__(self, parts, filtered=None):
        self.parts, self.filtered = [p for p in parts if p is not None], filtered

    def accepts(self, v):
        cs = [accepts(p, v) for p in self.parts]
        if self.filtered is not None:
            cs.append(self.filtered.all_differ(v))
        return T.AND(*cs)


class SimplifySpecifiers(Contract):
    target = 'bfg9000/versioning.py::simplify_specifiers'
    properties = ('C17',)
    expr_overrides = True
    raises_exact = False

    def params(self, cx, case):
        sp = z3.Const('spec', Specs)
        cx.ghost('v', VV)
        return {'spec': Sym(sp, ('seq', SPEC_TY))}

    def raises(self, a):
        return [(ValueError, z3.BoolVal(True))]

    def opaque_calls(self):
        # The model identifies the version *text* of a specifier with its position in the version order, so
        # Version(text) is that position itself.  Consequence (stated in the evidence): this contract cannot tell a
        # comparison of texts from a comparison of versions -- that is what SimplifyNative's multi-digit family
        # decides on the real objects (it found the text comparison repaired in /repo).
        return {V.Version: lambda I, a, k, node=None: a[0]}

    def ensures(self, a, r):
        sp = a.spec.e
        if not isinstance(r, ResultSet):
            return {'result_is_a_specifier_set': z3.BoolVal(False)}
        return {'result_accepts_exactly_the_versions_all_specifiers_accept':
                r.accepts(VV) == ALLIN(sp, VV, z3.Length(sp))}

    def exc_proof(self, p, a, exc, case):
        # a ValueError may only be raised when no version is accepted by all specifiers: shown for the arbitrary v
        sp = a.spec.e
        p.goal = z3.Not(ALLIN(sp, VV, z3.Length(sp)))
        self.hints(p, a)
        p.qed()

    def proof(self, p, a, r, name, case):
        self.hints(p, a)
        p.qed()

    def side_proof(self, p, a, kind, name, case):
        if kind == 'loop-maintain':
            sp = a.spec.e
            cs = _consts(p.assumptions)
            nes = [c for n_, c in cs.items() if n_.startswith('h_ne')]
            idx = [c for n_, c in cs.items() if n_.startswith('i_simplify_specifiers.')]
            for ne in nes:
                for i in idx:
                    x = z3.Unit(sp[i])
                    p.use(L_allne_ext.inst(ne=ne, x=x, v=VV, n=z3.Length(ne)))
                    p.use(L_allneop_ext.inst(ne=ne, x=x, n=z3.Length(ne)))
        p.qed()

    def hints(self, p, a):
        sp = a.spec.e
        for f in getattr(a, 'filtered', []):
            p.use(f.lemma_inst(VV))
            if f.gt is not None:
                p.use(f.lemma_inst(MD.lift(f.gt.attrs['version'])))
                p.use(f.point_lemma())
        for nme, c in sorted(_consts(p.assumptions).items()):
            if nme.startswith('i_simplify_specifiers.'):
                p.use(L_allin_mono.inst(sp=sp, v=VV, i=c + 1, n=z3.Length(sp) - (c + 1)))

    # ---- the loop --------------------------------------------------------------------------------------
    def loops(self):
        def opt_spec(I, nm, cur):
            if I.choose(2) == 0:
                return None
            e = T.fresh('h_' + nm, Spec)
            return spec_obj(e)

        def inv(I, loc, i, seq):
            sp = self.cur.spec.e
            gt, lt, eq, ne = loc['gt'], loc['lt'], loc['eq'], loc['ne']
            nee = MD.list_to_seq(I, ne, SPEC_TY)
            parts = T.AND(opt_accepts(gt, VV), opt_accepts(lt, VV), opt_accepts(eq, VV), ALLNE(nee, VV, z3.Length(nee)))
            shape = [ALLNEOP(nee, z3.Length(nee))]
            if gt is not None:
                shape.append(z3.Or(opk(gt.term) == 2, opk(gt.term) == 3))
            if lt is not None:
                shape.append(z3.Or(opk(lt.term) == 4, opk(lt.term) == 5))
            if eq is not None:
                shape.append(opk(eq.term) == 0)
            return {'accumulators_summarise_the_prefix': parts == ALLIN(sp, VV, i), 'accumulator_shapes': T.AND(*shape)}
        return {('simplify_specifiers', 1): LoopInv(inv, var_types={'gt': opt_spec, 'lt': opt_spec, 'eq': opt_spec,
                                                                     'ne': ('list', SPEC_TY), 'i': SPEC_TY})}

    # ---- expression-shape library contracts -----------------------------------------------------------------
    def expr_override(self, I, node, fr):
        if not isinstance(node, (ast.ListComp, ast.Call)):
            return NotImplemented
        try:
            src = ast.unparse(node)
        except Exception:       # noqa
            return NotImplemented
        loc = None
        for env in fr.envs:
            if 'gt' in env and 'ne' in env:
                loc = env
                break
        if loc is None:
            return NotImplemented
        if src == '[i for i in ne if in_bounds(i.version, gt, lt)]':
            ne = loc['ne']
            if isinstance(ne, FilteredNe):
                return NotImplemented
            f = FilteredNe(MD.list_to_seq(I, ne, SPEC_TY), loc['gt'], loc['lt'])
            I.path_args._g.setdefault('filtered', []).append(f)
            return f
        if src == 'any((i.version in eq for i in ne))' and isinstance(loc['ne'], FilteredNe):
            eq = loc['eq']
            # eq is an `==` specifier: a kept element's version is in eq  <=>  it equals eq.version
            return MD.mk_bool(z3.Not(loc['ne'].all_differ(MD.lift(eq.attrs['version']))))
        if src == 'SpecifierSet(str(eq))':
            return ResultSet([loc['eq']])
        if src == "SpecifierSet('=={}'.format(gt.version))":
            return ResultSet([Obj(SpecModel, {'operator': '==', 'version': loc['gt'].attrs['version']})])
        if src == "SpecifierSet(','.join((str(i) for i in chain(iterate(gt), iterate(lt), ne))))" and isinstance(loc['ne'], FilteredNe):
            return ResultSet([loc['gt'], loc['lt']], loc['ne'])
        return NotImplemented


def _consts(formulas):
    acc = {}
    for f in formulas:
        T.free_consts(f, acc)
    return acc


# if all of the first i+n accept v then all of the first i do
L_allin_mono = Lemma('allin_antitone', [('sp', Specs), ('v', Real), ('i', T.Int), ('n', T.Int)],
                     lambda sp, v, i, n: z3.Implies(z3.And(n >= 0, ALLIN(sp, v, i + n)), ALLIN(sp, v, i)),
                     induct=('nat', 'n'))


# the summaries of a list prefix do not change when the list grows
L_allne_ext = Lemma('allne_unchanged_by_append', [('ne', Specs), ('x', Specs), ('v', Real), ('n', T.Int)],
                    lambda ne, x, v, n: z3.Implies(n <= z3.Length(ne), ALLNE(z3.Concat(ne, x), v, n) == ALLNE(ne, v, n)),
                    induct=('nat', 'n'))
L_allneop_ext = Lemma('allneop_unchanged_by_append', [('ne', Specs), ('x', Specs), ('n', T.Int)],
                      lambda ne, x, n: z3.Implies(n <= z3.Length(ne), ALLNEOP(z3.Concat(ne, x), n) == ALLNEOP(ne, n)),
                      induct=('nat', 'n'))


def registry():
    return [SimplifySpecifiers()]


# ---- PkgConfigInfo.finalize: inherited requirements take part in the public/private merge ---------------------

import bfg9000.builtins.pkg_config as PC
from bfg9000 import options as _opts


class Finalize(Contract):
    """Requirements inherited from the libraries' package dependencies are added to Requires.private *before* the
    public and private lists are merged, so that a contradiction between a script requirement and an inherited one is
    seen by the merge (and rejected by the simplification that follows)."""
    target = 'bfg9000/builtins/pkg_config.py::PkgConfigInfo.finalize'
    properties = ('C17',)

    def params(self, cx, case):
        def rs(tag):
            return Obj(PC.RequirementSet, {'tag': tag})
        selfv = Obj(PC.PkgConfigInfo, {
            'name': 'pkg', 'desc_name': None, 'desc': None, 'url': None, 'version': None, 'lang': 'c',
            '_includes': None, '_libs': None, '_libs_private': None,
            '_requires': (rs('public'), PList([])), '_requires_private': (rs('private'), PList([])), '_conflicts': None,
            '_require_deps': PList([]), 'options': PList([]), 'link_options': PList([]), 'link_options_private': PList([]),
        })
        return {'self': selfv}

    def opaque_calls(self):
        def ev(name, result=None):
            def h(I, args, kwargs, node):
                I.events.append((name, args, dict(kwargs)))
                return result(I, args) if result else None
            return h
        RS = PC.RequirementSet
        return {
            RS.__dict__['copy']: ev('copy', lambda I, a: Obj(RS, {'tag': a[0].attrs['tag'], 'copy': True})),
            RS.__dict__['update']: ev('update'),
            RS.__dict__['merge_from']: ev('merge_from'),
            RS.__dict__['split']: ev('split', lambda I, a: PList([])),
            RS: ev('new', lambda I, a: Obj(RS, {'tag': 'fresh'})),
            _opts.ForwardOptions.__dict__['recurse'].__func__: ev('recurse', lambda I, a: Obj(_opts.ForwardOptions, {'libs': PList([]), 'link_options': PList([])})),
            PC.PkgConfigInfo.__dict__['_filter_packages'].__func__: ev('filter', lambda I, a: (Obj(RS, {'tag': 'auto'}), PList([]), PList([]))),
        }

    def ensures(self, a, r):
        ev = a.events
        upd = [i for i, e in enumerate(ev) if e[0] == 'update']
        mrg = [i for i, e in enumerate(ev) if e[0] == 'merge_from']
        ok_shape = len(upd) == 1 and len(mrg) == 1
        out = {'one_update_and_one_merge': z3.BoolVal(ok_shape)}
        if not ok_shape:
            return out
        u, m = ev[upd[0]], ev[mrg[0]]
        out['inherited_requirements_added_to_private'] = z3.BoolVal(
            u[1][0].attrs.get('tag') == 'private' and u[1][1].attrs.get('tag') == 'auto')
        out['public_merged_from_private'] = z3.BoolVal(
            m[1][0].attrs.get('tag') == 'public' and m[1][1] is u[1][0])
        out['inherited_requirements_are_merged_too'] = z3.BoolVal(upd[0] < mrg[0])
        sp = [e for e in ev if e[0] == 'split']
        out['requires_written_from_merged_sets'] = z3.BoolVal(
            len(sp) >= 2 and all(ev.index(e) > mrg[0] for e in sp[:2]) and sp[0][1][0] is m[1][0] and sp[1][1][0] is u[1][0])
        return out


def registry():
    return [SimplifySpecifiers(), Finalize()]


# ---- bounded stand-ins for C17 -------------------------------------------------------------------------------

from contracts.bounded_cmd import Bounded, arg_strings
import itertools as _it


class SimplifyNative(Bounded):
    """The real simplify_specifiers on every specifier set of up to three specifiers over three versions: the result
    accepts a probe version iff every specifier does; ValueError exactly when no probe version is accepted (the probe
    grid contains the versions, their midpoints and points beyond both ends, so it is complete for these sets)."""
    target = 'bfg9000/versioning.py::simplify_specifiers'
    properties = ('C17',)
    reason = 'cross-check of the deductive contract against the real verspec objects (and of "unsatisfiable => rejected", which the pointwise contract does not carry)'
    VERS = ['1.0', '1.5', '2.0']
    PROBES = ['0.5', '1.0', '1.2', '1.5', '1.7', '2.0', '2.5']
    # components with more than one digit: the order of versions is not the order of their spellings
    VERS2 = ['1.9', '1.10', '2.0']
    PROBES2 = ['1.8', '1.9', '1.9.5', '1.10', '1.11', '2.0', '2.1']
    OPS = ['==', '!=', '>', '>=', '<', '<=']

    def native_inputs(self, case, alphabet, maxlen, rng, extra=0):
        for vers in (self.VERS, self.VERS2):
            atoms = [o + v for o in self.OPS for v in vers]
            for n in (1, 2, 3):
                for t in _it.combinations(atoms, n):
                    yield {'spec': ','.join(t)}

    def native_check(self, case, raw):
        from bfg9000.versioning import simplify_specifiers, SpecifierSet, Version
        spec = SpecifierSet(raw['spec'])
        probes = self.PROBES2 if '1.9' in raw['spec'] or '1.10' in raw['spec'] else self.PROBES
        want = {p: Version(p) in spec for p in probes}
        try:
            res = simplify_specifiers(spec)
        except ValueError:
            if any(want.values()):
                return self.fail(case, raw, 'satisfiable_set_rejected', accepted=[p for p, b in want.items() if b])
            return True
        got = {p: Version(p) in res for p in probes}
        if got != want:
            return self.fail(case, raw, 'result_accepts_exactly_the_versions_all_specifiers_accept', result=str(res),
                             differs=[p for p in probes if got[p] != want[p]])
        if not any(want.values()):
            return self.fail(case, raw, 'unsatisfiable_set_not_rejected', result=str(res))
        return True


class PcWriterArgs(Bounded):
    """shell/syntax.py Writer (the .pc file writer): options and directories written in Syntax.shell are read back by
    the sh-style splitting pkg-config applies to Cflags/Libs (specs/sh.py) as exactly the declared words."""
    target = 'bfg9000/shell/syntax.py::Writer.write'
    properties = ('C17',)
    reason = 'same BasePath/jbos structure as the build-file writers; real pkg-config is only run in the thorough tier'
    alphabet = "a '$"

    def cases(self):
        return ['option', 'include-dir']

    def native_inputs(self, case, alphabet, maxlen, rng, extra=0):
        for w in arg_strings(alphabet, 3):
            if case == 'include-dir' and (not w or w.startswith('/') or w.startswith('~') or w.endswith(' ')):
                continue
            yield {'word': w}

    def native_check(self, case, raw):
        import io
        from bfg9000.shell.syntax import Writer, Syntax
        from bfg9000.path import Path, Root
        from specs.sh import sh_words
        buf = io.StringIO()
        w = Writer(buf)
        if case == 'option':
            w.write(raw['word'], Syntax.shell)
            want = raw['word']
        else:
            try:
                p = Path(raw['word'], Root.srcdir)
            except ValueError:
                return None
            w.write('-I' + p, Syntax.shell)
            want = '-I' + '/S D/' + p.suffix if p.suffix else None
            if want is None:
                return None
        text = buf.getvalue().replace('${srcdir}', '/S D')
        if '$' in raw['word']:
            return None         # `$` is not escaped by this writer: see DESIGN (unconfirmed candidate), not asserted here
        got = sh_words(text)
        if got != [want]:
            return self.fail(case, raw, 'word_reaches_consumer_unchanged', text=buf.getvalue(), read=got, expected=[want])
        return True


def registry():
    return [SimplifySpecifiers(), Finalize(), SimplifyNative(), PcWriterArgs()]
