"""Statement-level writers of both build-file formats (C01, C02, C03, C04): which escaping context every part of a
variable assignment, a rule / build statement is written in.  Fragments are abstract (contracts/fragments.py);
Wt[syntax](x) is the text Writer.write produces for x in that syntax (its reading is the Writer.write contract), so a
statement's postcondition is the exact sequence of fragment texts and separators the tool's grammar needs:
   make:   TARGET-syntax targets `:` DEPENDENCY-syntax prerequisites [` | ` order-only] / `target: NAME := value`
   ninja:  `build` OUTPUT-syntax outputs `: rule` INPUT-syntax inputs [` | ` implicit] [` || ` order-only]"""
import z3
from pyvc import terms as T
from pyvc.contract import Contract, LoopInv, Args
from pyvc.values import Sym, Obj, PList, PStream, fresh_sym
from pyvc import models as M
from contracts import fragments as FR
from contracts import lists as L

import bfg9000.backends.make.syntax as msyn
import bfg9000.backends.ninja.syntax as nsyn
import bfg9000.shell as bshell
from bfg9000.safe_str import literal

SafeStr, Bits, ELT = L.SafeStr, L.Bits, L.ELT


def frag(name):
    return Sym(z3.Const(name, SafeStr), ELT)


def frags(name):
    return PList(None, z3.Const(name, Bits), ELT)


def each(backend, syntax, xs, prefix=None):
    """text of write_each(xs, syntax[, prefix=literal(prefix)])"""
    fns = FR.frag_fns(backend, syntax, 'quote')
    n = z3.Length(xs)
    tw = L.TW(xs, L.SPACE, n)
    if prefix is not None:
        tw = z3.Concat(z3.If(n > 0, z3.Unit(L.literal_fragment(prefix)), z3.Empty(Bits)), tw)
    return fns.CW(tw, z3.Length(tw))


def one(backend, syntax, x):
    return FR.frag_fns(backend, syntax, 'quote').Wt(x)


def truthy(x):
    return z3.Function('truthy_SafeStr', SafeStr, z3.BoolSort())(x)


def make_writer(buf0):
    return Obj(msyn.Writer, {'stream': PStream(Sym(buf0, 'str')), 'path_vars': None})


def ninja_writer(buf0):
    return Obj(nsyn.Writer, {'stream': PStream(Sym(buf0, 'str')), 'path_vars': None, 'shell': bshell})


def written(a):
    from contracts.ninja import written as w
    return w(a.out, a.buf0)


class MakeWriteVariable(Contract):
    """NAME := value   and   target: NAME := value  -- the target of a target-specific assignment is in target
    position (TARGET syntax: `%` must be escaped there or the line becomes a pattern-specific assignment)."""
    target = 'bfg9000/backends/make/syntax.py::Makefile._write_variable'
    properties = ('C01', 'C04')

    def cases(self):
        return ['global', 'global/clean', 'target']

    def params(self, cx, case):
        buf0 = cx.ghost('buf0', z3.Const('buf0', T.Str))
        d = {'self': Obj(msyn.Makefile, {}), 'out': make_writer(buf0),
             'name': Obj(msyn.Variable, {'name': cx.str('vname')}), 'value': frags('value')}
        if case == 'global/clean':
            d['syntax'] = msyn.Syntax.clean
        if case == 'target':
            d['target'] = frag('tgt')
        return d

    def ensures(self, a, r):
        sx = a._d.get('syntax', msyn.Syntax.shell)
        body = z3.Concat(M.sym_str(a.name.attrs['name']), T.lit(' := '), each('make', sx, a.value.e), T.lit('\n'))
        tgt = a._d.get('target')
        if tgt is not None:
            body = z3.If(truthy(tgt.e), z3.Concat(one('make', msyn.Syntax.target, tgt.e), T.lit(': '), body), body)
        return {'assignment_line': written(a) == body}


class MakeWriteRule(Contract):
    """targets `:` prerequisites [` | ` order-only prerequisites], recipe lines each behind a newline and a tab."""
    target = 'bfg9000/backends/make/syntax.py::Makefile._write_rule'
    properties = ('C01', 'C03', 'C04')

    def cases(self):
        return ['no-recipe', 'recipe2', 'phony']

    def params(self, cx, case):
        buf0 = cx.ghost('buf0', z3.Const('buf0', T.Str))
        recipe = None
        if case == 'recipe2':
            recipe = PList([frags('cmd0'), frags('cmd1')])
        rule = Obj(msyn.Rule, {'targets': frags('targets'), 'deps': frags('deps'), 'order_only': frags('order_only'),
                               'recipe': recipe, 'variables': {}, 'phony': case == 'phony'})
        return {'self': Obj(msyn.Makefile, {}), 'out': make_writer(buf0), 'rule': rule}

    def ensures(self, a, r):
        S = msyn.Syntax
        at = a.rule.attrs
        parts = []
        if at['phony']:
            parts += [T.lit('.PHONY: '), each('make', S.dependency, at['targets'].e), T.lit('\n')]
        parts += [each('make', S.target, at['targets'].e), T.lit(':'),
                  each('make', S.dependency, at['deps'].e, ' '),
                  each('make', S.dependency, at['order_only'].e, ' | ')]
        if at['recipe'] is not None:
            for cmd in at['recipe'].items:
                parts += [T.lit('\n\t'), each('make', S.shell, cmd.e)]
        parts.append(T.lit('\n\n'))
        return {'rule_statement': written(a) == z3.Concat(*parts)}


class NinjaWriteVariable(Contract):
    target = 'bfg9000/backends/ninja/syntax.py::NinjaFile._write_variable'
    properties = ('C02', 'C04')

    def cases(self):
        return ['top', 'indented', 'clean']

    def params(self, cx, case):
        buf0 = cx.ghost('buf0', z3.Const('buf0', T.Str))
        d = {'self': Obj(nsyn.NinjaFile, {}), 'out': ninja_writer(buf0),
             'name': Obj(nsyn.Variable, {'name': cx.str('vname')}), 'value': frags('value')}
        if case == 'indented':
            d['indent'] = 1
            d['can_wrap'] = True
        if case == 'clean':
            d['syntax'] = nsyn.Syntax.clean
        return d

    def ensures(self, a, r):
        sx = a._d.get('syntax', nsyn.Syntax.shell)
        ind = T.lit('  ' * a._d.get('indent', 0))
        return {'binding_line': written(a) == z3.Concat(ind, M.sym_str(a.name.attrs['name']), T.lit(' = '),
                                                        each('ninja', sx, a.value.e), T.lit('\n'))}


class NinjaWriteBuild(Contract):
    """`build` outputs `: rule` inputs [` | ` implicit] [` || ` order-only], then one indented binding per variable:
    `description` in clean syntax (it is only shown), *every other* variable in shell syntax, whatever the order."""
    target = 'bfg9000/backends/ninja/syntax.py::NinjaFile._write_build'
    properties = ('C02', 'C03', 'C04')
    VARS = {'no-variables': [], 'description-first': ['description', 'output', 'cflags'],
            'description-last': ['cmd', 'description']}

    def cases(self):
        return list(self.VARS)

    def params(self, cx, case):
        from pyvc.values import PDict
        buf0 = cx.ghost('buf0', z3.Const('buf0', T.Str))
        vs = PDict()
        for n in self.VARS[case]:
            vs.d[nsyn.var(n)] = frags('value_of_' + n)
        build = Obj(nsyn.Build, {'outputs': frags('outputs'), 'rule': cx.str('rule'), 'inputs': frags('inputs'),
                                 'implicit': frags('implicit'), 'order_only': frags('order_only'),
                                 'variables': vs if self.VARS[case] else {}})
        return {'self': Obj(nsyn.NinjaFile, {}), 'out': ninja_writer(buf0), 'build': build}

    def ensures(self, a, r):
        S = nsyn.Syntax
        at = a.build.attrs
        parts = [T.lit('build '), each('ninja', S.output, at['outputs'].e), T.lit(': '), M.sym_str(at['rule']),
                 each('ninja', S.input, at['inputs'].e, ' '), each('ninja', S.input, at['implicit'].e, ' | '),
                 each('ninja', S.input, at['order_only'].e, ' || '), T.lit('\n')]
        vs = at['variables']
        for k, v in (vs.d.items() if hasattr(vs, 'd') else []):
            sx = S.clean if k.name == 'description' else S.shell
            parts += [T.lit('  ' + k.name + ' = '), each('ninja', sx, v.e), T.lit('\n')]
        return {'build_statement': written(a) == z3.Concat(*parts)}


class MakeWriteDefine(Contract):
    """define NAME / one line per command (each written like a recipe line) / endef"""
    target = 'bfg9000/backends/make/syntax.py::Makefile._write_define'
    properties = ('C01',)

    def params(self, cx, case):
        buf0 = cx.ghost('buf0', z3.Const('buf0', T.Str))
        return {'self': Obj(msyn.Makefile, {}), 'out': make_writer(buf0),
                'name': Obj(msyn.Variable, {'name': cx.str('vname')}), 'value': PList([frags('line0'), frags('line1')])}

    def ensures(self, a, r):
        S = msyn.Syntax
        parts = [T.lit('define '), M.sym_str(a.name.attrs['name']), T.lit('\n')]
        for line in a.value.items:
            parts += [each('make', S.shell, line.e), T.lit('\n')]
        parts.append(T.lit('endef\n\n'))
        return {'define_block': written(a) == z3.Concat(*parts)}


class MakeWriteFile(Contract):
    """Makefile.write: (1) the global variable sections -- the built-in path variables in clean syntax (they are only
    used inside other, quoted words), every other section in shell syntax; (2) the include statements at the end of the file: `[-]include ` + the file in TARGET syntax, one statement per line.  (Structure only: GNU make reads an include word
    like a target for blanks, `#`, `$` and wildcards, but keeps the backslash before `%` and `:` -- that is the known
    finding C07-C04-percent-or-colon-in-object-path, decided by the bounded IncrementalBuild run, not here.)  Defines and rules
    are empty in this contract (their statements are the contracts above)."""
    target = 'bfg9000/backends/make/syntax.py::Makefile.write'
    properties = ('C01', 'C04', 'C07')

    def cases(self):
        return ['includes', 'variables']

    def case_in_property(self, case, pid):
        return case == {'C01': 'variables'}.get(pid, 'includes')

    def params(self, cx, case):
        incs, secs, tvars = PList([]), {s_: PList([]) for s_ in msyn.Section}, PList([])
        if case == 'includes':
            incs = PList([Obj(msyn.Include, {'name': frag('inc0'), 'optional': cx.bool('opt0')}),
                          Obj(msyn.Include, {'name': frag('inc1'), 'optional': cx.bool('opt1')})])
        else:
            for sct in msyn.Section:
                secs[sct] = PList([(Obj(msyn.Variable, {'name': cx.str('name_' + sct.name)}), frags('value_' + sct.name))])
        me = Obj(msyn.Makefile, {'_bfgfile': cx.str('bfgfile'), '_gnu': True, 'path_vars': None,
                                 '_global_variables': secs, '_target_variables': tvars, '_defines': PList([]),
                                 '_rules': PList([]), '_includes': incs})
        return {'self': me, 'out': PStream('')}

    def ensures(self, a, r):
        text = M.sym_str(a.out.buf)
        tail = []
        if a.self.attrs['_includes'].items:
            for inc in a.self.attrs['_includes'].items:
                opt = T.zbool(M.lift(inc.attrs['optional']))
                tail += [z3.If(opt, T.lit('-include '), T.lit('include ')),
                         one('make', msyn.Syntax.target, inc.attrs['name'].e), T.lit('\n')]
            name = 'include_statements_in_target_syntax'
        else:
            for sct in msyn.Section:
                (vn, value), = a.self.attrs['_global_variables'][sct].items
                sx = msyn.Syntax.clean if sct == msyn.Section.path else msyn.Syntax.shell
                tail += [M.sym_str(vn.attrs['name']), T.lit(' := '), each('make', sx, value.e), T.lit('\n'), T.lit('\n')]
            name = 'variable_sections_in_their_syntax'
        tail = z3.Concat(*tail)
        n, k = z3.Length(text), z3.Length(tail)
        return {name: z3.And(n >= k, z3.Extract(text, n - k, k) == tail)}


class NinjaWriteRule(Contract):
    """rule NAME / indented bindings: command (shell syntax), then depfile, deps, description (clean syntax),
    generator, pool, restat -- each only when set."""
    target = 'bfg9000/backends/ninja/syntax.py::NinjaFile._write_rule'
    properties = ('C02',)

    def cases(self):
        return ['command-only', 'all-bindings']

    def params(self, cx, case):
        buf0 = cx.ghost('buf0', z3.Const('buf0', T.Str))
        full = case == 'all-bindings'
        rule = Obj(nsyn.Rule, {'command': frags('command'), 'depfile': frags('depfile') if full else None,
                               'deps': frags('deps') if full else None,
                               'description': frags('description') if full else None,
                               'generator': full, 'pool': frags('pool') if full else None, 'restat': full})
        return {'self': Obj(nsyn.NinjaFile, {}), 'out': ninja_writer(buf0), 'name': cx.str('rname'), 'rule': rule}

    def requires(self, a):
        # optional bindings given as lists are "set" when non-empty
        at = a.rule.attrs
        return z3.And(*[z3.Length(at[k].e) > 0 for k in ('depfile', 'deps', 'description', 'pool') if at[k] is not None] +
                      [z3.BoolVal(True)])

    def ensures(self, a, r):
        S = nsyn.Syntax
        at = a.rule.attrs

        def binding(name, value, syntax=S.shell):
            return [T.lit('  ' + name + ' = '), value, T.lit('\n')]
        parts = [T.lit('rule '), M.sym_str(a.name), T.lit('\n')] + binding('command', each('ninja', S.shell, at['command'].e))
        if at['depfile'] is not None:
            parts += binding('depfile', each('ninja', S.shell, at['depfile'].e))
        if at['deps'] is not None:
            parts += binding('deps', each('ninja', S.shell, at['deps'].e))
        if at['description'] is not None:
            parts += binding('description', each('ninja', S.clean, at['description'].e))
        if at['generator']:
            parts += binding('generator', T.lit('1'))
        if at['pool'] is not None:
            parts += binding('pool', each('ninja', S.shell, at['pool'].e))
        if at['restat']:
            parts += binding('restat', T.lit('1'))
        return {'rule_block': written(a) == z3.Concat(*parts)}


class NinjaWriteFile(Contract):
    """NinjaFile.write, the top-level variable sections: the built-in path variables are written in clean syntax (they
    are only used inside other, quoted words); the variables of every other section (tool commands, flags, other)
    in shell syntax.  Rules, builds and defaults are empty here (their statements are the contracts above)."""
    target = 'bfg9000/backends/ninja/syntax.py::NinjaFile.write'
    properties = ('C02',)

    def params(self, cx, case):
        secs = {}
        for sct in nsyn.Section:
            secs[sct] = PList([(Obj(nsyn.Variable, {'name': cx.str('name_' + sct.name)}), frags('value_' + sct.name))])
        me = Obj(nsyn.NinjaFile, {'_bfgfile': cx.str('bfgfile'), '_min_version': None, 'path_vars': None,
                                  '_variables': secs, '_rules': {}, '_builds': PList([]), '_defaults': PList([])})
        return {'self': me, 'out': PStream('')}

    def ensures(self, a, r):
        text = M.sym_str(a.out.buf)
        tail = []
        for sct in nsyn.Section:
            (name, value), = a.self.attrs['_variables'][sct].items
            sx = nsyn.Syntax.clean if sct == nsyn.Section.path else nsyn.Syntax.shell
            tail += [M.sym_str(name.attrs['name']), T.lit(' = '), each('ninja', sx, value.e), T.lit('\n'), T.lit('\n')]
        tail = z3.Concat(*tail)
        n, k = z3.Length(text), z3.Length(tail)
        return {'variable_sections_in_their_syntax': z3.And(n >= k, z3.Extract(text, n - k, k) == tail)}


def make_registry():
    return [MakeWriteVariable(), MakeWriteRule(), MakeWriteDefine(), MakeWriteFile()]


def ninja_registry():
    return [NinjaWriteVariable(), NinjaWriteBuild(), NinjaWriteRule(), NinjaWriteFile()]
