"""Contracts for bfg9000/shell/posix.py (sh quoting layer; carries C01, C02, C04, C15, C17)."""
import z3
from pyvc import terms as T
from pyvc.contract import Contract, Lemma, LoopInv
from pyvc.values import Sym, Obj, PList, fresh_sym
from pyvc import models as M
from pyvc import regex as RX
from specs.sh import sh, START, WORD, SQ, ESC, NOT_INERT, QUOTE

import bfg9000.shell.posix as posix
from bfg9000.safe_str import shell_literal, jbos

SH_ALPHABET = "a' \\$#\t\"*~=;é-"


def real_sh(line):
    """What /bin/sh makes of a command line (argv printed NUL-separated) -- the real consumer, used in replays."""
    import subprocess
    try:
        p = subprocess.run(['/bin/sh', '-c', 'printf "%s\\0" ' + line], capture_output=True, timeout=5)
        return [x.decode('utf-8', 'replace') for x in p.stdout.split(b'\0')[:-1]]
    except Exception as e:      # noqa
        return repr(e)


# ---- spec-side functions ------------------------------------------------------------------------

# the single-quote body escape:  '  ->  '\''      (what the *property* needs; the code must equal it)
sq_escape = T.make_cmap('sq_escape', lambda c: T.ite(T.eq(c, QUOTE), T.lit("'\\''"), T.unit(c)))


def sq(w):
    return sq_escape.out((0,), w)


# "some character of w is not inert in unquoted sh text"
any_not_inert = T.make_any('sh_any_not_inert', NOT_INERT)


def not_inert(w):
    return any_not_inert.state((0,), w)[0] == 1


def has_char(ch, w):
    """`ch in w` (the same fold the interpreter uses for the Python expression)."""
    return M.any_fold(T.CharClass.of(ch, repr(ch))).state((0,), w)[0] == 1


def has_crlf(w):
    return T.OR(has_char('\n', w), has_char('\r', w))


# characters whose presence/absence the quoting layer must preserve (later layers need to know that quoting
# introduces no line break, `#`, parenthesis or comma)
PRESERVED = '\n\r#(),'


def preserves(src, dst):
    return T.AND(*[has_char(ch, dst) == has_char(ch, src) for ch in PRESERVED])


def preserves_absence(src, dst):
    return T.AND(*[z3.Implies(z3.Not(has_char(ch, src)), z3.Not(has_char(ch, dst))) for ch in PRESERVED])


def code_bad_class():
    """The class the *code* uses to decide whether to quote (re-read from the imported module)."""
    fam = RX.classify(posix._bad_chars.pattern)
    if not isinstance(fam, RX.F1):
        from pyvc.interp import OutOfSubset
        raise OutOfSubset('posix._bad_chars is no longer a single character class')
    return fam.cls


def code_any_bad(w):
    return M.any_fold(code_bad_class()).state((0,), w)[0] == 1


def frag(w, content):
    """w, read by sh from a word-neutral state, appends exactly `content` to the current word, literally,
    and leaves the shell in the unquoted part of that word."""
    cs = []
    for q in (START, WORD):
        st, out = sh.run((q, 1), w)
        cs += [st[0] == WORD, st[1] == 1, out == content]
    return T.AND(*cs)


# ---- lemmas ---------------------------------------------------------------------------------------

def _sq_body_stmt(u):
    st, out = sh.run((SQ, 1), sq(u))
    return T.AND(st[0] == SQ, st[1] == 1, out == u)


L_sq_body = Lemma('sq_body', [('u', T.Str)], _sq_body_stmt, induct=('snoc', 'u'))


def is_pystr(u):
    """u is a Python string: no negative (marker) element"""
    return z3.Not(M.any_fold(T.NEGATIVE).state((0,), u)[0] == 1)


def _inert_stmt(u):
    # if no character of u is "not inert", sh reads u literally in the current word
    cs = []
    for q in (START, WORD):
        st, out = sh.run((q, 1), u)
        cs.append(z3.Implies(z3.And(is_pystr(u), z3.Not(not_inert(u))),
                             T.AND(st[0] == z3.If(z3.Length(u) > 0, z3.IntVal(WORD), z3.IntVal(q)),
                                   st[1] == 1, out == u)))
    return T.AND(*cs)


L_inert = Lemma('unquoted_inert', [('u', T.Str)], _inert_stmt, induct=('snoc', 'u'))


def _class_stmt(u):
    # the code's "needs no quoting" test implies the spec's "all inert": every sh-special character is in _bad_chars
    return z3.Implies(z3.Not(code_any_bad(u)), z3.Not(not_inert(u)))


L_class = Lemma('bad_chars_cover_sh_specials', [('u', T.Str)], _class_stmt, induct=('snoc', 'u'))

def _repl_stmt(u):
    # the code's  s.replace("'", r"'\''")  is the spec's single-quote body escape
    return M.replace_fold("'", "'\\''").out((0,), u) == sq(u)


L_repl = Lemma('replace_is_sq_escape', [('u', T.Str)], _repl_stmt, induct=('snoc', 'u'))

L_sq_crlf = Lemma('sq_escape_adds_no_linebreak', [('u', T.Str)],
                  lambda u: preserves(u, sq(u)),
                  induct=('snoc', 'u'))

LEMMAS = [L_sq_body, L_inert, L_class, L_repl, L_sq_crlf]


# ---- contracts ------------------------------------------------------------------------------------

class InnerQuoteInfoStr(Contract):
    target = 'bfg9000/shell/posix.py::inner_quote_info'
    properties = ('C01', 'C02', 'C04')
    doc = 'str / shell_literal argument'

    def cases(self):
        return ['str', 'shell_literal']

    def params(self, cx, case):
        if case == 'str':
            return {'s': cx.str('s')}
        return {'s': Obj(shell_literal, {'string': cx.str('s_string')})}

    def _content(self, a):
        return a.s.e if isinstance(a.s, Sym) else (T.lit(a.s) if isinstance(a.s, str) else None)

    def ensures(self, a, r):
        res, quoted = r
        if isinstance(a.s, Obj):
            return {'literal_passthrough': T.AND(M.sym_str(res) == M.sym_str(a.s.attrs['string']),
                                                 T.NOT(T.zbool(M.lift(quoted))))}
        s = self._content(a)
        q = T.zbool(M.lift(quoted))
        return {
            'plain_only_if_inert': z3.Implies(z3.Not(q), T.AND(z3.Length(s) > 0, z3.Not(not_inert(s)))),
            'quoted_body': z3.Implies(q, M.sym_str(res) == sq(s)),
            'plain_body': z3.Implies(z3.Not(q), M.sym_str(res) == s),
            'no_new_linebreaks': preserves(s, M.sym_str(res)),
        }

    def proof(self, p, a, r, name, case):
        if case == 'str':
            p.use(L_class.inst(u=self._content(a)))
            p.use(L_repl.inst(u=self._content(a)))
            p.use(L_sq_crlf.inst(u=self._content(a)))
        p.qed()

    def result_value(self, I, a):
        return (fresh_sym('iq_res', 'str'), fresh_sym('iq_quoted', 'bool'))

    def native_params(self, case):
        return ['s'] if case == 'str' else None

    def native_alphabet(self):
        return SH_ALPHABET

    def uses_lemmas(self):
        return ('bad_chars_cover_sh_specials', 'replace_is_sq_escape')


class WrapQuotes(Contract):
    target = 'bfg9000/shell/posix.py::wrap_quotes'
    properties = ('C01', 'C02', 'C04')

    def cases(self):
        return ['', 'pre/make', 'pre/ninja']

    def params(self, cx, case):
        cx.ghost('m', z3.Const('m', T.Str))
        if case:
            cx.ghost('pre', z3.Const('pre', T.Str))
            cx.ghost('pm', z3.Const('pm', T.Str))
            cx.ghost('reader', case.split('/')[1])
        return {'s': cx.str('s')}

    def mode(self, a):
        return a._g.get('reader')

    def requires(self, a):
        if self.mode(a) is None:
            return M.sym_str(a.s) == sq(a.m)
        pre, pm, m = a.pre, a.pm, a.m
        n = z3.Length(pre)
        pre_ok = z3.Or(z3.And(n == 0, pm == T.empty()),
                       z3.And(n >= 3, pre[0] == ord('$'), pre[n - 1] != QUOTE, reads(a.reader, pre, pm), _FR.all_markers(pm)))
        return T.AND(M.sym_str(a.s) == T.cat(pre, _FR.dol(sq(m))), pre_ok, z3.Not(has_crlf(m)), is_pystr(m))

    def ensures(self, a, r):
        if self.mode(a) is not None:
            ok, t = reader_out(a.reader, M.sym_str(r))
            return {'build_tool_reads_literal_text': ok, 'sh_reads_one_closed_word': frag(t, T.cat(a.pm, a.m))}
        return {'one_closed_word': frag(M.sym_str(r), a.m),
                'no_new_linebreaks': preserves_absence(M.sym_str(a.s), M.sym_str(r)),
                'first_char_is_quote_or_backslash': T.AND(z3.Length(M.sym_str(r)) > 0,
                                                          z3.Or(M.sym_str(r)[0] == QUOTE, M.sym_str(r)[0] == 92))}

    def result_value(self, I, a):
        return fresh_sym('wq', 'str')

    def native_params(self, case):
        return ['s']

    def native_alphabet(self):
        return SH_ALPHABET

    def native_params(self, case):
        return ['s'] if not case else None

    def native_inputs(self, case, alphabet, maxlen, rng, extra=0):
        if case:
            return
        # inputs satisfying the precondition: escaped forms of arbitrary strings
        from pyvc.native import strings
        for m in strings(alphabet, maxlen):
            yield {'s': m.replace("'", "'\\''"), '_m': m}

    def native_build(self, case, raw):
        from pyvc.contract import Args
        m = raw.get('_m')
        if m is None:
            m = raw['s'].replace("'\\''", "'")
            if m.replace("'", "'\\''") != raw['s']:
                return None
        return {'s': raw['s']}, Args({'s': raw['s']}, {'m': T.lit(m)})

    def uses_lemmas(self):
        return ('sq_body',)

    def proof(self, p, a, r, name, case):
        if case:
            return self.proof_pre(p, a, r, name)
        if name == 'no_new_linebreaks':
            return self.proof_crlf(p, a, r)
        if name == 'first_char_is_quote_or_backslash':
            m = a.m
            n = z3.Length(m)
            e, ne = p.cases('m', [('empty', n == 0), ('nonempty', n > 0)])
            e.subst('m', m, T.empty())
            e.qed()
            m0 = ne.let('m0', value=m[0])
            rest = ne.let('mrest', value=z3.Extract(m, z3.IntVal(1), n - 1))
            ne.subst('m', m, T.cat(T.unit(m0), rest))
            ne.qed()
            return
        m, s = a.m, M.sym_str(a.s)
        n = z3.Length(m)
        m0 = p.let('m0', value=m[0])
        ml = p.let('ml', value=m[n - 1])
        subs = p.cases('shape', [
            ('empty', n == 0),
            ('one', n == 1),
            ('long', n >= 2),
        ])
        # empty
        q = subs[0]
        q.subst('m', m, T.empty())
        q.qed()
        # one character
        q = subs[1]
        q.subst('m', m, T.unit(m0))
        for qq in q.cases('quote', [('q', m0 == QUOTE), ('nq', m0 != QUOTE)]):
            qq.qed()
        # at least two: m = [m0] . mid . [ml]
        q = subs[2]
        mid = q.let('mid', value=z3.Extract(m, z3.IntVal(1), n - 2))
        q.subst('m', m, T.cat(T.unit(m0), mid, T.unit(ml)))
        q.use(L_sq_body.inst(u=mid))
        rt = M.sym_str(r)
        heads = {'q': T.lit("\\''"), 'nq': T.cat(T.lit("'"), T.unit(m0))}
        tails = {'q': T.lit("'\\'"), 'nq': T.cat(T.unit(ml), T.lit("'"))}
        for f, q1 in zip(('q', 'nq'), q.cases('first', [('q', m0 == QUOTE), ('nq', m0 != QUOTE)])):
            for l, q2 in zip(('q', 'nq'), q1.cases('last', [('q', ml == QUOTE), ('nq', ml != QUOTE)])):
                q2.rewrite('result', rt, T.cat(heads[f], sq(mid), tails[l]))
                q2.qed()


    def proof_pre(self, p, a, r, name):
        rd = a.reader
        pre, pm, m = a.pre, a.pm, a.m
        s = M.sym_str(a.s)
        rt = M.sym_str(r)
        n = z3.Length(m)
        p.use(L_markers_sq.inst(u=pm))
        p.use(L_sq_crlf.inst(u=m))
        Q, BSL = T.lit("'"), T.lit("\\")
        with_pre, no_pre = p.cases('pre', [('some', z3.Length(pre) > 0), ('none', z3.Length(pre) == 0)])
        # --- a variable reference in front: only the end of the text can be a quote
        e, ne = with_pre.cases('m', [('empty', n == 0), ('nonempty', n > 0)])
        e.subst('m', m, T.empty())
        e.rewrite('result', rt, T.cat(Q, pre, Q))
        e.qed()
        ml = ne.let('ml', value=m[n - 1])
        mi = ne.let('minit', value=z3.Extract(m, z3.IntVal(0), n - 1))
        ne.subst('m', m, T.cat(mi, T.unit(ml)))
        ne.use(L_reader_dollar[rd].inst(u=sq(mi)))
        ne.use(L_sq_crlf.inst(u=mi))
        ne.use(L_sq_body.inst(u=mi))
        ql, nql = ne.cases('last', [('q', ml == QUOTE), ('nq', ml != QUOTE)])
        ql.rewrite('result', rt, T.cat(Q, pre, _FR.dol(sq(mi)), T.lit("'\\'")))
        ql.qed()
        nql.rewrite('result', rt, T.cat(Q, pre, _FR.dol(sq(mi)), _FR.dol(T.unit(ml)), Q))
        nql.qed()
        # --- no prefix: the text is the escaped form of m itself
        no_pre.subst('pre', pre, T.empty())
        e2, o2, l2 = no_pre.cases('shape', [('empty', n == 0), ('one', n == 1), ('long', n >= 2)])
        e2.subst('m', m, T.empty())
        e2.qed()
        m0 = o2.let('m0', value=m[0])
        o2.subst('m', m, T.unit(m0))
        for qq in o2.cases('c', [('q', m0 == QUOTE), ('d', m0 == ord('$')), ('o', z3.And(m0 != QUOTE, m0 != ord('$')))]):
            qq.qed()
        m0 = l2.let('m0', value=m[0])
        mlast = l2.let('ml', value=m[n - 1])
        mid = l2.let('mid', value=z3.Extract(m, z3.IntVal(1), n - 2))
        l2.subst('m', m, T.cat(T.unit(m0), mid, T.unit(mlast)))
        l2.use(L_reader_dollar[rd].inst(u=sq(mid)))
        l2.use(L_sq_crlf.inst(u=mid))
        l2.use(L_sq_body.inst(u=mid))
        absorb_all(l2, mid)
        heads = {'q': T.lit("\\''"), 'nq': T.cat(Q, _FR.dol(T.unit(m0)))}
        tails = {'q': T.lit("'\\'"), 'nq': T.cat(_FR.dol(T.unit(mlast)), Q)}
        for f, q1 in zip(('q', 'nq'), l2.cases('first', [('q', m0 == QUOTE), ('nq', m0 != QUOTE)])):
            for l, q2 in zip(('q', 'nq'), q1.cases('last', [('q', mlast == QUOTE), ('nq', mlast != QUOTE)])):
                q2.rewrite('result', rt, T.cat(heads[f], _FR.dol(sq(mid)), tails[l]))
                q2.qed()

    def proof_crlf(self, p, a, r):
        # decompose s = [s0] . mid . [sl]; every slice the code takes is then a concatenation of these parts
        s = M.sym_str(a.s)
        n = z3.Length(s)
        rt = M.sym_str(r)
        short, long_ = p.cases('len', [('short', n < 3), ('long', n >= 3)])
        short.qed()
        s0 = long_.let('s0', value=s[0])
        sl = long_.let('sl', value=s[n - 1])
        mid = long_.let('smid', value=z3.Extract(s, z3.IntVal(1), n - 2))
        head = z3.If(s0 == QUOTE, T.empty(), T.cat(T.lit("'"), T.unit(s0)))
        tail = z3.If(sl == QUOTE, T.empty(), T.cat(T.unit(sl), T.lit("'")))
        long_.rewrite('result', rt, T.cat(head, mid, tail))
        long_.subst('s', s, T.cat(T.unit(s0), mid, T.unit(sl)))
        long_.qed()


# ---- wrap_quotes on text that was already escaped for the build file (`$` doubled) and that may start with a
# ---- reference to a path variable: the shape Writer.write produces for BasePath fragments ------------------------

from specs import make as _MK
from specs import ninja as _NJ
from contracts import fragments as _FR

READERS = {
    'make': (_MK.mk_recipe, (_MK.N, 1, 0), lambda st: z3.And(st[0] == _MK.N, st[1] == 1, st[2] == 0)),
    'ninja': (_NJ.nj_value, (_NJ.NORMAL, 1), lambda st: z3.And(st[0] == _NJ.NORMAL, st[1] == 1)),
}


def reads(reader, text, content):
    """the build tool reads `text` (from a neutral state) as exactly the literal `content`, ending neutral"""
    fold, init, neutral = READERS[reader]
    st, out = fold.run(init, text)
    return z3.And(neutral(st), out == content)


def reader_out(reader, text):
    fold, init, neutral = READERS[reader]
    st, out = fold.run(init, text)
    return neutral(st), out


_ABSORB = {}


def absorb(cls):
    """once a character of the class has been seen, the `any` fold stays at 1 (needed when a string is taken apart
    from the front: the fold then continues from a symbolic state)"""
    f = M.any_fold(cls)
    if f.name not in _ABSORB:
        _ABSORB[f.name] = Lemma('any_fold_is_absorbing_%s' % f.name, [('u', T.Str)],
                                lambda u, f=f: f.state((1,), u)[0] == 1, induct=('snoc', 'u'))
    return _ABSORB[f.name]


def absorb_all(p, u):
    for cls in (T.CharClass.of('\n', repr('\n')), T.CharClass.of('\r', repr('\r')), T.NEGATIVE):
        p.use(absorb(cls).inst(u=u))


def _reader_dollar_lemma(reader):
    return Lemma('%s_reads_dollar_doubled_text_back' % reader, [('u', T.Str)],
                 lambda u, r=reader: z3.Implies(z3.Not(has_crlf(u)), reads(r, _FR.dol(u), u)), induct=('snoc', 'u'))


L_reader_dollar = {r: _reader_dollar_lemma(r) for r in READERS}

L_markers_sq = Lemma('markers_are_literal_inside_quotes', [('u', T.Str)],
                     lambda u: z3.Implies(_FR.all_markers(u),
                                          T.AND(sh.run((SQ, 1), u)[0][0] == SQ, sh.run((SQ, 1), u)[0][1] == 1,
                                                sh.run((SQ, 1), u)[1] == u)), induct=('snoc', 'u'))


# a string without a quote character is its own single-quote escape; inert strings contain no quote
L_sq_identity = Lemma('sq_escape_is_identity_without_quotes', [('u', T.Str)],
                      lambda u: z3.Implies(z3.Not(has_char("'", u)), sq(u) == u), induct=('snoc', 'u'))
L_inert_no_quote = Lemma('inert_text_has_no_quote', [('u', T.Str)],
                         lambda u: z3.Implies(z3.Not(not_inert(u)), z3.Not(has_char("'", u))), induct=('snoc', 'u'))


class QuoteInfoStr(Contract):
    """quote_info on a plain string or shell_literal: the top-level C01/C02 obligation for one argument."""
    target = 'bfg9000/shell/posix.py::quote_info'
    properties = ('C01', 'C02', 'C04')

    def cases(self):
        return ['str', 'shell_literal']

    def params(self, cx, case):
        if case == 'str':
            return {'s': cx.str('s')}
        return {'s': Obj(shell_literal, {'string': cx.str('s_string')})}

    def ensures(self, a, r):
        res, quoted = r
        if isinstance(a.s, Obj):
            return {'literal_passthrough': M.sym_str(res) == M.sym_str(a.s.attrs['string'])}
        s = M.sym_str(a.s)
        return {'sh_reads_back_exactly_s': frag(M.sym_str(res), s),
                'no_new_linebreaks': preserves_absence(s, M.sym_str(res)),
                'first_char': T.AND(z3.Length(M.sym_str(res)) > 0,
                                    z3.Or(M.sym_str(res)[0] == QUOTE, M.sym_str(res)[0] == 92,
                                          z3.And(z3.Length(s) > 0, M.sym_str(res)[0] == s[0])))}

    def result_value(self, I, a):
        return (fresh_sym('qi_res', 'str'), fresh_sym('qi_quoted', 'bool'))

    def native_params(self, case):
        return ['s'] if case == 'str' else None

    def native_alphabet(self):
        return SH_ALPHABET

    def uses_lemmas(self):
        return ('unquoted_inert', 'sq_body', 'bad_chars_cover_sh_specials', 'replace_is_sq_escape')

    def native_explain(self, case, raw, res):
        from specs.sh import py_lex
        return {'sh_spec_reads': py_lex(res[0]), 'real_sh_reads': real_sh(res[0])}

    def ghosts_for(self, callee, a, frame, site):
        if isinstance(callee, WrapQuotes):
            # the string handed to wrap_quotes is the escaped form of our own argument
            return {'m': M.sym_str(self.cur.s)}
        return None

    def proof(self, p, a, r, name, case):
        if case == 'str':
            p.use(L_inert.inst(u=M.sym_str(a.s)))
        p.qed()


def registry():
    cons = [InnerQuoteInfoStr(), WrapQuotes(), QuoteInfoStr()]
    return cons
