"""Finding on the UNCHANGED tree: state that a toolchain file sets on the
environment other than environment variables (target_platform(), and likewise
install_dirs()) is saved in .bfg_environ and NOT reset by Environment.reload()
when regenerating.  Removing the target_platform() call from the toolchain file
and regenerating keeps the old target platform, whereas a fresh configure with
the same (edited) toolchain file uses the host platform."""
import os, shutil, subprocess, sys, tempfile, time

PY = sys.executable
MAIN = ("import sys; from bfg9000.driver import main; "
        "sys.argv[0] = 'bfg9000'; sys.exit(main())")


def bfg(*args, cwd):
    r = subprocess.run([PY, '-c', MAIN, *args], cwd=cwd,
                       stdout=subprocess.PIPE, stderr=subprocess.STDOUT,
                       universal_newlines=True)
    assert r.returncode == 0, r.stdout


def write(p, s):
    os.makedirs(os.path.dirname(p), exist_ok=True)
    with open(p, 'w') as f:
        f.write(s)


def read(p):
    with open(p) as f:
        return f.read()


d = tempfile.mkdtemp(prefix='c08_f3_')
src, b, b2 = (os.path.join(d, i) for i in ('src', 'b', 'b2'))
tc = os.path.join(d, 'toolchain.bfg')
write(src + '/build.bfg',
      "project('p', '1.0')\n"
      "command('plat', cmd=['echo', env.target_platform.name])\n")
write(tc, "target_platform('winnt', 'x86_64')\n")
common = ['--backend=make', '--no-resolve-packages', '--toolchain=' + tc]
bfg('configure', b, *common, cwd=src)
assert 'echo winnt' in read(b + '/Makefile')
time.sleep(0.05)
write(tc, "# no cross-compilation any more\n")
bfg('regenerate', '--lazy', b, cwd=b)   # what the Makefile's rule runs
bfg('configure', b2, *common, cwd=src)
reg, fresh = read(b + '/Makefile'), read(b2 + '/Makefile')
shutil.rmtree(d, ignore_errors=True)
print('regenerated still targets winnt:', 'echo winnt' in reg)
print('fresh targets winnt:', 'echo winnt' in fresh)
assert reg == fresh, 'regenerated Makefile differs from a fresh configure'
