"""Finding on the UNCHANGED tree (make backend): a project with options.bfg and
a cached find_files().  Deleting options.bfg (legal: a fresh configure works
without it) and running make loops forever: the empty rule for the missing
options.bfg makes the Makefile out of date, `regenerate --lazy` treats the
missing input as mtime 0 (getmtime_ns(strict=False)), finds the find results
unchanged, touches the Makefile and aborts; make re-executes and starts over.
When interrupted, make deletes the Makefile.  Expected: one regeneration whose
Makefile equals a fresh configure (without options.bfg as an input)."""
import os, shutil, subprocess, sys, tempfile, time

PY = sys.executable
MAIN = ("import sys; from bfg9000.driver import main; "
        "sys.argv[0] = 'bfg9000'; sys.exit(main())")


def bfg(*args, cwd):
    r = subprocess.run([PY, '-c', MAIN, *args], cwd=cwd,
                       stdout=subprocess.PIPE, stderr=subprocess.STDOUT,
                       universal_newlines=True)
    assert r.returncode == 0, r.stdout


def write(p, s):
    os.makedirs(os.path.dirname(p), exist_ok=True)
    with open(p, 'w') as f:
        f.write(s)


d = tempfile.mkdtemp(prefix='c08_f1_')
src, b = os.path.join(d, 'src'), os.path.join(d, 'b')
write(src + '/build.bfg', "project('p', '1.0')\n"
                          "copy_files(find_files('data/*.txt'))\n")
write(src + '/options.bfg', "argument('foo', default='x')\n")
write(src + '/data/a.txt', 'a')
wrapper = os.path.join(d, 'bfg9000-wrapper')
write(wrapper, '#!/bin/sh\nexec {} -c "{}" "$@"\n'.format(PY, MAIN))
os.chmod(wrapper, 0o755)
bfg('configure', b, '--backend=make', '--no-resolve-packages', cwd=src)
time.sleep(0.05)
os.remove(src + '/options.bfg')
r = subprocess.run(['timeout', '15', 'make', '-C', b, 'BFG9000=' + wrapper],
                   stdout=subprocess.PIPE, stderr=subprocess.STDOUT,
                   universal_newlines=True)
n = r.stdout.count('regenerate --lazy')
print('make exit status', r.returncode, '- regenerate ran', n, 'times')
print('Makefile still exists:', os.path.exists(b + '/Makefile'))
shutil.rmtree(d, ignore_errors=True)
assert r.returncode == 0 and n == 1, 'regeneration does not converge'
