"""Finding on the UNCHANGED tree: find_files('gen/*.txt') where gen/ does not
exist at configure time.  path.walk() returns at once for a missing directory,
so nothing is recorded in find_dirs and no .bfg_find_deps is written.  Creating
gen/ with a matching file later never triggers regeneration: the Makefile
differs from a fresh configure."""
import os, shutil, subprocess, sys, tempfile, time

PY = sys.executable
MAIN = ("import sys; from bfg9000.driver import main; "
        "sys.argv[0] = 'bfg9000'; sys.exit(main())")


def bfg(*args, cwd):
    r = subprocess.run([PY, '-c', MAIN, *args], cwd=cwd,
                       stdout=subprocess.PIPE, stderr=subprocess.STDOUT,
                       universal_newlines=True)
    assert r.returncode == 0, r.stdout


def write(p, s):
    os.makedirs(os.path.dirname(p), exist_ok=True)
    with open(p, 'w') as f:
        f.write(s)


def read(p):
    with open(p) as f:
        return f.read()


d = tempfile.mkdtemp(prefix='c08_f2_')
src, b, b2 = (os.path.join(d, i) for i in ('src', 'b', 'b2'))
write(src + '/build.bfg', "project('p', '1.0')\n"
                          "copy_files(find_files('gen/*.txt'))\n")
wrapper = os.path.join(d, 'bfg9000-wrapper')
write(wrapper, '#!/bin/sh\nexec {} -c "{}" "$@"\n'.format(PY, MAIN))
os.chmod(wrapper, 0o755)
bfg('configure', b, '--backend=make', '--no-resolve-packages', cwd=src)
print('depfile written:', os.path.exists(b + '/.bfg_find_deps'))
time.sleep(0.05)
write(src + '/gen/a.txt', 'a')
r = subprocess.run(['timeout', '60', 'make', '-C', b, 'BFG9000=' + wrapper],
                   stdout=subprocess.PIPE, stderr=subprocess.STDOUT,
                   universal_newlines=True)
print(r.stdout)
bfg('configure', b2, '--backend=make', '--no-resolve-packages', cwd=src)
same = read(b + '/Makefile') == read(b2 + '/Makefile')
shutil.rmtree(d, ignore_errors=True)
assert same, 'Makefile after make differs from a fresh configure'
