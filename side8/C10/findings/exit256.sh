#!/bin/sh
# Finding on the UNCHANGED tree: a build script that ends with exit(256) (any
# multiple of 256) makes `bfg9000 regenerate` log an error but terminate with
# process status 0 (driver returns e.code == 256, sys.exit(256) is truncated
# to 0 by the OS).  make/ninja then treat the failed regeneration as a success
# and go on with the stale build file.
# usage: sh exit256.sh <tree>   (default /tmp/seed8_C10)
TREE=${1:-/tmp/seed8_C10}
T=$(mktemp -d /tmp/c10finding-XXXXXX); cd "$T" || exit 2
mkdir src
printf "project('hello', version='1.0')\ncopy_file('a.txt')\n" > src/build.bfg
echo hi > src/a.txt; echo hi > src/b.txt
cat > bfg9000 <<EOS
#!/bin/sh
exec env PYTHONPATH=$TREE /venv/bin/python -c 'import sys; from bfg9000.driver import main; sys.argv[0]="$T/bfg9000"; sys.exit(main())' "\$@"
EOS
chmod +x bfg9000
./bfg9000 configure-into src build --backend=make --no-resolve-packages 2>/dev/null
sleep 0.1
printf "project('hello', version='1.0')\ncopy_file('a.txt')\ncopy_file('b.txt')\nexit(256)\n" > src/build.bfg
./bfg9000 regenerate --lazy build; echo "bfg9000 regenerate status: $?   (expected non-zero)"
(cd build && make Makefile); echo "make status: $?"
echo "mentions of b.txt in Makefile: $(grep -c b.txt build/Makefile)   (stale if 0)"
rm -rf "$T"
