# FINDING on the UNCHANGED tree: forwarded libraries are de-duplicated keeping
# the FIRST occurrence (options.option_list.append), so a static library that
# is both listed early and required (forwarded) by a later static library ends
# up before its user on the link line, and the link fails.
#
#   b = static_library('sub/b/b', files=['b.c'])
#   c = static_library('c', files=['c.c'], libs=[b])        # c needs b
#   a = static_library('deep/a', files=['a.c'], libs=[b, c])  # lists b first
#   executable('bin/main', files=['main.c'], libs=[a])
#
# Generated link:  cc ./main.o deep/liba.a sub/b/libb.a ./libc.a -o bin/main
#   -> ld: ./libc.a(c.o): in function `c': undefined reference to `b'
# (with libs=[c, b] in `a` the link works).  The simplest form is
# executable(..., libs=[b, c]) with c = static_library(..., libs=[b]).
#
# Run: PYTHONPATH=<tree> /venv/bin/python static_order_dedup.py   (exit 1 = finding reproduced)
import os, shutil, subprocess, sys, tempfile

FILES = {
    'build.bfg': '''
project('p', intermediate_dirs=False)
b = static_library('sub/b/b', files=['b.c'])
c = static_library('c', files=['c.c'], libs=[b])
a = static_library('deep/a', files=['a.c'], libs=[b, c])
executable('bin/main', files=['main.c'], libs=[a])
''',
    'b.c': 'int b(void){return 1;}\n',
    'c.c': 'int b(void);\nint c(void){return b()+1;}\n',
    'a.c': 'int c(void);\nint a(void){return c()+1;}\n',
    'main.c': 'int a(void);\nint main(void){return a()==3?0:1;}\n',
}

tmp = tempfile.mkdtemp(prefix='bfg_finding_')
try:
    src = os.path.join(tmp, 'src'); os.makedirs(src)
    for k, v in FILES.items():
        open(os.path.join(src, k), 'w').write(v)
    env = dict(os.environ)
    bindir = os.path.dirname(sys.executable)
    env['PATH'] = bindir + os.pathsep + env.get('PATH', '')
    build = os.path.join(tmp, 'build')
    subprocess.check_call([os.path.join(bindir, 'bfg9000'), 'configure', build,
                           '--backend=make', '--no-resolve-packages'],
                          cwd=src, env=env, stdout=subprocess.DEVNULL)
    p = subprocess.run(['make'], cwd=build, env=env, stdout=subprocess.PIPE,
                       stderr=subprocess.STDOUT, universal_newlines=True)
    print(p.stdout)
    sys.exit(0 if p.returncode == 0 else 1)
finally:
    shutil.rmtree(tmp, ignore_errors=True)
