"""Probes on the UNCHANGED tree (run: PYTHONPATH=<tree> /venv/bin/python probe_misc.py).
Prints observations; does not assert."""
import os
import shutil
import subprocess
import sys
import tempfile

from bfg9000.backends.make.writer import directory_deps
from bfg9000.driver import main as bfg_main
from bfg9000.path import Path

# F3: a directory literally named '~' (reachable as './~/x.txt'): parent() and
# append() re-run expanduser, so the directory turns into $HOME.
p = Path('./~/x.txt')
print('F3 suffix           :', p.suffix)
print('F3 parent()         :', repr(p.parent()))
print('F3 directory_deps   :', repr(directory_deps([p])))
print('F3 Path(".").append("~"):', repr(Path('.').append('~')))

make = shutil.which('make') or shutil.which('gmake')
if not make:
    sys.exit(0)


def configure(src, bld):
    argv, cwd = sys.argv, os.getcwd()
    try:
        os.chdir(src)
        sys.argv = ['bfg9000', 'configure', bld, '--backend=make',
                    '--no-resolve-packages']
        return bfg_main()
    finally:
        os.chdir(cwd)
        sys.argv = argv


def run(args, cwd):
    p = subprocess.run(args, cwd=cwd, stdout=subprocess.PIPE,
                       stderr=subprocess.STDOUT, universal_newlines=True)
    return p.returncode, p.stdout


# F6: source directory with a space: `$(srcdir)/build.bfg` is split into two
# prerequisites of the Makefile, so make always tries to regenerate.
with tempfile.TemporaryDirectory() as d:
    src = os.path.join(d, 'src dir')
    bld = os.path.join(d, 'build')
    os.makedirs(src)
    with open(os.path.join(src, 'build.bfg'), 'w') as f:
        f.write("project('p')\n"
                "default(build_step('x.txt', cmd=['touch', "
                "build_step.output]))\n")
    configure(src, bld)
    print('F6 make in a build of "src dir":', run([make], bld))

# F7: a step with two outputs is never up to date for `make -q` (the outputs
# are older than the .stamp file they depend on, so `@:` runs every time).
with tempfile.TemporaryDirectory() as d:
    src = os.path.join(d, 'src')
    bld = os.path.join(d, 'build')
    os.makedirs(src)
    with open(os.path.join(src, 'build.bfg'), 'w') as f:
        f.write("project('p')\n"
                "default(build_step(['a.txt', 'b.txt'], cmd=['touch', "
                "build_step.output]))\n")
    configure(src, bld)
    print('F7 make      :', run([make], bld))
    print('F7 make -q   :', run([make, '-q'], bld))
    print('F7 make -n   :', run([make, '-n'], bld))
