"""Probe: how does GNU make treat `\\%` in an `include` directive?"""
import os
import subprocess
import tempfile

with tempfile.TemporaryDirectory() as d:
    with open(os.path.join(d, 'a%b.d'), 'w') as f:
        f.write('$(info included-percent)\n')
    with open(os.path.join(d, 'c d.d'), 'w') as f:
        f.write('$(info included-space)\n')
    for text in ['-include a\\%b.d\ninclude c\\ d.d\nall:;\n',
                 '-include a%b.d\nall:;\n']:
        with open(os.path.join(d, 'Makefile'), 'w') as f:
            f.write(text)
        print(repr(text))
        print(subprocess.run(['make', '-C', d], stdout=subprocess.PIPE,
                             stderr=subprocess.STDOUT,
                             universal_newlines=True).stdout)
