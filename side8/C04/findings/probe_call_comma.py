"""FINDING probe (unchanged tree): a path with a comma passed as an argument of a
Make $(call ...) (the way link steps pass their input files) is written with `$,`,
but GNU make splits $(call) arguments at that comma anyway."""
import os
import shutil
import subprocess
import sys
import tempfile
from io import StringIO

from bfg9000.backends.make.syntax import Call, Makefile, qvar, var
from bfg9000.path import Path

src = Path('in,dir/a,b.txt')   # build-dir file; ',' in the dir and the name
dst = Path('out dir/res.txt')

mf = Makefile('build.bfg', gnu=True)
# Same shape as RULE_CC_LINK: the inputs arrive as $(1), the output as '$@'.
mf.define('RULE_GEN', [['cp', var('1'), qvar('@')]])
mf.rule(target=dst, deps=[src], recipe=Call('RULE_GEN', [src]))
mf.rule(target=src)

buf = StringIO()
mf.write(buf)
text = buf.getvalue()

call_line = [i for i in text.split('\n') if '$(call RULE_GEN' in i]
assert len(call_line) == 1, text
arg = call_line[0].split('$(call RULE_GEN,', 1)[1].rsplit(')', 1)[0]
# Every comma of the path has to be written as `$,` - a bare comma would split
# the path into several arguments of $(call).
bare = arg.replace('$,', '')
ok_text = ',' not in bare and arg.count('$,') == 2

ok_make = True
make = shutil.which('make') or shutil.which('gmake')
if make:
    with tempfile.TemporaryDirectory() as d:
        os.makedirs(os.path.join(d, 'in,dir'))
        os.makedirs(os.path.join(d, 'out dir'))
        with open(os.path.join(d, 'in,dir', 'a,b.txt'), 'w') as f:
            f.write('payload\n')
        with open(os.path.join(d, 'Makefile'), 'w') as f:
            f.write(text)
        p = subprocess.run([make, '-C', d, 'out dir/res.txt'],
                           stdout=subprocess.PIPE, stderr=subprocess.STDOUT,
                           universal_newlines=True)
        out = os.path.join(d, 'out dir', 'res.txt')
        ok_make = (p.returncode == 0 and os.path.exists(out) and
                   open(out).read() == 'payload\n')
        if not ok_make:
            print(p.stdout)

print('call argument:', arg)
assert ok_text, 'comma of a path is not escaped inside $(call): ' + arg
assert ok_make, 'make did not copy the file named by the path'
print('ok')
sys.exit(0)
