import os, sys, tempfile
from bfg9000 import build
from bfg9000.environment import Environment
from bfg9000.path import abspath, InstallRoot, Path, Root


def make_project(files):
    top = tempfile.mkdtemp()
    src = os.path.join(top, 'src')
    bld = os.path.join(top, 'bld')
    os.makedirs(bld)
    for name, text in files.items():
        p = os.path.join(src, name)
        os.makedirs(os.path.dirname(p), exist_ok=True)
        with open(p, 'w') as f:
            f.write(text)
    return top, src, bld


def configure(src, bld, extra_args=None):
    env = Environment(abspath('/bfgdir'), 'make', None,
                      abspath(src, directory=True),
                      abspath(bld, directory=True))
    env.finalize({InstallRoot.prefix: abspath('/prefix')}, (True, False),
                 False, extra_args or [])
    cwd = os.getcwd()
    try:
        return env, build.configure_build(env)
    finally:
        os.chdir(cwd)
