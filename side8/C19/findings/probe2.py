# (a) a variable called `context` (or `path` for submodule) cannot be exported
# (b) a missing options.bfg of a submodule silently truncates the root options
import sys, os, traceback
sys.path.insert(0, os.path.dirname(__file__))
from harness import *

top, src, bld = make_project({
    'build.bfg': "r = submodule('sub')\nprint('root got', r)\n",
    'sub/build.bfg': "context = 5\nexport(context=context)\n",
})
try:
    configure(src, bld)
except Exception as e:
    print('(a)', type(e).__name__, e)

top, src, bld = make_project({
    'options.bfg': (
        "argument('first', default='1')\n"
        "sub = submodule('lib')\n"       # lib/options.bfg does not exist
        "argument('second', default='2')\n"
    ),
    'build.bfg': "print('(b) argv =', argv)\n",
    'lib/build.bfg': "",
})
try:
    configure(src, bld)
except Exception as e:
    print('(b)', type(e).__name__, e)
try:
    configure(src, bld, ['--second=9'])
except BaseException as e:
    print('(b) with --second=9:', type(e).__name__, e)
