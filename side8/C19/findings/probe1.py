import sys, os
sys.path.insert(0, os.path.dirname(__file__))
from harness import *
top, src, bld = make_project({
    'build.bfg': "r = submodule('sub')\nprint('root got', r)\n",
    'sub/build.bfg': (
        "a = copy_file('data.txt')\n"
        "b = copy_file('out2.txt', 'data.txt')\n"
        "c = build_step('gen.txt', cmd=['touch', build_step.output])\n"
        "d = build_step(['g1.txt', 'g2.txt'], cmd=['touch', build_step.output], files=['data.txt'])\n"
        "e = generic_file('data.txt')\n"
        "export(a=a, b=b, c=c, d=d, e=e)\n"
    ),
    'sub/data.txt': 'x',
})
env, b = configure(src, bld)
