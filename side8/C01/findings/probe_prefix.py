# Probe (unchanged tree): a command word starting with '-', '@' or '+' at the
# start of a recipe line is taken by Make as a recipe prefix and stripped.
import subprocess, tempfile, os, stat
from io import StringIO
from bfg9000.backends.make.syntax import Makefile
from bfg9000.shell import posix as pshell

d = tempfile.mkdtemp()
for name in ('-tool', 'tool'):
    p = os.path.join(d, name)
    open(p, 'w').write('#!/bin/sh\necho "ran $0 $*"\n')
    os.chmod(p, 0o755)
mk = Makefile('build.bfg', gnu=True)
# what builtins/command.py make_command does with command('x', cmd=['-tool', 'a b'])
mk.rule('x', recipe=[pshell.global_env({}, [['-tool', 'a b']])], phony=True)
out = StringIO(); mk.write(out); text = out.getvalue()
print(text)
open(os.path.join(d, 'Makefile'), 'w').write(text)
env = dict(os.environ, PATH=d + ':' + os.environ['PATH'])
r = subprocess.run(['make', '-s', '-C', d, 'x'], capture_output=True, text=True, env=env)
print(repr(r.stdout), repr(r.stderr))
assert '-tool a b' in r.stdout, 'process started was not "-tool": ' + r.stdout
