# Probe (unchanged tree): a single quote in the source directory or in a
# target name breaks the '...$(srcdir)...' / '$@' quoting in recipes.
import subprocess, tempfile, os
from io import StringIO
from bfg9000.backends.make.syntax import Makefile, Section, Variable, qvar
from bfg9000.path import Path, Root

d = tempfile.mkdtemp()
mk = Makefile('build.bfg', gnu=True)
mk.variable(mk.path_vars[Root.srcdir], Path("/tmp/it's/", Root.absolute), Section.path)
mk.rule('a', recipe=[['printf', '[%s]\\n', Path('x.c', Root.srcdir)]], phony=True)
mk.rule("b'c", recipe=[['printf', '[%s]\\n', qvar('@')]], phony=True)
out = StringIO(); mk.write(out); text = out.getvalue()
print(text)
open(os.path.join(d, 'Makefile'), 'w').write(text)
ra = subprocess.run(['make', '-s', '-C', d, 'a'], capture_output=True, text=True)
rb = subprocess.run(['make', '-s', '-C', d, "b'c"], capture_output=True, text=True)
print(repr(ra.stdout), repr(ra.stderr)); print(repr(rb.stdout), repr(rb.stderr))
assert ra.stdout == "[/tmp/it's/x.c]\n", ra
assert rb.stdout == "[b'c]\n", rb
