# Probe: '#' inside a per-target variable / global variable value
import subprocess, tempfile, os
from io import StringIO
from bfg9000.backends.make.syntax import Makefile, Variable, Section, Syntax

mk = Makefile('build.bfg', gnu=True)
v = mk.variable('FLAGS', ['-DFOO=a#b', 'x y'], Section.flags)
mk.rule('all', recipe=[['printf', '%s\\n', v]], variables={'TV': ['q#r', 'z']}, phony=True)
out = StringIO()
mk.write(out)
text = out.getvalue()
print(text)
d = tempfile.mkdtemp()
open(os.path.join(d, 'Makefile'), 'w').write(text)
r = subprocess.run(['make', '-s', '-C', d, 'all'], capture_output=True, text=True)
print(repr(r.stdout), repr(r.stderr))
assert r.stdout.split('\n')[:2] == ['-DFOO=a#b', 'x y'], r.stdout
