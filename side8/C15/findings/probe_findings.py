# Probes on the UNCHANGED tree.  Run: PYTHONPATH=<tree> /venv/bin/python probe_findings.py
import io, logging, os, tempfile, warnings
logging.disable(logging.CRITICAL)
warnings.simplefilter('ignore')
from bfg9000.environment import Environment
from bfg9000.path import abspath, InstallRoot, Path, Root
from bfg9000.build_inputs import BuildInputs
from bfg9000.builtins import (builtin, install, default, compile, link,  # noqa
                              packages, project, copy_file, find)
from bfg9000.builtins import file_types as _bft  # noqa
from bfg9000.backends.make import syntax as make
from bfg9000.backends.ninja import syntax as ninja

tmp = tempfile.mkdtemp()
src = os.path.join(tmp, 'src'); bld = os.path.join(tmp, 'bld')
os.makedirs(os.path.join(src, 'include', 'sub')); os.makedirs(bld)
os.makedirs(os.path.join(src, 'inc2', '~'))
for f in ('include/a.h', 'include/sub/b.h', 'inc2/~/c.h'):
    open(os.path.join(src, f), 'w').close()
os.chdir(bld)


def ctx_():
    env = Environment(abspath('/bfgdir'), 'make', None, abspath(src), abspath(bld))
    env.finalize({InstallRoot.prefix: abspath('/opt/p')}, (True, False), False)
    build = BuildInputs(env, Path('build.bfg', Root.srcdir))
    ctx = builtin.BuildContext(env, build, None)
    ctx.path_stack.append(builtin.BuildContext.PathEntry(build.bfgpath))
    return env, build, ctx


def text(env, build, backend):
    if backend == 'make':
        f = make.Makefile('build.bfg', env.supports_destdir, gnu=True)
        install.make_install_rule(build, f, env)
    else:
        f = ninja.NinjaFile('build.bfg', env.supports_destdir)
        install.ninja_install_rule(build, f, env)
    out = io.StringIO(); f.write(out); return out.getvalue()


print('--- F1: header_directory without include=: install copies the whole '
      'directory, uninstall removes nothing')
env, build, ctx = ctx_()
ctx['install'](ctx['header_directory']('include'))
t = text(env, build, 'make')
print('\n'.join(l for l in t.splitlines() if 'DOPPEL_DATA)' in l or '$(RM)' in l))

print('--- F2: ninja backend: DESTDIR is a ninja variable fixed at configure '
      'time; `DESTDIR=/x ninja install` cannot change it')
env, build, ctx = ctx_()
ctx['install'](ctx['header_file']('include/a.h'))
t = text(env, build, 'ninja')
print('\n'.join(l for l in t.splitlines() if 'DESTDIR' in l))

print("--- F3: a sub-directory literally named '~' inside an installed header "
      "directory is expanded to the home directory")
env, build, ctx = ctx_()
try:
    h = ctx['header_directory']('inc2', include='**/*.h')
    print('files:', h.files)
    ctx['install'](h)
    print(text(env, build, 'make'))
except Exception as e:
    print('raised', type(e).__name__, e)
