# Finding on the UNCHANGED tree: windows.split() never flushes a run of
# backslashes that ends the string (the tokenizer only emits pending
# backslashes when the next character arrives).  Under the Microsoft C runtime
# rules backslashes not followed by a double quote are literal, so
#   foo\        -> ['foo\\']
#   /IC:\inc\   -> ['/IC:\\inc\\']
# join() always quotes an argument that ends in a backslash, so
# split(join(x)) == x still holds; but split() of a user-supplied string
# (e.g. CPPFLAGS=/IC:\inc\ from the environment, or shell.listify('dir\\'))
# silently loses the trailing backslashes.
from bfg9000.shell import windows

for s, expected in [('foo\\', ['foo\\']),
                    ('/IC:\\inc\\ /DX', ['/IC:\\inc\\', '/DX']),   # fine
                    ('/DX /IC:\\inc\\', ['/DX', '/IC:\\inc\\']),   # lost
                    ('a b\\\\', ['a', 'b\\\\'])]:
    got = windows.split(s)
    print(repr(s), '->', got, 'OK' if got == expected else
          'WRONG, expected {}'.format(expected))
