from io import StringIO
from bfg9000.backends.ninja.syntax import Writer, Syntax, Variable
from bfg9000.shell import windows
from bfg9000 import path

w = Writer(StringIO(), {path.Root.srcdir: Variable('srcdir'),
                        path.Root.builddir: None}, shell=windows)
w.write_each(['cl', path.Path('foo.c', path.Root.srcdir),
              path.Path('a b.c', path.Root.srcdir),
              path.Path('out dir/x.obj'), path.Path('x.obj')], Syntax.shell)
print(w.stream.getvalue())
