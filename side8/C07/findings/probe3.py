import os
import sys
import time
sys.path.insert(0, os.path.dirname(__file__))
from harness import Project

src = sys.argv[1]
hdr = sys.argv[2]
p = Project({
    'build.bfg': "project('p', '1.0')\nexecutable('prog', files=[{!r}])\n"
                 .format(src),
    src: '#include "{}"\nint main(void){{return X;}}\n'.format(hdr),
    hdr: '#define X 0\n',
})
print(p.configure())
print([l for l in p.makefile().splitlines() if 'prog.int' in l])
print(p.make())
for root, d, f in os.walk(p.bld):
    for i in f:
        if i.endswith('.d'):
            print('==', i)
            print(open(os.path.join(root, i)).read())
print('noop', p.make())
time.sleep(1.1)
open(p.path(hdr), 'w').write('#define X 0 \n')
print('after edit hdr', p.make())
os.remove(p.path(hdr))
open(p.path(src), 'w').write('int main(void){return 0;}\n')
print('after delete hdr', p.make())
print(p.make('clean'))
print(sorted(os.listdir(p.bpath('prog.int'))))
print(p.make())
