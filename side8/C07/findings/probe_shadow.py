"""Unchanged-tree probe: adding a header that shadows the one in use (earlier
on the include path) does not rebuild the object."""
import os
import sys
import time
sys.path.insert(0, os.path.dirname(os.path.abspath(__file__)))
from harness import Project

p = Project({
    'build.bfg': "project('p', '1.0')\n"
                 "executable('prog', files=['main.c'], "
                 "includes=['inc1', 'inc2'])\n",
    'main.c': '#include <x.h>\nint main(void){return X;}\n',
    'inc1/keep.h': '\n',
    'inc2/x.h': '#define X 0\n',
})
p.configure()
print(p.make())
time.sleep(1.1)
with open(p.path('inc1/x.h'), 'w') as f:
    f.write('#define X 1\n')
rc, log = p.make()
print('after adding inc1/x.h (shadows inc2/x.h):', rc, log)
assert 'main.c' in log, 'object NOT rebuilt although it now includes inc1/x.h'
