"""Unchanged-tree probe: a source directory whose path contains a space.
`srcdir := /x/sp ace` is written raw, so `$(srcdir)/main.c` in prerequisite
lists splits into two words."""
import os
import sys
import tempfile
sys.path.insert(0, os.path.dirname(os.path.abspath(__file__)))
import harness

base = tempfile.mkdtemp(prefix='c07_')
spaced = os.path.join(base, 'sp ace')
os.makedirs(spaced)
tempfile.tempdir = spaced
p = harness.Project({
    'build.bfg': "project('p', '1.0')\nexecutable('prog', files=['main.c'])\n",
    'main.c': 'int main(void){return 0;}\n',
})
p.configure()
rc, log = p.make()
print(rc, log)
assert rc == 0, 'build fails when srcdir contains a space'
