"""Small helper used by the demos: configure a project with bfg9000 (Make
backend) in-process-equivalent (subprocess of the same interpreter with the
same PYTHONPATH) and run real `make`."""
import os
import subprocess
import sys
import tempfile

PY = sys.executable


def write(path, text):
    os.makedirs(os.path.dirname(path), exist_ok=True)
    with open(path, 'w') as f:
        f.write(text)


class Project:
    def __init__(self, files):
        self.top = tempfile.mkdtemp(prefix='c07_')
        self.src = os.path.join(self.top, 'src')
        self.bld = os.path.join(self.top, 'bld')
        os.makedirs(self.src)
        for k, v in files.items():
            write(os.path.join(self.src, k), v)
        fixer = os.path.join(self.top, 'depfixer.sh')
        write(fixer, '#!/bin/sh\nexec {} -c "from bfg9000.depfixer import '
              'main; main()" "$@"\n'.format(PY))
        os.chmod(fixer, 0o755)
        self.env = dict(os.environ)
        self.env['DEPFIXER'] = fixer
        self.env['BFG9000'] = 'true'
        self.env.pop('MAKEFLAGS', None)

    def configure(self):
        r = subprocess.run(
            [PY, '-c', 'import sys; from bfg9000.driver import main; '
             'sys.exit(main())', 'configure', self.bld, '--backend=make',
             '--no-resolve-packages'],
            cwd=self.src, env=self.env, stdout=subprocess.PIPE,
            stderr=subprocess.STDOUT, universal_newlines=True)
        assert r.returncode == 0, r.stdout
        return r.stdout

    def make(self, *args):
        r = subprocess.run(['make'] + list(args), cwd=self.bld, env=self.env,
                           stdout=subprocess.PIPE, stderr=subprocess.STDOUT,
                           universal_newlines=True)
        return r.returncode, r.stdout

    def makefile(self):
        with open(os.path.join(self.bld, 'Makefile')) as f:
            return f.read()

    def path(self, *bits):
        return os.path.join(self.src, *bits)

    def bpath(self, *bits):
        return os.path.join(self.bld, *bits)
