#!/bin/sh
# Offline setup: unpack the z3 wheel (pure ctypes wrapper + libz3.so) next to the checks so that
# /venv/bin/python (the interpreter the repository runs under) can import it.
set -e
cd "$(dirname "$0")"
if [ ! -f .deps/z3/__init__.py ]; then
  rm -rf .deps && mkdir -p .deps
  /venv/bin/python -m zipfile -e /opt/veriftools/wheels/z3_solver-5.1.0.0-py3-none-manylinux_2_27_x86_64.whl .deps
  chmod +x .deps/z3_solver-5.1.0.0.data/bin/z3 2>/dev/null || true
fi
PYTHONPATH=.deps /venv/bin/python -c "import z3; print('z3', z3.get_version_string())"
