"""Models of the Python runtime for the PyVC interpreter (library contracts).

Everything here is an *assumption about CPython* that the encoding cross-check validates on every run
by comparing the symbolic result with the real function's result on enumerated inputs.
"""
import ast
import builtins
import collections
import collections.abc
import enum
import functools
import itertools
import re
import types
import z3

from . import terms as T
from . import regex as RX
from .values import (Sym, PList, PDict, Obj, Closure, BoundMethod, ExcVal, IterState, OpaqueFn, PStream,
                     SymMap, lift, tyof, fresh_sym, z3sort)


def _oos(msg, node=None):
    from .interp import OutOfSubset
    return OutOfSubset(msg, node)


def _raise(cls, *args):
    from .interp import RaiseSig
    return RaiseSig(ExcVal(cls, args))


OPAQUE_CALL = {}       # opaque sort name -> fn(I, sym, args) for calling a value of that sort


class Model:
    def __init__(self, fn, name=None):
        self.fn = fn
        self.name = name or fn.__name__

    def __call__(self, I, args, kwargs, node):
        return self.fn(I, args, kwargs, node)


class IndexedSeq:
    """An iterable presented as (length, getter)."""

    def __init__(self, concrete_len, length, getter):
        self.concrete_len = concrete_len
        self.length = length if length is not None else z3.IntVal(concrete_len)
        self.getter = getter

    def get(self, I, i):
        return self.getter(I, i)


_TABLE = {}
_BASES = {}


def model(*hosts):
    def deco(fn):
        m = Model(fn)
        for h in hosts:
            _TABLE[_key(h)] = m
        return m
    return deco


def _key(h):
    try:
        hash(h)
        return h
    except TypeError:
        return id(h)


def lookup(f):
    try:
        return _TABLE.get(f)
    except TypeError:
        return None


class ListBase:
    """Classes derived from list (shell_list): a PList that remembers its class."""

    def __call__(self, I, cls, args, kwargs, node):
        r = m_list(I, args, kwargs, node)
        r.cls = cls
        return r


def lookup_base(cls):
    for k in cls.__mro__:
        if k in _BASES:
            return _BASES[k]
    return None


# ---------------------------------------------------------------------------------------------
# host <-> interpreter values


def from_host(v):
    if isinstance(v, list):
        return PList([from_host(x) for x in v], cls=type(v))
    if type(v) is tuple:
        return tuple(from_host(x) for x in v)
    if type(v) is dict:
        return PDict({k: from_host(x) for k, x in v.items()})
    return v


def to_host(v):
    if isinstance(v, PList):
        if not v.concrete:
            raise _oos('symbolic list passed to host function')
        return v.cls(to_host(x) for x in v.items) if v.cls is not list else [to_host(x) for x in v.items]
    if isinstance(v, PDict):
        return {k: to_host(x) for k, x in v.d.items()}
    if isinstance(v, tuple):
        return tuple(to_host(x) for x in v)
    if isinstance(v, IndexedSeq):
        if v.concrete_len is None:
            raise _oos('symbolic sequence passed to host function')
        return [to_host(v.get(None, i)) for i in range(v.concrete_len)]
    return v


def is_concrete(v):
    if isinstance(v, (Sym, Obj, Closure, BoundMethod, SymMap, OpaqueFn, ExcVal, PStream)):
        return False
    if isinstance(v, PList):
        return v.concrete and all(is_concrete(x) for x in v.items)
    if isinstance(v, PDict):
        return all(is_concrete(x) for x in v.d.values())
    if isinstance(v, tuple):
        return all(is_concrete(x) for x in v)
    if isinstance(v, IndexedSeq):
        return False
    if isinstance(v, slice):
        return all(is_concrete(x) for x in (v.start, v.stop, v.step))
    return True


def all_concrete(vals):
    return all(is_concrete(v) for v in vals)


_PURE_MODULES = ('re', 'posixpath', 'ntpath', 'os.path', 'itertools', 'functools', 'collections', 'enum',
                 'builtins', 'string', 'fnmatch', 'operator', 'genericpath', 'json', 'math', 'abc',
                 'collections.abc', '_collections_abc', 'io', 'verspec')


def pure_host(f):
    mod = getattr(f, '__module__', None)
    if mod is None:
        s = getattr(f, '__self__', None)
        mod = getattr(type(s), '__module__', None) if s is not None else None
    if mod is None:
        return True
    return any(mod == m or mod.startswith(m + '.') for m in _PURE_MODULES)


def hashable(k, node=None):
    if isinstance(k, Sym):
        raise _oos('symbolic dict key', node)
    return k


# ---------------------------------------------------------------------------------------------
# strings


def sym_str(v):
    """z3 Seq term of a str value."""
    if isinstance(v, Sym) and v.ty == 'str':
        return v.e
    if isinstance(v, str):
        return T.lit(v)
    raise TypeError(v)


def is_str(v):
    return isinstance(v, str) or (isinstance(v, Sym) and v.ty == 'str')


def is_int(v):
    return (isinstance(v, int) and not isinstance(v, bool)) or (isinstance(v, Sym) and v.ty == 'int')


def is_num(v):
    return is_int(v) or (isinstance(v, Sym) and v.ty == 'real')


def is_boolv(v):
    return isinstance(v, bool) or (isinstance(v, Sym) and v.ty == 'bool')


def mk_str(e):
    e = z3.simplify(e)
    s = T.as_pystr(e)
    return s if s is not None else Sym(e, 'str')


def mk_int(e):
    if isinstance(e, int):
        return e
    e = z3.simplify(e)
    if z3.is_int_value(e):
        return e.as_long()
    return Sym(e, 'int')


def mk_bool(e):
    if isinstance(e, bool):
        return e
    e = z3.simplify(e)
    if z3.is_true(e):
        return True
    if z3.is_false(e):
        return False
    return Sym(e, 'bool')


def to_str(I, v, node):
    if is_str(v):
        return v
    if isinstance(v, int) and not isinstance(v, bool):
        return str(v)
    if isinstance(v, Obj):
        m = I.class_attr(v.cls, '__str__')
        if m is not None and isinstance(m, types.FunctionType):
            return I.call(BoundMethod(m, v), [], {}, node)
    if is_concrete(v):
        return str(v)
    raise _oos('str() of %r' % (v,), node)


def concat_strs(I, parts):
    if all(isinstance(p, str) for p in parts):
        return ''.join(parts)
    return mk_str(T.cat(*[sym_str(p) for p in parts]))


def norm_index(i, n):
    """Python index -> z3 index given length n (negative from the end)."""
    if isinstance(i, int):
        return z3.IntVal(i) if i >= 0 else n + i
    e = lift(i)
    return z3.If(e >= 0, e, n + e)


def clamp(e, n):
    return z3.If(e < 0, z3.IntVal(0), z3.If(e > n, n, e))


def slice_bounds(sl, n, node=None):
    if sl.step is not None and sl.step != 1:
        raise _oos('slice step', node)
    lo = z3.IntVal(0) if sl.start is None else clamp(norm_index(sl.start, n), n)
    hi = n if sl.stop is None else clamp(norm_index(sl.stop, n), n)
    ln = z3.If(hi > lo, hi - lo, z3.IntVal(0))
    return lo, ln


def seq_getitem(I, e, ety, k, node, wrap):
    n = z3.Length(e)
    if isinstance(k, slice):
        lo, ln = slice_bounds(k, n, node)
        return wrap(z3.simplify(z3.Extract(e, lo, ln)), True)
    idx = norm_index(k, n)
    ok = z3.And(idx >= 0, idx < n)
    if not I.decide(ok):
        raise _raise(IndexError)
    return wrap(e[idx] if True else None, False, idx)


_REPL_FOLDS = {}


def replace_fold(a, b):
    """str.replace(a, b) for a one-character a is the character homomorphism c -> b if c == a else c."""
    key = (a, b)
    if key not in _REPL_FOLDS:
        name = 'repl_%s_%s' % ('_'.join('%x' % ord(c) for c in a), '_'.join('%x' % ord(c) for c in b) or 'e')
        ca = ord(a)

        def h(c, ca=ca, b=b):
            return T.ite(T.eq(c, ca), T.lit(b), T.unit(c))
        _REPL_FOLDS[key] = T.make_cmap(name, h)
    return _REPL_FOLDS[key]


_ANY_FOLDS = {}


def any_fold(cls):
    if cls not in _ANY_FOLDS:
        _ANY_FOLDS[cls] = T.make_any('any%d' % len(_ANY_FOLDS), cls)
        _ANY_FOLDS[cls].cls = cls
    return _ANY_FOLDS[cls]


_SUB_FOLDS = {}


def sub_fold(cls, tmpl):
    key = (cls, tuple(tmpl))
    if key not in _SUB_FOLDS:
        def h(c):
            parts = [T.lit(x) if k == 'lit' else T.unit(c) for k, x in tmpl]
            return T.ite(cls.contains(c), T.cat(*parts), T.unit(c))
        f = T.make_cmap('sub%d' % len(_SUB_FOLDS), h)
        f.cls, f.tmpl = cls, tmpl
        _SUB_FOLDS[key] = f
    return _SUB_FOLDS[key]


class StrMethod(Model):
    def __init__(self, recv, name):
        self.recv, self.name = recv, name

    def __call__(self, I, args, kwargs, node):
        recv, name = self.recv, self.name
        if isinstance(recv, str) and all_concrete(args) and all_concrete(list(kwargs.values())):
            try:
                return from_host(getattr(recv, name)(*[to_host(a) for a in args], **kwargs))
            except Exception as e:      # noqa
                raise _raise(type(e), *e.args)
        fn = getattr(self, 'm_' + name, None)
        if fn is None:
            raise _oos('str.%s on symbolic string' % name, node)
        return fn(I, recv, args, kwargs, node)

    def m_replace(self, I, recv, args, kwargs, node):
        a, b = args[0], args[1]
        if not (isinstance(a, str) and isinstance(b, str) and len(a) == 1 and len(args) == 2):
            raise _oos('str.replace with non-literal or multi-character pattern', node)
        I.note('str.replace(%r, %r) == character homomorphism' % (a, b))
        f = replace_fold(a, b)
        return mk_str(f.out((0,), sym_str(recv)))

    def m_startswith(self, I, recv, args, kwargs, node):
        return mk_bool(z3.PrefixOf(sym_str(args[0]), sym_str(recv)))

    def m_endswith(self, I, recv, args, kwargs, node):
        return mk_bool(z3.SuffixOf(sym_str(args[0]), sym_str(recv)))

    def m_format(self, I, recv, args, kwargs, node):
        import string
        if not isinstance(recv, str):
            raise _oos('format on symbolic format string', node)
        parts, auto = [], 0
        for lit_, field, spec, conv in string.Formatter().parse(recv):
            if lit_:
                parts.append(lit_)
            if field is not None:
                if spec or conv:
                    raise _oos('format spec/conversion', node)
                if field == '':
                    v = args[auto]
                    auto += 1
                elif field.isdigit():
                    v = args[int(field)]
                else:
                    v = kwargs[field]
                parts.append(to_str(I, v, node))
        return concat_strs(I, parts)

    def m_join(self, I, recv, args, kwargs, node):
        seq = indexed(I, args[0], node)
        if seq.concrete_len is None:
            raise _oos('str.join over symbolic-length sequence', node)
        parts = []
        for i in range(seq.concrete_len):
            if i:
                parts.append(recv)
            x = seq.get(I, i)
            if not is_str(x):
                raise _raise(TypeError)
            parts.append(x)
        return concat_strs(I, parts)

    def m_upper(self, I, recv, args, kwargs, node):
        raise _oos('str.upper on symbolic string', node)


class StreamMethod(Model):
    def __init__(self, recv, name):
        self.recv, self.name = recv, name

    def __call__(self, I, args, kwargs, node):
        st = self.recv
        if self.name == 'write':
            if not is_str(args[0]):
                raise _raise(TypeError)
            st.buf = concat_strs(I, [st.buf, args[0]])
            return None
        if self.name == 'getvalue':
            return st.buf
        raise _oos('StringIO.%s' % self.name, node)


def method_of(I, v, name, node):
    if isinstance(v, PStream):
        return StreamMethod(v, name)
    if is_str(v):
        if not hasattr(str, name):
            raise _raise(AttributeError, name)
        return StrMethod(v, name)
    if isinstance(v, PList):
        if name in ('add', 'append', 'extend', 'index', 'pop', 'copy', 'insert', 'remove', 'count', 'sort', 'clear',
                    '__getitem__', '__len__', '__add__', '__iter__', '__eq__'):
            return ListMethod(v, name)
        raw = I.class_attr(v.cls, name) if v.cls is not list else None
        if raw is not None:
            return I.bind_descriptor(raw, v, v.cls, node)
        raise _oos('list.%s' % name, node)
    if isinstance(v, PDict):
        return DictMethod(v, name)
    if isinstance(v, SymMap):
        from . import dictmodel as DM
        return DM.MapMethod(v, name)
    if isinstance(v, Sym):
        raise _oos('attribute %s of %r' % (name, v), node)
    raise _oos('attribute %s of %r' % (name, v), node)


# ---------------------------------------------------------------------------------------------
# lists


def elt_ty(v):
    t = tyof(v)
    return t


def list_to_seq(I, pl, ety, node=None):
    """z3 Seq term of a list value."""
    if not pl.concrete:
        return pl.e
    if ety is None:
        for x in pl.items:
            ety = tyof(x)
            break
    if ety is None:
        raise _oos('element type of empty list unknown', node)
    srt = z3sort(ety)
    if not pl.items:
        return z3.Empty(z3.SeqSort(srt))
    us = [z3.Unit(lift_as(x, ety)) for x in pl.items]
    return us[0] if len(us) == 1 else z3.Concat(*us)


def list_append(I, pl, v, node):
    if pl.concrete:
        pl.items.append(v)
    else:
        pl.e = z3.simplify(z3.Concat(pl.e, z3.Unit(lift_as(v, pl.ety, node))))


def lift_as(v, ety, node=None):
    if isinstance(v, Obj) and getattr(v, 'term', None) is not None:
        return v.term
    if isinstance(ety, tuple) and ety[0] == 'obj':
        t = getattr(v, 'term', None)
        if t is None:
            raise _oos('object without an abstract term stored in a symbolic list', node)
        return t
    if isinstance(v, tuple) and isinstance(ety, tuple) and ety[0] == 'tuple':
        return ety[2](*[lift_as(x, t, node) for x, t in zip(v, ety[1])])
    if v is None and isinstance(ety, tuple) and ety[0] == 'z3':
        raise _oos('None in typed list', node)
    try:
        return lift(v)
    except TypeError:
        raise _oos('cannot store %r in symbolic list' % (v,), node)


def list_extend(I, pl, other, node):
    if isinstance(other, PList) and not other.concrete or (isinstance(other, Sym) and isinstance(other.ty, tuple) and other.ty[0] in ('seq', 'list')):
        oe = other.e
        oty = other.ety if isinstance(other, PList) else other.ty[1]
        if pl.concrete:
            pl.e = list_to_seq(I, pl, oty, node) if pl.items else z3.Empty(z3.SeqSort(z3sort(oty)))
            pl.items, pl.ety = None, oty
        pl.e = z3.simplify(z3.Concat(pl.e, oe))
        return
    seq = indexed(I, other, node)
    if seq.concrete_len is None:
        raise _oos('extend with symbolic-length iterable', node)
    for i in range(seq.concrete_len):
        list_append(I, pl, seq.get(I, i), node)


class ListMethod(Model):
    def __init__(self, recv, name):
        self.recv, self.name = recv, name

    def __call__(self, I, args, kwargs, node):
        pl, name = self.recv, self.name
        if name == 'append':
            list_append(I, pl, args[0], node)
            return None
        if name == 'add' and getattr(pl, 'is_set', False) and pl.concrete:
            if not I.to_bool(contains(I, pl, args[0], node), node):
                pl.items.append(args[0])
            return None
        if name == 'extend':
            list_extend(I, pl, args[0], node)
            return None
        if name == '__len__':
            return m_len(I, [pl], {}, node)
        if name == '__getitem__':
            return getitem(I, pl, args[0], node)
        if name == '__add__':
            return binop(I, ast.Add(), pl, args[0], node)
        if name == 'copy':
            return PList(list(pl.items), cls=pl.cls) if pl.concrete else PList(None, pl.e, pl.ety, pl.cls)
        if name == 'pop' and pl.concrete:
            if not pl.items:
                raise _raise(IndexError)
            i = args[0] if args else -1
            if not isinstance(i, int):
                raise _oos('list.pop with symbolic index', node)
            return pl.items.pop(i)
        if name == 'clear':
            pl.items, pl.e = [], None
            return None
        if name == 'insert' and pl.concrete and isinstance(args[0], int):
            pl.items.insert(args[0], args[1])
            return None
        if name == 'sort':
            raise _oos('list.sort', node)
        raise _oos('list.%s' % name, node)


class DictMethod(Model):
    def __init__(self, recv, name):
        self.recv, self.name = recv, name

    def __call__(self, I, args, kwargs, node):
        d, name = self.recv.d, self.name
        if name == 'items':
            return PList([(k, v) for k, v in d.items()])
        if name == 'keys':
            return PList(list(d.keys()))
        if name == 'values':
            return PList(list(d.values()))
        if name == 'get':
            k = hashable(args[0], node)
            return d.get(k, args[1] if len(args) > 1 else None)
        if name == 'update':
            o = args[0] if args else PDict({})
            if isinstance(o, PDict):
                d.update(o.d)
                for k, v in kwargs.items():
                    d[k] = v
                return None
            # an iterable of concrete length whose items are (key, value) pairs
            try:
                items = list(concrete_items(I, o, node))
            except Exception:       # noqa
                items = None
            if items is not None and all(isinstance(x, tuple) and len(x) == 2 for x in items):
                for k, v in items:
                    d[hashable(k, node)] = v
                for k, v in kwargs.items():
                    d[k] = v
                return None
        if name == 'pop':
            k = hashable(args[0], node)
            if k in d:
                return d.pop(k)
            if len(args) > 1:
                return args[1]
            raise _raise(KeyError)
        if name == 'setdefault':
            k = hashable(args[0], node)
            return d.setdefault(k, args[1] if len(args) > 1 else None)
        raise _oos('dict.%s' % name, node)


class MapMethod(Model):
    def __init__(self, recv, name):
        self.recv, self.name = recv, name

    def __call__(self, I, args, kwargs, node):
        raise _oos('method %s of symbolic map' % self.name, node)


# ---------------------------------------------------------------------------------------------
# generic operations


def indexed(I, it, node):
    if isinstance(it, IndexedSeq):
        return it
    if isinstance(it, PList):
        if it.concrete:
            items = it.items
            return IndexedSeq(len(items), None, lambda I_, i: items[i])
        e, ety = it.e, it.ety
        r = IndexedSeq(None, z3.Length(e), lambda I_, i: wrap_elt(e[lift(i)], ety))
        r.e = e
        return r
    if isinstance(it, (tuple, list)):
        items = list(it)
        return IndexedSeq(len(items), None, lambda I_, i: from_host(items[i]))
    if isinstance(it, str):
        return IndexedSeq(len(it), None, lambda I_, i: it[i])
    if isinstance(it, Sym):
        if it.ty == 'str':
            e = it.e
            return IndexedSeq(None, z3.Length(e), lambda I_, i: Sym(z3.Unit(e[lift(i)]), 'str'))
        if isinstance(it.ty, tuple) and it.ty[0] in ('seq', 'list'):
            e, ety = it.e, it.ty[1]
            r = IndexedSeq(None, z3.Length(e), lambda I_, i: wrap_elt(e[lift(i)], ety))
            r.e = e
            return r
    if isinstance(it, PDict):
        keys = list(it.d.keys())
        return IndexedSeq(len(keys), None, lambda I_, i: keys[i])
    if isinstance(it, SymMap) or (isinstance(it, Obj) and '__map' in it.attrs):
        from . import dictmodel as DM
        return DM.iter_keys(I, DM.map_of(it))
    if isinstance(it, IterState):
        items = it.items[it.pos:]
        it.pos = len(it.items)
        return IndexedSeq(len(items), None, lambda I_, i: items[i])
    if isinstance(it, Obj):
        if hasattr(it, 'tuple_items'):
            items = it.tuple_items
            return IndexedSeq(len(items), None, lambda I_, i: items[i])
        if I.class_attr(it.cls, '__iter__') is not None and not issubclass(it.cls, collections.abc.Sequence):
            r = I.call(I.getattr(it, '__iter__', node), [], {}, node)
            return indexed(I, r, node)
        if I.class_attr(it.cls, '__getitem__') is not None and I.class_attr(it.cls, '__len__') is not None:
            n = I.call(I.getattr(it, '__len__', node), [], {}, node)
            getter = lambda I_, i: I_.call(I_.getattr(it, '__getitem__', node), [mk_int(lift(i))], {}, node)
            if isinstance(n, int):
                return IndexedSeq(n, None, getter)
            return IndexedSeq(None, n.e, getter)
    if isinstance(it, (dict, set, frozenset)):
        items = list(it)
        return IndexedSeq(len(items), None, lambda I_, i: from_host(items[i]))
    if isinstance(it, enum.EnumMeta):
        items = list(it)
        return IndexedSeq(len(items), None, lambda I_, i: items[i])
    if is_concrete(it) and isinstance(it, collections.abc.Iterable):
        items = list(it)
        return IndexedSeq(len(items), None, lambda I_, i: from_host(items[i]))
    raise _oos('iteration over %r' % (it,), node)


def wrap_elt(e, ety):
    if ety == 'str':
        return mk_str(e)
    if ety == 'int':
        return mk_int(e)
    if ety == 'bool':
        return mk_bool(e)
    if ety == 'real':
        return Sym(e, 'real')
    if isinstance(ety, tuple) and ety[0] == 'tuple':
        # ('tuple', (tys...), constructor, accessors)
        return tuple(wrap_elt(acc(e), t) for acc, t in zip(ety[3], ety[1]))
    if isinstance(ety, tuple) and ety[0] == 'enum':
        e = z3.simplify(e)
        if z3.is_int_value(e):
            return list(ety[1])[e.as_long()]
        return Sym(e, ety)
    if isinstance(ety, tuple) and ety[0] == 'obj':
        return ety[1](e)
    return Sym(e, ety)


def concrete_items(I, v, node):
    seq = indexed(I, v, node)
    if seq.concrete_len is None:
        raise _oos('symbolic-length sequence where a concrete one is needed', node)
    return [seq.get(I, i) for i in range(seq.concrete_len)]


def unpack(I, v, n, node):
    items = concrete_items(I, v, node)
    if len(items) != n:
        raise _raise(ValueError)
    return items


def make_set(I, items, node):
    raise _oos('set construction', node)


@model(set)
def m_set(I, args, kwargs, node):
    from . import dictmodel as DM
    if args:
        s = DM.as_key_set(args[0])
        if s is not None:
            return s
    if not args:
        r = PList([])           # a concrete-spine set: membership by ==, add() appends when absent
        r.is_set = True
        return r
    raise _oos('set() of %r' % (args[0] if args else None,), node)


def make_super2(I, cls, inst):
    inst_cls = inst.cls if isinstance(inst, (Obj, PList)) else (inst if isinstance(inst, type) else type(inst))
    return SuperProxy(inst, inst_cls, cls)


def make_super(I, fr, node):
    # zero-argument super() inside a method: first parameter of the enclosing function
    fnode = fr.node
    while fnode is None:
        raise _oos('super() outside function', node)
    self_name = fnode.args.args[0].arg if fnode.args.args else None
    self_v = None
    for env in fr.envs:
        if self_name in env:
            self_v = env[self_name]
            break
    cls = None
    inst_cls = self_v.cls if isinstance(self_v, (Obj, PList)) else (self_v if isinstance(self_v, type) else type(self_v))
    for k in inst_cls.__mro__:
        if k.__name__ == fr.clsname:
            cls = k
            break
    if cls is None:
        raise _oos('cannot resolve super()', node)
    return SuperProxy(self_v, inst_cls, cls)


class SuperProxy:
    def __init__(self, inst, inst_cls, cls):
        self.inst, self.inst_cls, self.cls = inst, inst_cls, cls


def super_getattr(I, sp, name, node):
    mro = sp.inst_cls.__mro__
    start = mro.index(sp.cls) + 1
    for k in mro[start:]:
        if name in k.__dict__:
            raw = k.__dict__[name]
            if k is object and name == '__init__':
                return Model(lambda I_, a, kw, n: None, 'object.__init__')
            if k in _BASES:
                return _BASES[k].super_method(sp.inst, name)
            return I.bind_descriptor(raw, sp.inst if not isinstance(sp.inst, type) else None, sp.inst_cls, node)
    raise _raise(AttributeError, name)


def binop(I, op, a, b, node):
    if is_concrete(a) and is_concrete(b) and not isinstance(a, (PList, PDict)) and not isinstance(b, (PList, PDict)):
        try:
            return from_host(_HOST_BINOPS[type(op)](a, b))
        except KeyError:
            raise _oos('binary operator %s' % type(op).__name__, node)
        except Exception as e:      # noqa
            raise _raise(type(e), *e.args)
    if isinstance(a, Obj) or isinstance(b, Obj):
        nm = _DUNDER.get(type(op))
        if nm and isinstance(a, Obj) and I.class_attr(a.cls, nm[0]) is not None:
            r = I.call(I.getattr(a, nm[0], node), [b], {}, node)
            if r is not NotImplemented:
                return r
        if nm and isinstance(b, Obj) and I.class_attr(b.cls, nm[1]) is not None:
            r = I.call(I.getattr(b, nm[1], node), [a], {}, node)
            if r is not NotImplemented:
                return r
        raise _oos('binary operator on objects %r, %r' % (a, b), node)
    if not isinstance(a, (Sym, PList)) and hasattr(type(b), '__radd__') and isinstance(op, ast.Add) and not isinstance(b, (Sym, PList)):
        pass
    if isinstance(op, ast.Add):
        if is_str(a) and is_str(b):
            return mk_str(T.cat(sym_str(a), sym_str(b)))
        if is_int(a) and is_int(b):
            return mk_int(lift(a) + lift(b))
        if isinstance(a, PList) and isinstance(b, PList):
            cls = a.cls
            if a.cls is not list and I.class_attr(a.cls, '__add__') is not None:
                pass
            if a.concrete and b.concrete:
                return PList(a.items + b.items, cls=cls)
            r = PList(list(a.items), cls=cls) if a.concrete else PList(None, a.e, a.ety, cls)
            list_extend(I, r, b, node)
            return r
        if isinstance(a, tuple) and isinstance(b, tuple):
            return a + b
        # real host instances with __add__/__radd__ (safe_string)
        for x, y, nm in ((a, b, '__add__'), (b, a, '__radd__')):
            raw = None
            if not isinstance(x, (Sym, PList, PDict)) and hasattr(type(x), '__mro__'):
                for k in type(x).__mro__:
                    if nm in k.__dict__ and getattr(k, '__module__', '').startswith('bfg9000'):
                        raw = k.__dict__[nm]
                        break
            if raw is not None:
                return I.call(raw, [x, y], {}, node)
    if isinstance(op, ast.Sub) and is_int(a) and is_int(b):
        return mk_int(lift(a) - lift(b))
    if isinstance(op, ast.Sub) and isinstance(a, SymMap):
        from . import dictmodel as DM
        r = DM.set_difference(a, b)
        if r is not None:
            return r
    if isinstance(op, ast.Mult):
        if is_int(a) and is_int(b):
            return mk_int(lift(a) * lift(b))
        if is_str(a) and isinstance(b, int):
            return mk_str(T.cat(*[sym_str(a)] * b)) if b > 0 else ''
        if is_str(a) and is_int(b):
            return I.models_ext.str_repeat(I, a, b, node)
    if isinstance(op, ast.FloorDiv) and is_int(a) and is_int(b):
        if isinstance(b, int) and b > 0:
            return mk_int(lift(a) / z3.IntVal(b))     # z3 Int '/' is floor division for positive divisor
        raise _oos('floor division by symbolic or non-positive divisor', node)
    if isinstance(op, ast.Mod) and is_int(a) and is_int(b):
        if isinstance(b, int) and b > 0:
            return mk_int(lift(a) % z3.IntVal(b))
        raise _oos('modulo by symbolic or non-positive divisor', node)
    if isinstance(op, (ast.BitOr, ast.BitAnd)):
        if is_boolv(a) and is_boolv(b):
            f = z3.Or if isinstance(op, ast.BitOr) else z3.And
            return mk_bool(f(lift(a), lift(b)))
        # flags / enums
        if isinstance(a, Sym) and isinstance(a.ty, tuple) and a.ty[0] == 'flags' or isinstance(b, Sym) and isinstance(b.ty, tuple) and b.ty[0] == 'flags':
            return I.models_ext.flag_op(I, op, a, b, node)
    raise _oos('binary operator %s on %r, %r' % (type(op).__name__, a, b), node)


import operator as _op


def _op_model(fn, astop):
    @model(fn)
    def m(I, args, kwargs, node, astop=astop):
        return binop(I, astop(), args[0], args[1], node)
    return m


for _fn, _astop in ((_op.or_, ast.BitOr), (_op.and_, ast.BitAnd), (_op.add, ast.Add), (_op.sub, ast.Sub),
                    (_op.mul, ast.Mult)):
    _op_model(_fn, _astop)
_HOST_BINOPS = {ast.Add: _op.add, ast.Sub: _op.sub, ast.Mult: _op.mul, ast.FloorDiv: _op.floordiv,
                ast.Mod: _op.mod, ast.BitOr: _op.or_, ast.BitAnd: _op.and_, ast.Div: _op.truediv,
                ast.Pow: _op.pow, ast.BitXor: _op.xor, ast.LShift: _op.lshift, ast.RShift: _op.rshift}
_DUNDER = {ast.Add: ('__add__', '__radd__'), ast.BitAnd: ('__and__', '__rand__'), ast.BitOr: ('__or__', '__ror__'),
           ast.Sub: ('__sub__', '__rsub__'), ast.Mult: ('__mul__', '__rmul__')}


def values_equal(I, a, b, node):
    """z3 Bool / Python bool for a == b."""
    if isinstance(a, Obj) or isinstance(b, Obj):
        if a is b:
            return True
        for x, y in ((a, b), (b, a)):
            if isinstance(x, Obj):
                m = I.class_attr(x.cls, '__eq__')
                if m is not None and isinstance(m, types.FunctionType):
                    r = I.call(BoundMethod(m, x), [y], {}, node)
                    if r is NotImplemented:
                        continue
                    return I.truth(r, node)
                if hasattr(x, 'tuple_items'):
                    yi = y.tuple_items if isinstance(y, Obj) and hasattr(y, 'tuple_items') else (list(y) if isinstance(y, tuple) else None)
                    if yi is None or len(yi) != len(x.tuple_items):
                        return False
                    return T.AND(*[T.zbool(values_equal(I, p, q, node)) for p, q in zip(x.tuple_items, yi)])
        return False
    if a is None or b is None:
        if isinstance(a, Sym) or isinstance(b, Sym):
            return False
        return a is b
    if isinstance(a, Sym) or isinstance(b, Sym):
        ta, tb = tyof(a), tyof(b)
        if ta is None or tb is None:
            return False
        if _ty_compat(ta, tb):
            return lift(a) == lift(b)
        return False
    if isinstance(a, tuple) and isinstance(b, tuple):
        if len(a) != len(b):
            return False
        return T.AND(*[T.zbool(values_equal(I, p, q, node)) for p, q in zip(a, b)])
    if isinstance(a, PList) and isinstance(b, PList):
        if a.concrete and b.concrete:
            if len(a.items) != len(b.items):
                return False
            return T.AND(*[T.zbool(values_equal(I, p, q, node)) for p, q in zip(a.items, b.items)])
        ety = a.ety or b.ety
        return list_to_seq(I, a, ety, node) == list_to_seq(I, b, ety, node)
    if isinstance(a, (PList, PDict)) or isinstance(b, (PList, PDict)):
        if isinstance(a, PList) and isinstance(b, (list, tuple)) or isinstance(b, PList) and isinstance(a, (list, tuple)):
            raise _oos('list/host-sequence comparison', node)
        return False
    return a == b


def _ty_compat(ta, tb):
    if ta == tb:
        return True
    if isinstance(ta, tuple) and isinstance(tb, tuple) and ta[0] == tb[0] == 'enum':
        return ta[1] is tb[1]
    if {ta, tb} <= {'int', 'bool'}:
        return False
    return False


def compare(I, op, a, b, node):
    if isinstance(op, ast.Is):
        return _is(a, b)
    if isinstance(op, ast.IsNot):
        r = _is(a, b)
        return not r
    if isinstance(op, ast.Eq):
        return mk_bool(T.zbool(values_equal(I, a, b, node)))
    if isinstance(op, ast.NotEq):
        if isinstance(a, Obj):
            m = I.class_attr(a.cls, '__ne__')
            if m is not None and isinstance(m, types.FunctionType):
                return I.call(BoundMethod(m, a), [b], {}, node)
        return mk_bool(T.NOT(T.zbool(values_equal(I, a, b, node))))
    if isinstance(op, (ast.In, ast.NotIn)):
        r = contains(I, b, a, node)
        if isinstance(op, ast.NotIn):
            r = mk_bool(T.NOT(T.zbool(lift(r) if isinstance(r, Sym) else r)))
        return r
    if is_num(a) and is_num(b):
        f = {ast.Lt: _op.lt, ast.LtE: _op.le, ast.Gt: _op.gt, ast.GtE: _op.ge}[type(op)]
        if isinstance(a, int) and isinstance(b, int):
            return f(a, b)
        return mk_bool(f(lift(a), lift(b)))
    if isinstance(a, tuple) and isinstance(b, tuple) and len(a) == len(b) and all(is_num(x) for x in a + b):
        # lexicographic order on tuples of numbers
        strict = isinstance(op, (ast.Lt, ast.Gt))
        less = isinstance(op, (ast.Lt, ast.LtE))
        acc = z3.BoolVal(not strict)
        for x, y in reversed(list(zip(a, b))):
            xe, ye = lift(x), lift(y)
            acc = z3.Or(xe < ye if less else xe > ye, z3.And(xe == ye, acc))
        return mk_bool(acc)
    if is_concrete(a) and is_concrete(b):
        f = {ast.Lt: _op.lt, ast.LtE: _op.le, ast.Gt: _op.gt, ast.GtE: _op.ge}[type(op)]
        return f(to_host(a), to_host(b))
    nm = {ast.Lt: '__lt__', ast.LtE: '__le__', ast.Gt: '__gt__', ast.GtE: '__ge__'}[type(op)]
    ext = getattr(I, 'models_ext', None)
    if ext is not None:
        r = ext.order_compare(I, nm, a, b, node)
        if r is not NotImplemented:
            return r
    raise _oos('comparison %s of %r, %r' % (type(op).__name__, a, b), node)


def _is(a, b):
    if isinstance(a, Sym) or isinstance(b, Sym):
        if a is None or b is None:
            return False
        raise _oos('identity test on symbolic values')
    return a is b


def contains(I, container, x, node):
    if is_str(container) and is_str(x):
        if isinstance(container, str) and isinstance(x, str):
            return x in container
        if isinstance(container, str):
            # symbolic (one-character or arbitrary) needle in a literal haystack
            xe = sym_str(x)
            alts = []
            for ln in range(0, len(container) + 1):
                for st in range(0, len(container) - ln + 1):
                    alts.append(container[st:st + ln])
            alts = sorted(set(alts))
            return mk_bool(T.OR(*[xe == T.lit(a_) for a_ in alts]))
        if isinstance(x, str) and len(x) == 1:
            I.note("'%s' in s == exists character (fold any)" % x)
            f = any_fold(T.CharClass.of(x, repr(x)))
            return mk_bool(f.state((0,), sym_str(container))[0] == 1)
        return mk_bool(z3.Contains(sym_str(container), sym_str(x)))
    if isinstance(container, (PList, tuple, list)):
        seq = indexed(I, container, node)
        if seq.concrete_len is None:
            e = container.e
            return mk_bool(z3.Contains(e, z3.Unit(lift(x))))
        return mk_bool(T.OR(*[T.zbool(values_equal(I, seq.get(I, i), x, node)) for i in range(seq.concrete_len)]))
    if isinstance(container, PDict):
        return hashable(x, node) in container.d
    if isinstance(container, SymMap):
        return mk_bool(z3.Select(container.dom, lift(x)))
    if isinstance(container, Obj):
        m = I.class_attr(container.cls, '__contains__')
        if m is not None and isinstance(m, types.FunctionType):
            return I.call(BoundMethod(m, container), [x], {}, node)
        if '__map' in container.attrs:
            return mk_bool(z3.Select(container.attrs['__map'].dom, lift(x)))
    if is_concrete(container) and is_concrete(x):
        return x in container
    ext = getattr(I, 'models_ext', None)
    if ext is not None:
        r = ext.contains(I, container, x, node)
        if r is not NotImplemented:
            return r
    raise _oos('membership test in %r' % (container,), node)


def getitem(I, v, k, node):
    if isinstance(v, PList):
        if v.concrete:
            if isinstance(k, slice):
                if all(x is None or isinstance(x, int) for x in (k.start, k.stop, k.step)):
                    return PList(v.items[k], cls=v.cls)
                raise _oos('symbolic slice of concrete list', node)
            if isinstance(k, int):
                try:
                    return v.items[k]
                except IndexError:
                    raise _raise(IndexError)
            raise _oos('symbolic index into concrete-spine list', node)
        e, ety = v.e, v.ety

        def wrap(t, is_slice, idx=None):
            return PList(None, t, ety, v.cls) if is_slice else wrap_elt(t, ety)
        return seq_getitem(I, e, ety, k, node, wrap)
    if isinstance(v, Sym) and v.ty == 'str':
        e = v.e

        def wrap(t, is_slice, idx=None):
            return mk_str(t) if is_slice else mk_str(z3.Unit(t))
        return seq_getitem(I, e, 'int', k, node, wrap)
    if isinstance(v, str):
        if isinstance(k, slice):
            if all(x is None or isinstance(x, int) for x in (k.start, k.stop, k.step)):
                return v[k]
            return getitem(I, Sym(T.lit(v), 'str'), k, node)
        if isinstance(k, int):
            try:
                return v[k]
            except IndexError:
                raise _raise(IndexError)
        return getitem(I, Sym(T.lit(v), 'str'), k, node)
    if isinstance(v, Sym) and isinstance(v.ty, tuple) and v.ty[0] in ('seq', 'list'):
        e, ety = v.e, v.ty[1]

        def wrap(t, is_slice, idx=None):
            return Sym(t, v.ty) if is_slice else wrap_elt(t, ety)
        return seq_getitem(I, e, ety, k, node, wrap)
    if isinstance(v, tuple):
        if isinstance(k, (int, slice)) and is_concrete(k):
            try:
                return v[k]
            except IndexError:
                raise _raise(IndexError)
        raise _oos('symbolic index into tuple', node)
    if isinstance(v, PDict):
        k = hashable(k, node)
        if k in v.d:
            return v.d[k]
        raise _raise(KeyError, k)
    if isinstance(v, SymMap):
        from . import dictmodel as DM
        return DM.m_getitem(I, v, k, node)
    if isinstance(v, Obj):
        if hasattr(v, 'tuple_items') and isinstance(k, int):
            return v.tuple_items[k]
        m = I.class_attr(v.cls, '__getitem__')
        if m is not None and isinstance(m, types.FunctionType):
            return I.call(BoundMethod(m, v), [k], {}, node)
        if '__map' in v.attrs:
            from . import dictmodel as DM
            return DM.m_getitem(I, v.attrs['__map'], k, node)
        if m is not None:
            return I.call(BoundMethod(m, v), [k], {}, node)
    if is_concrete(v) and is_concrete(k):
        try:
            return from_host(v[k])
        except Exception as e:      # noqa
            raise _raise(type(e), *e.args)
    raise _oos('subscript of %r' % (v,), node)


def setitem(I, o, k, v, node):
    if isinstance(o, PDict):
        o.d[hashable(k, node)] = v
        return
    if isinstance(o, PList):
        if o.concrete and isinstance(k, int):
            o.items[k] = v
            return
        if not o.concrete and isinstance(k, int) and k == -1:
            n = z3.Length(o.e)
            if not I.decide(n > 0):
                raise _raise(IndexError)
            o.e = z3.simplify(z3.Concat(z3.Extract(o.e, z3.IntVal(0), n - 1), z3.Unit(lift_as(v, o.ety, node))))
            return
        raise _oos('list item assignment', node)
    if isinstance(o, SymMap):
        from . import dictmodel as DM
        return DM.m_setitem(I, o, k, v, node)
    if isinstance(o, Obj):
        m = I.class_attr(o.cls, '__setitem__')
        if m is not None and isinstance(m, types.FunctionType):
            I.call(BoundMethod(m, o), [k, v], {}, node)
            return
        if '__map' in o.attrs:
            from . import dictmodel as DM
            return DM.m_setitem(I, o.attrs['__map'], k, v, node)
    raise _oos('item assignment on %r' % (o,), node)


def delitem(I, o, k, node):
    if isinstance(o, PDict):
        k = hashable(k, node)
        if k not in o.d:
            raise _raise(KeyError)
        del o.d[k]
        return
    if isinstance(o, SymMap):
        from . import dictmodel as DM
        return DM.m_delitem(I, o, k, node)
    if isinstance(o, Obj):
        m = I.class_attr(o.cls, '__delitem__')
        if m is not None and isinstance(m, types.FunctionType):
            I.call(BoundMethod(m, o), [k], {}, node)
            return
        if '__map' in o.attrs:
            from . import dictmodel as DM
            return DM.m_delitem(I, o.attrs['__map'], k, node)
    raise _oos('del item on %r' % (o,), node)


def symbolic_comprehension(I, e, gi, seq, scope):
    return NotImplemented


# ---------------------------------------------------------------------------------------------
# builtin functions


@model(len)
def m_len(I, args, kwargs, node):
    v = args[0]
    if isinstance(v, PList):
        return len(v.items) if v.concrete else mk_int(z3.Length(v.e))
    if isinstance(v, Sym) and (v.ty == 'str' or (isinstance(v.ty, tuple) and v.ty[0] in ('seq', 'list'))):
        return mk_int(z3.Length(v.e))
    if isinstance(v, PDict):
        return len(v.d)
    if isinstance(v, IndexedSeq):
        return v.concrete_len if v.concrete_len is not None else mk_int(v.length)
    if isinstance(v, Obj):
        if hasattr(v, 'tuple_items'):
            return len(v.tuple_items)
        m = I.class_attr(v.cls, '__len__')
        if m is not None:
            return I.call(BoundMethod(m, v), [], {}, node)
        raise _raise(TypeError)
    if isinstance(v, tuple) or is_concrete(v):
        return len(v)
    raise _oos('len of %r' % (v,), node)


def _isinst(I, v, cls, node):
    if isinstance(cls, tuple):
        return any(_isinst(I, v, c, node) for c in cls)
    if isinstance(v, Obj):
        return issubclass(v.cls, cls)
    if isinstance(v, PList):
        return issubclass(v.cls, cls)
    if isinstance(v, PDict):
        return issubclass(dict, cls)
    if isinstance(v, SymMap):
        return issubclass(dict, cls)
    if isinstance(v, Sym):
        if v.ty == 'str':
            return issubclass(str, cls)
        if v.ty == 'int':
            return issubclass(int, cls)
        if v.ty == 'bool':
            return issubclass(bool, cls)
        if isinstance(v.ty, tuple) and v.ty[0] == 'enum':
            return issubclass(v.ty[1], cls)
        if isinstance(v.ty, tuple) and v.ty[0] in ('seq',):
            return issubclass(tuple, cls)
        if isinstance(v.ty, tuple) and v.ty[0] == 'opaque' and len(v.ty) > 2:
            return issubclass(v.ty[2], cls)
        raise _oos('isinstance on %r' % (v,), node)
    if isinstance(v, IndexedSeq):
        return issubclass(collections.abc.Iterator, cls) or cls is collections.abc.Iterable
    if isinstance(v, (Closure, BoundMethod, OpaqueFn)):
        return cls in (collections.abc.Callable,)
    return isinstance(v, cls)


@model(isinstance)
def m_isinstance(I, args, kwargs, node):
    return _isinst(I, args[0], args[1], node)


@model(issubclass)
def m_issubclass(I, args, kwargs, node):
    return issubclass(args[0], args[1])


@model(type)
def m_type(I, args, kwargs, node):
    v = args[0]
    if len(args) != 1:
        raise _oos('3-argument type()', node)
    if isinstance(v, (Obj, PList)):
        return v.cls
    if isinstance(v, PDict):
        return dict
    if isinstance(v, Sym):
        if v.ty in ('str', 'int', 'bool'):
            return {'str': str, 'int': int, 'bool': bool}[v.ty]
        if isinstance(v.ty, tuple) and v.ty[0] == 'enum':
            return v.ty[1]
        raise _oos('type() of %r' % (v,), node)
    return type(v)


@model(bool)
def m_bool(I, args, kwargs, node):
    if not args:
        return False
    return mk_bool(T.zbool(I.truth(args[0], node)))


@model(str)
def m_str(I, args, kwargs, node):
    if not args:
        return ''
    return to_str(I, args[0], node)


@model(int)
def m_int(I, args, kwargs, node):
    v = args[0]
    if is_int(v):
        return v
    if is_boolv(v):
        return mk_int(z3.If(lift(v), z3.IntVal(1), z3.IntVal(0)))
    if is_concrete(v):
        return int(v)
    raise _oos('int() of %r' % (v,), node)


@model(list)
def m_list(I, args, kwargs, node):
    if not args:
        return PList([])
    v = args[0]
    if isinstance(v, PList) and not v.concrete:
        return PList(None, v.e, v.ety)
    if isinstance(v, Sym) and isinstance(v.ty, tuple) and v.ty[0] in ('seq', 'list'):
        return PList(None, v.e, v.ty[1])
    return PList(concrete_items(I, v, node))


@model(tuple)
def m_tuple(I, args, kwargs, node):
    if not args:
        return ()
    v = args[0]
    if isinstance(v, PList) and not v.concrete:
        return Sym(v.e, ('seq', v.ety))
    if isinstance(v, Sym) and isinstance(v.ty, tuple) and v.ty[0] in ('seq', 'list'):
        return Sym(v.e, ('seq', v.ty[1]))
    return tuple(concrete_items(I, v, node))


@model(dict)
def m_dict(I, args, kwargs, node):
    d = PDict()
    if args:
        v = args[0]
        if isinstance(v, PDict):
            d.d.update(v.d)
        elif isinstance(v, SymMap):
            return v.copy()
        elif isinstance(v, Obj) and '__map' in v.attrs:
            return v.attrs['__map'].copy()
        else:
            for it in concrete_items(I, v, node):
                k, x = unpack(I, it, 2, node)
                d.d[hashable(k, node)] = x
    d.d.update(kwargs)
    return d


@model(range)
def m_range(I, args, kwargs, node):
    if all(isinstance(a, int) for a in args):
        r = range(*args)
        return IndexedSeq(len(r), None, lambda I_, i: r[i])
    if len(args) == 1:
        n = lift(args[0])
        return IndexedSeq(None, z3.If(n > 0, n, z3.IntVal(0)), lambda I_, i: mk_int(lift(i)))
    if len(args) == 2:
        lo, hi = lift(args[0]), lift(args[1])
        return IndexedSeq(None, z3.If(hi > lo, hi - lo, z3.IntVal(0)), lambda I_, i: mk_int(lo + lift(i)))
    raise _oos('range with symbolic step', node)


@model(enumerate)
def m_enumerate(I, args, kwargs, node):
    s = indexed(I, args[0], node)
    start = args[1] if len(args) > 1 else kwargs.get('start', 0)
    return IndexedSeq(s.concrete_len, s.length, lambda I_, i: (mk_int(lift(i) + lift(start)) if not (isinstance(i, int) and isinstance(start, int)) else i + start, s.get(I_, i)))


@model(reversed)
def m_reversed(I, args, kwargs, node):
    s = indexed(I, args[0], node)
    if s.concrete_len is not None:
        n = s.concrete_len
        return IndexedSeq(n, None, lambda I_, i: s.get(I_, n - 1 - i))
    return IndexedSeq(None, s.length, lambda I_, i: s.get(I_, mk_int(s.length - 1 - lift(i))))


@model(zip)
def m_zip(I, args, kwargs, node):
    ss = [indexed(I, a, node) for a in args]
    if all(s.concrete_len is not None for s in ss):
        n = min(s.concrete_len for s in ss) if ss else 0
        return IndexedSeq(n, None, lambda I_, i: tuple(s.get(I_, i) for s in ss))
    ln = ss[0].length
    for s in ss[1:]:
        ln = z3.If(s.length < ln, s.length, ln)
    return IndexedSeq(None, ln, lambda I_, i: tuple(s.get(I_, i) for s in ss))


@model(itertools.zip_longest)
def m_zip_longest(I, args, kwargs, node):
    fill = kwargs.get('fillvalue')
    ss = [indexed(I, a, node) for a in args]
    if all(s.concrete_len is not None for s in ss):
        n = max(s.concrete_len for s in ss) if ss else 0
        return IndexedSeq(n, None, lambda I_, i: tuple(s.get(I_, i) if i < s.concrete_len else fill for s in ss))
    ln = ss[0].length
    for s in ss[1:]:
        ln = z3.If(s.length > ln, s.length, ln)

    def get(I_, i):
        out = []
        for s in ss:
            if I_.decide(lift(i) < s.length):
                out.append(s.get(I_, i))
            else:
                out.append(fill)
        return tuple(out)
    return IndexedSeq(None, ln, get)


@model(itertools.chain)
def m_chain(I, args, kwargs, node):
    out = []
    for a in args:
        out.extend(concrete_items(I, a, node))
    return PList(out)


@model(iter)
def m_iter(I, args, kwargs, node):
    v = args[0]
    if isinstance(v, IterState):
        return v
    if (isinstance(v, PList) and not v.concrete) or (isinstance(v, Sym) and isinstance(v.ty, tuple) and v.ty[0] in ('seq', 'list')):
        return v            # iteration over a symbolic-length sequence: the sequence itself (consumed once, in order)
    return IterState(concrete_items(I, v, node))


@model(next)
def m_next(I, args, kwargs, node):
    it = args[0]
    if isinstance(it, PList) and it.concrete:
        # a generator result consumed with next(): treat the PList as the iterator state (destructive)
        if it.items:
            return it.items.pop(0)
        if len(args) > 1:
            return args[1]
        raise _raise(StopIteration)
    if not isinstance(it, IterState):
        raise _oos('next() on %r' % (it,), node)
    if it.pos < len(it.items):
        it.pos += 1
        return it.items[it.pos - 1]
    if len(args) > 1:
        return args[1]
    raise _raise(StopIteration)


@model(filter)
def m_filter(I, args, kwargs, node):
    fn, seq = args
    out = []
    for x in concrete_items(I, seq, node):
        t = I.truth(x, node) if fn is None else I.truth(I.call(fn, [x], {}, node), node)
        if I.decide(T.zbool(t)) if not isinstance(t, bool) else t:
            out.append(x)
    return PList(out)


@model(map)
def m_map(I, args, kwargs, node):
    fn = args[0]
    return PList([I.call(fn, [x], {}, node) for x in concrete_items(I, args[1], node)])


@model(any)
def m_any(I, args, kwargs, node):
    for x in concrete_items(I, args[0], node):
        if I.to_bool(x, node):
            return True
    return False


@model(all)
def m_all(I, args, kwargs, node):
    for x in concrete_items(I, args[0], node):
        if not I.to_bool(x, node):
            return False
    return True


class SymGen:
    """Generator expression over a sequence of symbolic length: `at(i)` is the element for index term i."""
    def __init__(self, length, at):
        self.length, self.at = length, at


def _minmax_symgen(I, gen, node, ismax):
    """min / max of integers over a sequence of unknown length: the library contract of min/max, given pointwise.
    The result m is one of the elements (witness index) and bounds the element at every *ghost index* the contract
    under verification declares (`ghost_indices`) -- which is how a universally quantified fact is used without
    giving the solver a quantifier.  Empty sequence: ValueError, as in Python."""
    n = gen.length
    if I.decide(n == 0):
        raise _raise(ValueError)
    m = fresh_sym('max' if ismax else 'min', 'int')
    j = T.fresh('witness', T.Int)
    ej = gen.at(j)
    if not is_int(ej):
        raise _oos('min/max over non-integer elements of a symbolic-length sequence', node)
    I.assume(z3.And(j >= 0, j < n, lift(ej) == m.e))
    for g in getattr(I.active, 'ghost_indices', []) if I.active is not None else []:
        eg = lift(gen.at(g))
        I.assume(z3.Implies(z3.And(g >= 0, g < n), eg <= m.e if ismax else eg >= m.e))
    return m


def _minmax(I, args, kwargs, node, ismax):
    key = kwargs.get('key')
    if len(args) == 1 and isinstance(args[0], SymGen) and key is None:
        return _minmax_symgen(I, args[0], node, ismax)
    if len(args) == 1:
        items = concrete_items(I, args[0], node)
    else:
        items = list(args)
    if not items:
        raise _raise(ValueError)
    if key is None and all(is_int(x) for x in items) and any(isinstance(x, Sym) for x in items):
        # integers: an if-then-else term instead of a path split
        best = lift(items[0])
        for x in items[1:]:
            xe = lift(x)
            best = z3.If(xe > best, xe, best) if ismax else z3.If(xe < best, xe, best)
        return mk_int(best)
    best = items[0]
    bk = I.call(key, [best], {}, node) if key else best
    for x in items[1:]:
        xk = I.call(key, [x], {}, node) if key else x
        c = compare(I, ast.Gt() if ismax else ast.Lt(), xk, bk, node)
        if I.to_bool(c, node):
            best, bk = x, xk
    return best


@model(min)
def m_min(I, args, kwargs, node):
    return _minmax(I, args, kwargs, node, False)


@model(max)
def m_max(I, args, kwargs, node):
    return _minmax(I, args, kwargs, node, True)


@model(functools.reduce)
def m_reduce(I, args, kwargs, node):
    fn, seq = args[0], concrete_items(I, args[1], node)
    if len(args) > 2:
        acc = args[2]
    elif seq:
        acc, seq = seq[0], seq[1:]
    else:
        raise _raise(TypeError)
    for x in seq:
        acc = I.call(fn, [acc, x], {}, node)
    return acc


@model(callable)
def m_callable(I, args, kwargs, node):
    v = args[0]
    return isinstance(v, (Closure, BoundMethod, OpaqueFn, Model)) or callable(v)


@model(sorted)
def m_sorted(I, args, kwargs, node):
    raise _oos('sorted()', node)


@model(hash)
def m_hash(I, args, kwargs, node):
    ext = getattr(I, 'models_ext', None)
    if ext is not None:
        return ext.hash(I, args[0], node)
    raise _oos('hash()', node)


import io as _io


@model(_io.StringIO)
def m_stringio(I, args, kwargs, node):
    return PStream(args[0] if args else '')


_BASES[list] = ListBase()


# ---------------------------------------------------------------------------------------------
# re


_F2_TEMPLATES = {
    # make: 2n+1 run characters before a special character
    'make': "def repl(m):\n    return m.group(1) * 2 + '\\\\' + m.group(2)",
    # windows: 2n+1 before a quote, 2n at the end of the string
    'windows': "def repl(m):\n    quote = '\\\\' + m.group(2) if len(m.group(2)) else ''\n    return m.group(1) * 2 + quote",
}


def f2_variant(clo):
    """Which known template the replacement closure's AST is (parameter name normalised)."""
    import copy
    node = clo.node
    if not isinstance(node, ast.FunctionDef) or len(node.args.args) != 1:
        return None
    pname = node.args.args[0].arg

    class Ren(ast.NodeTransformer):
        def visit_Name(self, n):
            if n.id == pname:
                return ast.copy_location(ast.Name(id='m', ctx=n.ctx), n)
            return n
    body = [Ren().visit(copy.deepcopy(st)) for st in node.body]
    got = ast.dump(ast.Module(body=body, type_ignores=[]))
    for name, src in _F2_TEMPLATES.items():
        want = ast.dump(ast.Module(body=ast.parse(src).body[0].body, type_ignores=[]))
        if got == want:
            return name
    return None


def f2_semantic_variant(I, fam, repl, node):
    """The replacement (a function, or a template string) decided by its *meaning*: it is interpreted on a symbolic
    match (group 1 = any string, group 2 = one character of the class / a start literal, or empty when the pattern
    can match at the end), and the result is compared with the two known run-doubling functions by a validity
    query under the current path condition:
        make     g1 g1 '\\' g2                       windows   g1 g1 ('\\' g2  if g2 is not empty  else '')"""
    from specs.stubs import MatchStub
    g1, g2 = fresh_sym('m_group1', 'str'), fresh_sym('m_group2', 'str')
    n2 = z3.Length(g2.e)
    dom = [z3.And(n2 == 1, T.OR(fam.cls.contains(g2.e[0]), *[g2.e[0] == c for c in fam.start_lits]))]
    if fam.at_end:
        dom.append(n2 == 0)
    I.assume(z3.Or(*dom))
    if isinstance(repl, str):
        tmpl = RX.parse_template(repl)
        if tmpl is None:
            return None
        parts = []
        for k, x in tmpl:
            if k == 'lit':
                parts.append(T.lit(x))
            elif x == 1:
                parts.append(g1.e)
            elif x == 2:
                parts.append(g2.e)
            else:
                return None
        res = T.cat(*parts) if parts else T.empty()
    else:
        m = Obj(MatchStub, {'_groups': (Sym(T.cat(g1.e, g2.e), 'str'), g1, g2)})
        r = I.call(repl, [m], {}, node)
        if isinstance(r, str):
            res = T.lit(r)
        elif isinstance(r, Sym) and r.ty == 'str':
            res = r.e
        else:
            return None
    bs = T.lit('\\')
    want = {'make': T.cat(g1.e, g1.e, bs, g2.e),
            'windows': z3.If(n2 > 0, T.cat(g1.e, g1.e, bs, g2.e), T.cat(g1.e, g1.e))}
    for name in (('windows', 'make') if fam.at_end else ('make', 'windows')):
        sv = z3.Solver()
        sv.set('timeout', 5000)
        for c in I.pc:
            sv.add(c)
        sv.add(res != want[name])
        if sv.check() == z3.unsat:
            return name
    return None


_F2_FOLDS = {}


def f2_fold(fam, variant):
    """re.sub for the family (a*)(ALT) with the make / windows replacement, as a transducer.

    state (k, pos0): k = length of the current run of the run character (already copied to the output),
    pos0 = 1 only before the first character.  A special character after a run of k gets k + 1 more run
    characters in front of it (2k+1 in total); at the end of the string the windows variant (ALT has `$`)
    doubles a trailing run (flush).  Assumes no line break in the subject when ALT has `$` (Python's `$`
    also matches before a trailing newline) -- the callers' contracts exclude line breaks."""
    key = (fam.run_char, fam.cls, tuple(fam.start_lits), fam.at_end, variant)
    if key not in _F2_FOLDS:
        rc, cls, starts, at_end = fam.run_char, fam.cls, list(fam.start_lits), fam.at_end

        def step(st, c):
            k, pos0 = st
            is_run = T.eq(c, rc)
            special = cls.contains(c)
            for sl in starts:
                special = T.OR(special, T.AND(T.eq(pos0, 1), T.eq(c, sl)))
            k2 = T.ite(is_run, k + 1, 0)
            out = T.ite(is_run, T.unit(c),
                  T.ite(special, T.cat(T.rep(rc, k), T.unit(rc), T.unit(c)), T.unit(c)))
            return (k2, 0), out
        f = T.Fold('f2_%s_%d' % (variant, len(_F2_FOLDS)), 2, step, 're.sub family F2 (%s)' % variant)
        f.fam, f.variant = fam, variant
        if at_end:
            f.flush = lambda st: T.rep(rc, st[0])
        else:
            f.flush = lambda st: T.empty()
        _F2_FOLDS[key] = f
    return _F2_FOLDS[key]


_F3_FOLDS = {}


def f3_fold(sep, classes, lit_, name=None):
    """re.sub('(^|SEP)X1..Xk(?=SEP|$)', r'\\1LIT', s) for k <= 2 and classes that do not match SEP: every
    SEP-separated component that consists of exactly k characters matching X1..Xk is replaced by LIT.
    state (j, b1, b2): j = number of characters of the current component held back (still a candidate), or -1 once
    the component is known not to match (its characters have been copied); b1, b2 = the held-back characters."""
    key = (sep, classes, lit_, name)
    if key in _F3_FOLDS:
        return _F3_FOLDS[key]
    k = len(classes)

    def buf(j, b1, b2):
        return T.ite(T.eq(j, 1), T.unit(b1), T.ite(T.eq(j, 2), T.cat(T.unit(b1), T.unit(b2)), T.empty()))

    def step(st, c):
        j, b1, b2 = st
        is_sep = T.eq(c, sep)
        full = T.eq(j, k)
        can0 = T.AND(T.eq(j, 0), classes[0].contains(c)) if k >= 1 else False
        can1 = T.AND(T.eq(j, 1), classes[1].contains(c)) if k >= 2 else False
        extend = T.OR(can0, can1)
        j2 = T.ite(is_sep, 0, T.ite(extend, j + 1, -1))
        nb1 = T.ite(T.AND(T.NOT(is_sep), can0), c, b1)
        nb2 = T.ite(T.AND(T.NOT(is_sep), can1), c, b2)
        out = T.ite(is_sep, T.cat(T.ite(full, T.lit(lit_), buf(j, b1, b2)), T.unit(c)),
              T.ite(extend, T.empty(), T.cat(buf(j, b1, b2), T.unit(c))))
        return (j2, nb1, nb2), out
    f = T.Fold(name or 'f3_%d' % len(_F3_FOLDS), 3, step, 're.sub family F3')
    f.init = (0, 0, 0)
    f.flush = lambda st: T.ite(T.eq(st[0], k), T.lit(lit_), buf(st[0], st[1], st[2]))
    f.k = k
    _F3_FOLDS[key] = f
    return f


class PatternMethod(Model):
    def __init__(self, pat, name):
        self.pat, self.name = pat, name

    def __call__(self, I, args, kwargs, node):
        if all_concrete(args) and all_concrete(list(kwargs.values())):
            return from_host(getattr(self.pat, self.name)(*[to_host(a) for a in args], **kwargs))
        return re_call(I, self.name, self.pat.pattern, self.pat.flags & ~re.UNICODE, args, kwargs, node)


def re_call(I, name, pattern, flags, args, kwargs, node):
    if flags:
        raise _oos('regex flags', node)
    fam = RX.classify(pattern)
    if fam is None:
        raise _oos('regex %r fits no supported family' % pattern, node)
    I.note('re %s(%r): family %s' % (name, pattern, type(fam).__name__))
    if name in ('search',):
        s = args[0]
        if isinstance(fam, RX.F1):
            f = any_fold(fam.cls)
            return MatchTruth(mk_bool(f.state((0,), sym_str(s))[0] == 1))
        if isinstance(fam, RX.F5):
            # `$` matches at the end and also before a trailing line break
            se = sym_str(s)
            n = z3.Length(se)
            f = any_fold(fam.cls)
            ends = T.OR(*[z3.Or(z3.And(n > 0, se[n - 1] == a), z3.And(n > 1, se[n - 1] == 10, se[n - 2] == a))
                          for a in fam.end_lits])
            return MatchTruth(mk_bool(z3.Or(f.state((0,), se)[0] == 1, ends)))
        raise _oos('re.search with family %s' % type(fam).__name__, node)
    if name == 'sub':
        repl, s = args[0], args[1]
        if isinstance(fam, RX.F1) and isinstance(repl, str):
            tmpl = RX.parse_template(repl)
            if tmpl is None or any(k == 'group' and x != fam.group for k, x in tmpl):
                raise _oos('unsupported replacement template %r' % repl, node)
            f = sub_fold(fam.cls, tmpl)
            return mk_str(f.out((0,), sym_str(s)))
        if isinstance(fam, RX.F3) and isinstance(repl, str) and len(args) == 2 and not kwargs:
            tmpl = RX.parse_template(repl)
            if (tmpl is None or len(tmpl) != 2 or tmpl[0] != ('group', 1) or tmpl[1][0] != 'lit'):
                raise _oos('unsupported replacement template %r for family F3' % repl, node)
            if any(k.contains(fam.sep) or k.contains(10) for k in fam.comp_classes) or len(fam.comp_classes) > 2:
                raise _oos('family F3 with a class that matches the separator or a line break', node)
            f = f3_fold(fam.sep, tuple(fam.comp_classes), tmpl[1][1])
            st, out = f.run(f.init, sym_str(s))
            return mk_str(T.cat(out, f.flush(st)))
        if isinstance(fam, RX.F2) and isinstance(repl, (Closure, str)):
            variant = f2_variant(repl) if isinstance(repl, Closure) else None
            if variant is None:
                variant = f2_semantic_variant(I, fam, repl, node)
            if variant is None:
                raise _oos('re.sub(%r): the replacement is neither of the two known run-doubling functions' % pattern, node)
            f = f2_fold(fam, variant)
            st, out = f.run((0, 1), sym_str(s))
            tail = f.flush(st)
            return mk_str(T.cat(out, tail))
        raise _oos('re.sub(%r) with this replacement' % pattern, node)
    raise _oos('re.%s' % name, node)


class MatchTruth:
    """Result of re.search used only for its truth value."""

    def __init__(self, b):
        self.b = b


@model(re.sub)
def m_re_sub(I, args, kwargs, node):
    pat = args[0]
    if isinstance(pat, re.Pattern):
        return re_call(I, 'sub', pat.pattern, pat.flags & ~re.UNICODE, args[1:], kwargs, node)
    if not isinstance(pat, str):
        raise _oos('symbolic regex', node)
    return re_call(I, 'sub', pat, 0, args[1:], kwargs, node)


@model(re.search)
def m_re_search(I, args, kwargs, node):
    pat = args[0]
    if not isinstance(pat, str):
        raise _oos('symbolic regex', node)
    return re_call(I, 'search', pat, 0, args[1:], kwargs, node)
