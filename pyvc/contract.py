"""Contracts, proof scripts, lemmas and the verification-condition generator.

A contract is a sidecar object keyed to a real function of /repo (file :: qualname).  Verifying it means:
symbolically executing the function's *current* AST under `requires`, and emitting, for every path, one
obligation per `ensures` clause (plus the side obligations collected on the path: callee preconditions,
loop-invariant entry/maintenance, hint assertions).  Nothing is assumed except `requires`, callee
`ensures`, loop invariants after havoc, proven lemma instances and the defining equations of folds.
"""
import importlib
import os
import types
import z3

from . import terms as T
from .interp import (Interp, Closure, RaiseSig, Obligation, OutOfSubset, fn_source, REPO)
from .values import Sym, Obj, PList, ExcVal, fresh_sym, clone_value


class Args:
    """Namespace of bound arguments and ghosts."""

    def __init__(self, d=None, ghosts=None):
        self.__dict__['_d'] = dict(d or {})
        self.__dict__['_g'] = dict(ghosts or {})

    def __getattr__(self, k):
        if k in self._d:
            return self._d[k]
        if k in self._g:
            return self._g[k]
        raise AttributeError(k)

    def __setattr__(self, k, v):
        self._g[k] = v


def resolve_target(target):
    """'bfg9000/shell/posix.py::Class.method' -> (underlying function object, owner class or None)."""
    path, qual = target.split('::')
    modname = path[:-3].replace('/', '.')
    mod = importlib.import_module(modname)
    obj = mod
    owner = None
    parts = qual.split('.')
    for i, p in enumerate(parts):
        if isinstance(obj, type):
            owner = obj
            nm = p
            if nm.startswith('__') and not nm.endswith('__'):
                nm = '_' + obj.__name__.lstrip('_') + nm
            raw = None
            for k in obj.__mro__:
                if nm in k.__dict__:
                    raw = k.__dict__[nm]
                    break
            if raw is None:
                raise LookupError('%s has no %s' % (obj, nm))
            obj = raw
        else:
            obj = getattr(obj, p)
    kind = 'function'
    if isinstance(obj, (staticmethod, classmethod)):
        kind = 'staticmethod' if isinstance(obj, staticmethod) else 'classmethod'
        obj = obj.__func__
    if isinstance(obj, property):
        kind = 'property'
        obj = obj.fget
    if not isinstance(obj, types.FunctionType):
        raise LookupError('%s is not a function: %r' % (target, obj))
    return obj, owner, kind


class LoopInv:
    """Invariant of one loop: inv(I, frame, locals, i, seq) -> dict name -> z3 Bool."""

    def __init__(self, fn, var_types=None, havoc_obj=None, decreases=None):
        self.fn = fn
        self.var_types = var_types or {}
        self.havoc_obj = havoc_obj
        self._dec = decreases

    def at(self, I, fr, loc, i, seq):
        r = self.fn(I, loc, i, seq)
        return r if isinstance(r, dict) else {'inv': r}

    def decreases(self, I, fr, loc):
        return self._dec(I, loc) if self._dec else None


class Contract:
    target = None
    properties = ()
    doc = ''
    deductive = True        # False: runtime contract only (bounded stand-in), with `reason`
    expr_overrides = False  # True: expr_override() is consulted for every expression of the verified body
    raises_exact = True     # False: `raises` lists what the function *may* raise (no "must not raise otherwise")

    def __init__(self):
        self.fn, self.owner, self.kind = resolve_target(self.target)

    # ---- to be overridden -------------------------------------------------------------------
    def cases(self):
        return ['']

    def case_in_property(self, case, pid):
        """Which cases carry which property (default: all)."""
        return True

    def active_cases(self):
        pid = getattr(self, 'active_property', None)
        return [c for c in self.cases() if pid is None or self.case_in_property(c, pid)]

    def params(self, cx, case):
        """dict param name -> value for verification of `case`; ghosts via cx.ghost(name, value)."""
        raise NotImplementedError

    def requires(self, a):
        return z3.BoolVal(True)

    def ensures(self, a, r):
        return {}

    def raises(self, a):
        """list of (ExceptionClass, condition): the function raises that exception iff condition."""
        return []

    def exc_ensures(self, a, exc):
        """dict name -> condition that holds whenever the function leaves with exception `exc`."""
        return {}

    def result_value(self, I, a):
        raise NotImplementedError('%s: result_value needed for call-site use' % self.target)

    def effects(self, I, a):
        """Havoc what the function mutates (call-site use)."""

    def call_ghosts(self, I, a, frame, site):
        """Ghost instantiation at a call site; default: ask the contract under verification."""
        act = I.active
        if act is not None and hasattr(act, 'ghosts_for'):
            g = act.ghosts_for(self, a, frame, site)
            if g is not None:
                return g
        return {}

    def loops(self):
        """dict (function name, loop ordinal) -> LoopInv"""
        return {}

    def proof(self, p, a, r, name, case):
        """Proof script for the ensures clause `name` (default: direct)."""
        p.qed()

    def exc_proof(self, p, a, exc, case):
        p.qed()

    def expr_override(self, I, node, fr):
        """Library contracts that are keyed to an expression *shape* of the verified body (matched on the unparsed
        source text): return a value, or NotImplemented."""
        return NotImplemented

    def opaque_calls(self):
        """{callable: handler(I, args, kwargs, node)}: calls the verified body makes that are treated as opaque,
        effect-recording operations (they append to I.events)."""
        return {}

    def side_proof(self, p, a, kind, name, case):
        """Proof script for a side obligation of the path (callee precondition, loop entry / maintenance)."""
        p.qed()

    def configs(self):
        return [{}]

    # ---- native side (real function under CPython) ------------------------------------------
    def native_params(self, case):
        """Names of the parameters when they are all plain strings (default harness); None = no default harness."""
        return None

    def native_alphabet(self):
        return None

    def native_inputs(self, case, alphabet, maxlen, rng, extra=0):
        from .native import default_inputs
        return default_inputs(self, case, alphabet, maxlen, rng, extra)

    def native_ghosts(self, case, raw):
        return {}

    def native_build(self, case, raw):
        g = self.native_ghosts(case, raw)
        if g is None:
            return None
        return dict(raw), Args(dict(raw), g)

    def native_call(self, case, call_args):
        if self.kind == 'classmethod':
            return self.fn(self.owner, **call_args)
        return self.fn(**call_args)

    def native_result(self, case, res):
        return res

    def native_plain(self, res):
        return res

    def native_explain(self, case, raw, res):
        return None

    def uses_lemmas(self):
        return ()

    # ---- machinery --------------------------------------------------------------------------
    def loop_invariant(self, fname, lid):
        return self.loops().get((fname, lid))

    def apply_at_call(self, I, bound, site, frame):
        if type(self).result_value is Contract.result_value:
            from .interp import InlineInstead
            raise InlineInstead()          # verified on its own, but no call-site abstraction: callers inline it
        import enum as _enum
        import types as _types
        if bound and all(v is None or isinstance(v, (str, int, bool, _enum.Enum, _types.FunctionType))
                         for v in bound.values()):
            # every argument is a concrete value: interpreting the body gives the concrete result, which is more
            # precise than the contract's relational postcondition
            from .interp import InlineInstead
            raise InlineInstead()
        a = Args(bound)
        for k, v in self.call_ghosts(I, a, frame, site).items():
            setattr(a, k, v)
        pre = self.requires(a)
        I.oblige('%s.pre' % site, pre, 'call-pre')
        I.assume(pre)
        for exc, cond in self.raises(a):
            if I.decide(T.zbool(cond)):
                raise RaiseSig(ExcVal(exc, ()))
        r = self.result_value(I, a)
        self.effects(I, a)
        for g in self.ensures(a, r).values():
            I.assume(g)
        return r


class Cx:
    def __init__(self):
        self.ghosts = {}
        self.assumes = []

    def ghost(self, name, v):
        self.ghosts[name] = v
        return v

    def str(self, name):
        c = z3.Const(name, T.Str)
        # a Python str is a sequence of code points: no negative element (negative codes are spec-side markers)
        from .models import any_fold
        self.assumes.append(z3.Not(any_fold(T.NEGATIVE).state((0,), c)[0] == 1))
        return Sym(c, 'str')

    def int(self, name):
        return Sym(z3.Const(name, T.Int), 'int')

    def bool(self, name):
        return Sym(z3.Const(name, T.Bool), 'bool')


# ---------------------------------------------------------------------------------------------
# proofs


class Proof:
    """A proof script builder.  Every step that introduces a fact emits the obligation that justifies it."""

    def __init__(self, name, assumptions, goal, sink, meta=None):
        self.name, self.assumptions, self.goal, self.sink = name, list(assumptions), T.zbool(goal), sink
        self.meta = meta or {}
        self.closed = False

    def _emit(self, suffix, goal, kind):
        nm = self.name + ('.' + suffix if suffix else '')
        self.sink.append(Obligation(nm, list(self.assumptions), T.zbool(goal), kind, dict(self.meta)))

    def have(self, label, fact):
        """Prove `fact` from the current assumptions, then use it."""
        self._emit('have.' + label, fact, 'hint')
        self.assumptions.append(fact)
        return self

    def use(self, inst):
        """Add an instance of a proven lemma (or a fold-definition instance)."""
        if not isinstance(inst, LemmaInst):
            raise TypeError('use() takes a lemma instance')
        self.need(inst.lemma)          # a lemma may only be used in a run that also proves it
        self.assumptions.append(inst.formula)
        self.meta.setdefault('lemmas', []).append(inst.lemma.name)
        return self

    def need(self, lemma):
        """Make sure the (generated) lemma's own obligations are part of this run."""
        done = getattr(self.sink, 'lemmas_done', None)
        if done is None:
            done = _LEMMAS_DONE
        if lemma.name not in done:
            done.add(lemma.name)
            for ob in lemma.obligations():
                ob.meta['lemma'] = lemma.name
                self.sink.append(ob)
        return self

    def let(self, prefix, sort=None, value=None):
        """Fresh constant equal to `value` (definitional extension: conservative)."""
        c = T.fresh(prefix, value.sort() if value is not None else sort)
        if value is not None:
            self.assumptions.append(c == value)
        return c

    def subst(self, label, const, term):
        """Prove const == term, then replace const by term everywhere (and re-normalise)."""
        self._emit('subst.' + label, const == term, 'hint')
        pairs = [(const, term)]
        self.assumptions = [z3.substitute(x, *pairs) for x in self.assumptions]
        self.goal = z3.substitute(self.goal, *pairs)
        return self

    def rewrite(self, label, old, new):
        """Prove old == new (any terms), then replace old by new in the goal."""
        self._emit('rewrite.' + label, old == new, 'hint')
        self.goal = z3.substitute(self.goal, (old, new))
        return self

    def intro(self):
        """Goal A ==> B: assume A, prove B (deduction rule).  Returns A."""
        g = self.goal
        if not T.is_app(g, z3.Z3_OP_IMPLIES):
            raise ValueError('intro(): goal is not an implication')
        self.assumptions.append(g.arg(0))
        self.goal = g.arg(1)
        return g.arg(0)

    def cases(self, label, conds):
        """conds: list of (name, Bool). Emits exhaustiveness; returns the sub-proofs."""
        self._emit('cases.' + label + '.exhaustive', T.OR(*[c for _, c in conds]), 'hint')
        self.closed = True
        subs = []
        for nm, c in conds:
            p = Proof(self.name + '.' + label + '=' + nm, self.assumptions + [c], self.goal, self.sink, dict(self.meta))
            subs.append(p)
        return subs

    def qed(self, goal=None):
        self._emit('', self.goal if goal is None else goal, self.meta.get('kind', 'post'))
        self.closed = True


_LEMMAS_DONE = set()


def reset_generated_lemmas():
    _LEMMAS_DONE.clear()


class LemmaInst:
    def __init__(self, lemma, formula):
        self.lemma, self.formula = lemma, formula


class Lemma:
    """forall vars. stmt(vars), proved directly or by an induction schema.

    induct=('snoc', 'u'): base stmt(u:=eps), step  stmt(u) ==> stmt(u . [c])  for fresh u, c
    induct=('nat', 'n') : base stmt(n:=0),  step  n >= 0 /\\ stmt(n) ==> stmt(n+1)
    Other variables are universally quantified *outside* the induction unless listed in `generalize`,
    in which case the proof script may instantiate the hypothesis at other values via ih(...).
    The schemas' soundness is the usual induction principle for finite sequences / naturals
    (checked once in Lean: lean/Schemas.lean).
    """

    REG = {}

    def __init__(self, name, vars, stmt, induct=None, script=None, generalize=(), pre=None):
        self.name, self.vars, self.stmt, self.induct, self.script = name, vars, stmt, induct, script
        self.generalize = generalize
        Lemma.REG[name] = self

    def inst(self, **kw):
        return LemmaInst(self, self.stmt(**kw))

    def obligations(self):
        sink = []
        consts = {n: z3.Const('L_%s_%s' % (self.name, n), s) for n, s in self.vars}
        if self.induct is None:
            p = Proof('lemma.%s' % self.name, [], self.stmt(**consts), sink, {'kind': 'lemma'})
            (self.script or (lambda p, **k: p.qed()))(p, phase='direct', ih=None, **consts)
            return sink
        kind, v = self.induct
        if kind == 'snoc':
            base = dict(consts)
            base[v] = T.empty()
            p = Proof('lemma.%s.base' % self.name, [], self.stmt(**base), sink, {'kind': 'lemma'})
            (self.script or _default_script)(p, phase='base', ih=None, **base)
            u = consts[v]
            c = z3.Const('L_%s_c' % self.name, T.Int)
            step = dict(consts)
            step[v] = T.cat(u, T.unit(c))

            def ih(**over):
                kw = dict(consts)
                for k in over:
                    if k not in self.generalize:
                        raise ValueError('induction hypothesis may only vary generalized variables')
                kw.update(over)
                return LemmaInst(self, self.stmt(**kw))
            p = Proof('lemma.%s.step' % self.name, [self.stmt(**consts)], self.stmt(**step), sink, {'kind': 'lemma'})
            kw = dict(step)
            kw['c'] = c
            kw['u0'] = u
            (self.script or _default_script)(p, phase='step', ih=ih, **kw)
            return sink
        if kind == 'nat':
            base = dict(consts)
            base[v] = z3.IntVal(0)
            p = Proof('lemma.%s.base' % self.name, [], self.stmt(**base), sink, {'kind': 'lemma'})
            (self.script or _default_script)(p, phase='base', ih=None, **base)
            n = consts[v]
            step = dict(consts)
            step[v] = n + 1

            def ih(**over):
                kw = dict(consts)
                kw.update(over)
                return LemmaInst(self, self.stmt(**kw))
            p = Proof('lemma.%s.step' % self.name, [n >= 0, self.stmt(**consts)], self.stmt(**step), sink,
                      {'kind': 'lemma'})
            kw = dict(step)
            kw['n0'] = n
            (self.script or _default_script)(p, phase='step', ih=ih, **kw)
            return sink
        raise ValueError(kind)


def _default_script(p, **kw):
    p.qed()


# ---------------------------------------------------------------------------------------------
# verification of one contract


def verify_inherited(con, registry, config, rep):
    """A method the class does *not* override: its behaviour is the base class' library model."""
    rep.source = {'file': '(inherited from %s)' % con.inherited, 'qualname': con.target.split('::')[1], 'line': 0,
                  'sha256': '', 'lines': 0}
    for case in con.active_cases():
        I = Interp(contracts=registry, config=config or {})
        I.active = con
        cx = Cx()
        bound = con.params(cx, case)
        I.ghost_keys = list(getattr(con, 'ghost_keys', []))
        a0 = Args(bound, cx.ghosts)
        pre = con.requires(a0)

        def thunk():
            I.assume(pre)
            memo = {}
            args = {k: clone_value(v, memo) for k, v in bound.items()}
            pa = Args(args, cx.ghosts)
            con.cur = pa
            try:
                r = con.run_inherited(I, dict(args))
                return 'return', (r, pa)
            except RaiseSig as rs:
                return 'raise', (rs.exc, pa)
        results = I.explore(thunk)
        tag = con.target.split('::')[1] + (('[' + case + ']') if case else '')
        for idx, res in enumerate(results):
            pname = '%s.p%d' % (tag, idx)
            val, a = res.value
            rep.paths.append({'name': pname, 'kind': res.kind if res.kind != 'raise' else 'raise:' + val.cls.__name__,
                              'pc': res.pc, 'value': val, 'args': a, 'case': case, 'contract': con})
            if res.kind == 'return':
                for nm, g in con.ensures(a, val).items():
                    rep.canaries.append(('%s.%s' % (pname, nm), list(res.pc), g))
                    p = Proof('%s.%s' % (pname, nm), res.pc, g, rep.obligations, {'kind': 'post', 'path': pname})
                    con.proof(p, a, val, nm, case)
                    if not p.closed:
                        p.qed()
            elif res.kind == 'raise':
                conds = [T.zbool(c) for exc, c in con.raises(a) if issubclass(val.cls, exc)]
                Proof('%s.raises.%s' % (pname, val.cls.__name__), res.pc, T.OR(*conds), rep.obligations,
                      {'kind': 'exc', 'path': pname}).qed()
    return rep


class VerifyReport:
    def __init__(self, target):
        self.target = target
        self.obligations = []
        self.paths = []
        self.error = None
        self.notes = set()
        self.source = None
        self.canaries = []      # (name, assumptions, goal): assumptions /\ goal must be satisfiable


def verify_contract(con, registry, config=None):
    """Generate all obligations for `con` from the current source of its target."""
    rep = VerifyReport(con.target)
    if getattr(con, 'inherited', None):
        return verify_inherited(con, registry, config, rep)
    fnode, clsname, qual, path = fn_source(con.fn)
    import ast as _ast
    import hashlib
    seg = _ast.get_source_segment(open(path).read(), fnode) or ''
    rep.source = {'file': os.path.relpath(path, REPO), 'qualname': qual, 'line': fnode.lineno,
                  'sha256': hashlib.sha256(seg.encode()).hexdigest(), 'lines': seg.count('\n') + 1}
    from . import interp as _interp
    _interp.INLINED_FILES.clear()
    try:
        return _verify_cases(con, registry, config, rep, fnode, clsname, qual)
    finally:
        # the path-shape guard of the lock compares runs on *unchanged* source: that includes every file whose
        # functions were inlined while exploring this contract
        h = hashlib.sha256(rep.source['sha256'].encode())
        for f in sorted(_interp.INLINED_FILES):
            try:
                h.update(open(f, 'rb').read())
            except OSError:
                pass
        rep.source['closure_sha256'] = h.hexdigest()


def _verify_cases(con, registry, config, rep, fnode, clsname, qual):
    for case in con.active_cases():
        I = Interp(contracts=registry, config=config or {})
        I.active = con
        cx = Cx()
        try:
            bound = con.params(cx, case)
        except OutOfSubset as e:
            rep.error = 'out-of-subset: %s' % e
            return rep
        I.ghost_keys = list(getattr(con, 'ghost_keys', []))
        a = Args(bound, cx.ghosts)
        con.cur = a
        pre = con.requires(a)
        clo = Closure(fnode, [], con.fn.__globals__, clsname, qual,
                      [I.models.from_host(d) for d in (con.fn.__defaults__ or ())],
                      {k: I.models.from_host(v) for k, v in (con.fn.__kwdefaults__ or {}).items()})
        if con.fn.__closure__:
            cenv = {}
            for nm, cell in zip(con.fn.__code__.co_freevars, con.fn.__closure__):
                try:
                    cenv[nm] = I.models.from_host(cell.cell_contents)
                except ValueError:
                    pass
            clo.envs = [cenv]

        def thunk():
            for extra in cx.assumes:
                I.assume(extra)
            I.assume(pre)
            if not I.feasible():
                from .interp import Infeasible
                raise Infeasible()
            # every path starts from fresh copies of the mutable arguments (re-execution forking)
            memo = {}
            args = {k: clone_value(v, memo) for k, v in bound.items()}
            pa = Args(args, cx.ghosts)
            con.cur = pa
            I.path_args = pa
            try:
                if getattr(con, 'inherited', None):
                    r = con.run_inherited(I, dict(args))
                else:
                    kw = dict(args)
                    pos = []
                    # a parameter of the function under contract was renamed (callers pass it by position): exactly one
                    # contract key and one parameter are unmatched -> same parameter; anything less clear is a
                    # contract that no longer fits the function (UNDECIDED), never a TypeError "found" in the code
                    fa = clo.node.args
                    names = [p_.arg for p_ in fa.posonlyargs + fa.args + fa.kwonlyargs] + ([fa.vararg.arg] if fa.vararg else [])
                    unk = [k_ for k_ in kw if k_ != '*args' and k_ not in names]
                    if unk and not fa.kwarg:
                        free = [n_ for n_ in names if n_ not in kw]
                        if len(unk) == 1 and len(free) == 1:
                            kw = {(free[0] if k_ == unk[0] else k_): v_ for k_, v_ in kw.items()}
                        else:
                            raise OutOfSubset('contract-mismatch: parameters %r of the contract are not parameters of %s'
                                              % (unk, clo.name), clo.node)
                    extra = kw.pop('*args', None)
                    if extra is not None:
                        for prm in clo.node.args.posonlyargs + clo.node.args.args:
                            if prm.arg in kw:
                                pos.append(kw.pop(prm.arg))
                            else:
                                break
                        pos += list(extra)
                    r = I.call_closure(clo, pos, kw, None, top=True)
                pa.events = list(I.events)
                return 'return', (r, pa)
            except RaiseSig as rs:
                pa.events = list(I.events)
                return 'raise', (rs.exc, pa)
        try:
            results = I.explore(thunk)
        except OutOfSubset as e:
            rep.error = 'out-of-subset: %s' % e
            return rep
        except z3.Z3Exception as e:
            rep.error = 'out-of-subset: encoding limit (%s)' % e
            return rep
        tag = con.target.split('::')[1] + (('[' + case + ']') if case else '')
        if not results:
            rep.error = 'vacuous: no feasible path under requires (case %r)' % case
            return rep
        for idx, res in enumerate(results):
            pname = '%s.p%d' % (tag, idx)
            if res.kind in ('return', 'raise'):
                res.value, a = res.value
            raise_specs = con.raises(a)
            rep.paths.append({'name': pname, 'kind': res.kind if res.kind != 'raise' else 'raise:' + res.value.cls.__name__,
                              'pc': res.pc, 'value': res.value, 'args': a, 'case': case, 'contract': con})
            rep.notes.update(res.notes)
            for ob in res.obls:
                sp = Proof('%s.%s' % (pname, ob.name), ob.assumptions, ob.goal, rep.obligations,
                           {'kind': ob.kind, 'path': pname})
                con.side_proof(sp, a, ob.kind, ob.name, case)
                if not sp.closed:
                    sp.qed()
            if res.kind == 'return':
                ens = con.ensures(a, res.value)
                for nm, g in ens.items():
                    rep.canaries.append(('%s.%s' % (pname, nm), list(res.pc), g))
                    p = Proof('%s.%s' % (pname, nm), res.pc, g, rep.obligations, {'kind': 'post', 'path': pname})
                    con.proof(p, a, res.value, nm, case)
                    if not p.closed:
                        p.qed()
                for exc, cond in (raise_specs if con.raises_exact else []):
                    Proof('%s.noraise.%s' % (pname, exc.__name__), res.pc, T.NOT(T.zbool(cond)), rep.obligations,
                          {'kind': 'post', 'path': pname}).qed()
            elif res.kind == 'raise':
                conds = [T.zbool(c) for exc, c in raise_specs if issubclass(res.value.cls, exc)]
                p = Proof('%s.raises.%s' % (pname, res.value.cls.__name__), res.pc, T.OR(*conds), rep.obligations,
                          {'kind': 'exc', 'path': pname})
                con.exc_proof(p, a, res.value, case)
                if not p.closed:
                    p.qed()
                # named postconditions of an exceptional exit (state and events at the raise)
                for nm, g in (con.exc_ensures(a, res.value) or {}).items():
                    rep.canaries.append(('%s.raised.%s' % (pname, nm), list(res.pc), g))
                    Proof('%s.raised.%s' % (pname, nm), res.pc, g, rep.obligations, {'kind': 'exc', 'path': pname}).qed()
            elif res.kind == 'cut':
                pass
    return rep
