"""Development runner: verify the contracts of one module and print every obligation's verdict."""
import sys, time, importlib
import z3
from pyvc import terms as T
from pyvc.contract import verify_contract, Lemma
from pyvc import solve


def run(modname, only=None, timeout=20):
    mod = importlib.import_module(modname)
    cons = mod.registry()
    reg = {c.fn: c for c in cons if c.deductive}
    # several contracts may target the same function (different argument types): dispatch list
    obls = []
    for lem in getattr(mod, 'LEMMAS', []):
        obls += lem.obligations()
    for c in cons:
        if only and only not in c.target and only not in type(c).__name__:
            continue
        if not c.properties or not c.deductive:
            continue
        t0 = time.time()
        rep = verify_contract(c, reg)
        print('== %s (%s): %d paths, %d obligations, %.2fs %s' % (c.target, type(c).__name__, len(rep.paths), len(rep.obligations), time.time() - t0, rep.error or ''))
        for p in rep.paths:
            print('   path', p['name'], p['kind'])
        obls += rep.obligations
    tasks = []
    for i, ob in enumerate(obls):
        ass, goal = T.prepare(ob.assumptions, ob.goal)
        tasks.append(solve.Task(i, solve.to_smt2(ass, goal)))
    res = solve.discharge_all(tasks, timeout_s=timeout)
    bad = 0
    for i, ob in enumerate(obls):
        r = res[i]
        ok = r['status'] == 'unsat'
        bad += not ok
        print('%-8s %6.2fs %-18s %s' % ('proved' if ok else r['status'].upper(), r['time'], r['backend'], ob.name))
        if not ok and r.get('model'):
            print('      model:', {k: v for k, v in r['model'].items() if not k.startswith('k!')})
    print('%d obligations, %d not discharged' % (len(obls), bad))
    return obls, res


if __name__ == '__main__':
    run(sys.argv[1], sys.argv[2] if len(sys.argv) > 2 else None)
