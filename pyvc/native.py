"""Native side: the same contracts evaluated on the real functions under CPython.

* encoding cross-check: symbolic path results vs. the real function on enumerated inputs (a disagreement
  is an error of the *check*, exit 3);
* executable contracts: `requires`/`ensures` evaluated on real inputs/outputs (bounded, labelled so);
* replay: search for a concrete failing input of the real function for an obligation that failed.
"""
import itertools
import json
import os
import random
import time

import z3

from . import terms as T
from .values import Sym, Obj, PList, lift
from .contract import Args

VERIF = os.path.dirname(os.path.dirname(os.path.abspath(__file__)))


# ---- concrete evaluation of terms --------------------------------------------------------------


def eval_term(e, pairs=()):
    if pairs:
        e = z3.substitute(e, *pairs)
    _, g = T.prepare([], e)
    return z3.simplify(g)


def eval_bool(e, pairs=()):
    g = eval_term(T.zbool(e), pairs)
    if z3.is_true(g):
        return True
    if z3.is_false(g):
        return False
    s = z3.Solver()
    s.set('timeout', 5000)
    s.add(g)
    r = s.check()
    if r == z3.unsat:
        return False
    s2 = z3.Solver()
    s2.set('timeout', 5000)
    s2.add(z3.Not(g))
    if s2.check() == z3.unsat:
        return True
    return None


def py_of_term(e):
    e = z3.simplify(e)
    if z3.is_int_value(e):
        return e.as_long()
    if z3.is_true(e):
        return True
    if z3.is_false(e):
        return False
    if z3.is_seq(e):
        s = T.as_pystr(e)
        if s is not None:
            return s
    return ('?', str(e))


def py_of_value(v, pairs):
    """Interpreter value -> Python value under the substitution."""
    if isinstance(v, Sym):
        return py_of_term(eval_term(v.e, pairs))
    if isinstance(v, tuple):
        return tuple(py_of_value(x, pairs) for x in v)
    if isinstance(v, PList):
        if v.concrete:
            return [py_of_value(x, pairs) for x in v.items]
        return py_of_term(eval_term(v.e, pairs))
    if isinstance(v, Obj):
        return ('obj', v.cls.__name__, {k: py_of_value(x, pairs) for k, x in v.attrs.items()})
    return v


def lit_pairs(bound, values):
    """[(const, literal)] for the symbolic parameters."""
    pairs = []
    for k, v in bound.items():
        if isinstance(v, Sym) and k in values:
            x = values[k]
            if isinstance(x, str):
                pairs.append((v.e, T.lit(x)))
            elif isinstance(x, bool):
                pairs.append((v.e, z3.BoolVal(x)))
            elif isinstance(x, int):
                pairs.append((v.e, z3.IntVal(x)))
    return pairs


# ---- input enumeration ----------------------------------------------------------------------------

BASE_ALPHABET = "a'\\ $#\t\"*~=%:,-é"


def strings(alphabet, maxlen):
    for n in range(maxlen + 1):
        for t in itertools.product(alphabet, repeat=n):
            yield ''.join(t)


def default_inputs(con, case, alphabet, maxlen, rng, extra=0):
    """All-string-parameter contracts: every tuple of strings up to maxlen."""
    names = con.native_params(case)
    if names is None:
        return
    pools = [list(strings(alphabet, maxlen if len(names) == 1 else max(1, maxlen - 1))) for _ in names]
    for tup in itertools.product(*pools):
        yield dict(zip(names, tup))
    for _ in range(extra):
        yield {n: ''.join(rng.choice(alphabet) for _ in range(rng.randint(maxlen + 1, maxlen + 8))) for n in names}


def native_check_one(con, case, raw):
    """Evaluate the contract on one real input. Returns None (not applicable), True, or a failure dict."""
    if hasattr(con, 'native_check'):
        return con.native_check(case, raw)
    built = con.native_build(case, raw)
    if built is None:
        return None
    call_args, a = built
    pre = eval_bool(con.requires(a))
    if pre is not True:
        return None
    try:
        res = con.native_call(case, call_args)
        exc = None
    except Exception as e:      # noqa
        res, exc = None, e
    specs = con.raises(a)
    if exc is not None:
        ok = any(isinstance(exc, k) and eval_bool(c) is True for k, c in specs)
        if ok:
            return True
        return {'contract': type(con).__name__, 'target': con.target, 'case': case, 'input': raw,
                'raised': repr(exc), 'clause': 'raises'}
    for k, c in specs:
        if eval_bool(c) is True:
            return {'contract': type(con).__name__, 'target': con.target, 'case': case, 'input': raw,
                    'result': repr(res), 'clause': 'should-raise-%s' % k.__name__}
    r = con.native_result(case, res)
    for nm, g in con.ensures(a, r).items():
        v = eval_bool(g)
        if v is False:
            out = {'contract': type(con).__name__, 'target': con.target, 'case': case, 'input': raw,
                   'result': repr(res), 'clause': nm}
            extra = con.native_explain(case, raw, res)
            if extra:
                out['explain'] = extra
            return out
    return True


def cross_check_contract(con, rep, case_inputs):
    """Leaf contracts: symbolic path results against the real function. Returns (evaluations, mismatches)."""
    evals, mism = 0, []
    by_case = {}
    for p in rep.paths:
        by_case.setdefault(p['case'], []).append(p)
    for case, inputs in case_inputs.items():
        paths = by_case.get(case, [])
        if not paths:
            continue
        bound = paths[0]['args']._d
        ghosts = paths[0]['args']._g
        pconsts = {v.e.decl().name() for v in bound.values() if isinstance(v, Sym)}
        pconsts |= {g.decl().name() for g in ghosts.values() if z3.is_expr(g) and T._is_const(g)}
        # only paths whose pc/result mention nothing but the parameters can be evaluated
        ok = True
        for p in paths:
            fc = {}
            for c in p['pc']:
                T.free_consts(c, fc)
            if not set(fc) <= pconsts:
                ok = False
        if not ok:
            continue
        for raw in inputs:
            built = con.native_build(case, raw)
            if built is None:
                continue
            call_args, a = built
            if eval_bool(con.requires(a)) is not True:
                continue
            pairs = lit_pairs(bound, call_args)
            for gname, g in ghosts.items():
                if z3.is_expr(g) and T._is_const(g) and gname in a._g:
                    pairs.append((g, a._g[gname]))
            if len(pairs) != len(pconsts):
                continue
            hit = [p for p in paths if all(eval_bool(c, pairs) is True for c in p['pc'])]
            try:
                real = ('return', con.native_call(case, call_args))
            except Exception as e:      # noqa
                real = ('raise', type(e).__name__)
            evals += 1
            if len(hit) != 1:
                mism.append({'contract': type(con).__name__, 'input': raw, 'paths_true': [p['name'] for p in hit]})
                continue
            p = hit[0]
            if p['kind'] == 'cut':
                continue
            if p['kind'].startswith('raise'):
                sym = ('raise', p['kind'].split(':')[1])
            else:
                sym = ('return', py_of_value(p['value'], pairs))
            if sym != (real[0], con.native_plain(real[1]) if real[0] == 'return' else real[1]):
                mism.append({'contract': type(con).__name__, 'input': raw, 'symbolic': sym, 'real': real})
    return evals, mism


_CTX = {}


def _job(job):
    kind, ri, case, raws = job
    rp = _CTX['reports'][ri]
    con = rp['contract']
    if kind == 'rt':
        out = []
        for raw in raws:
            try:
                out.append(native_check_one(con, case, raw))
            except Exception as e:      # noqa
                out.append({'contract': type(con).__name__, 'target': con.target, 'case': case, 'input': raw,
                            'clause': 'harness-error', 'error': repr(e)})
        return kind, ri, case, out
    ev, mm = cross_check_contract(con, rp['rep'], {case: raws})
    return kind, ri, case, (ev, mm)


def native_checks(pid, mine, registry, reports, tier, seed):
    import multiprocessing as mp
    rng = random.Random(seed)
    maxlen = 3 if tier == 'quick' else 4
    out = {'failures': [], 'encoding_mismatches': [], 'cross_check': [], 'bounded': [], 'evaluations': 0,
           'distinct_nontrivial': 0, 'rule': ''}
    distinct = set()
    jobs = []
    meta = {}
    for ri, rp in enumerate(reports):
        con = rp.get('contract')
        if con is None:
            continue
        alphabet = con.native_alphabet() or BASE_ALPHABET
        alphabet_q = alphabet[:8] if tier == 'quick' else alphabet
        meta[ri] = {'alphabet': alphabet_q, 'n': 0, 'fail': 0, 'xc': 0, 'mm': 0}
        for case in con.active_cases():
            ins = list(con.native_inputs(case, alphabet_q, maxlen, rng, 0 if tier == 'quick' else 300))
            budget = 600 if tier == 'quick' else 20000
            if not con.deductive:
                budget = 3000 if tier == 'quick' else 40000
            if len(ins) > budget:
                ins = rng.sample(ins, budget)
            chunk = getattr(con, 'native_chunk', 50)        # slow harnesses (real subprocesses): one input per job
            for k in range(0, len(ins), chunk):
                jobs.append(('rt', ri, case, ins[k:k + chunk]))
            if rp['rep'] is not None and not rp['error'] and con.deductive:
                xin = ins[:200 if tier == 'quick' else 3000]
                for k in range(0, len(xin), 50):
                    jobs.append(('xc', ri, case, xin[k:k + 50]))
    _CTX['reports'] = reports
    t0 = time.time()
    if jobs:
        ctx = mp.get_context('fork')
        with ctx.Pool(max(1, min(14, (os.cpu_count() or 2) - 2))) as pool:
            results = pool.map(_job, jobs, chunksize=1)
    else:
        results = []
    per_clause = {}
    for (kind, ri, case, res), job in zip(results, jobs):
        con = reports[ri]['contract']
        m = meta[ri]
        if kind == 'rt':
            for raw, r in zip(job[3], res):
                if r is None:
                    continue
                m['n'] += 1
                distinct.add((type(con).__name__, case, json.dumps(raw, sort_keys=True, default=str)))
                if r is not True:
                    m['fail'] += 1
                    k2 = (ri, r.get('case'), r.get('clause'))
                    per_clause[k2] = per_clause.get(k2, 0) + 1
                    if per_clause[k2] <= 40:
                        out['failures'].append(r)
        else:
            ev, mm = res
            m['xc'] += ev
            m['mm'] += len(mm)
            out['encoding_mismatches'] += mm
    for ri, m in meta.items():
        con = reports[ri]['contract']
        if m['n']:
            out['bounded'].append({'contract': type(con).__name__, 'target': con.target, 'evaluations': m['n'],
                                   'failures': m['fail'], 'bound': 'inputs of length <= %d over %r%s' %
                                   (maxlen, m['alphabet'], ' (sampled down to 600 per case)' if tier == 'quick' else
                                    ' + 300 seeded random longer inputs'),
                                   'label': 'bounded (runtime contract check on the real function; not counted as proved)'})
        if m['xc']:
            out['cross_check'].append({'contract': type(con).__name__, 'evaluations': m['xc'], 'mismatches': m['mm']})
        out['evaluations'] += m['n'] + m['xc']
    out['samples'] = [{'contract': type(reports[j[1]]['contract']).__name__, 'case': j[2], 'input': j[3][0]}
                      for j in jobs[:400:40] if j[0] == 'rt' and j[3]][:6]
    out['native_wall_s'] = round(time.time() - t0, 2)
    out['distinct_nontrivial'] = len(distinct)
    out['rule'] = ('native runs: every contract with a native harness is evaluated on the real function for argument '
                   'tuples of strings up to length %d over the contract alphabet (plus seeded random longer ones in the '
                   'thorough tier); distinct = distinct (contract, case, input) triples whose precondition holds' % maxlen)
    return out


# ---- known findings / lock ---------------------------------------------------------------------------


def load_known_findings(pid):
    p = os.path.join(VERIF, 'known_findings.json')
    if not os.path.exists(p):
        return []
    data = json.load(open(p))
    return [k for k in data.get('known', []) if k['property'] == pid]


def load_lock_full(pid):
    p = os.path.join(VERIF, 'obligations.lock.json')
    if not os.path.exists(p):
        return {}
    return json.load(open(p)).get(pid, {})


def load_lock(pid):
    return set(load_lock_full(pid).get('names', []))


def write_lock(pid, data):
    p = os.path.join(VERIF, 'obligations.lock.json')
    allv = json.load(open(p)) if os.path.exists(p) else {}
    allv[pid] = data
    with open(p, 'w') as f:
        json.dump(allv, f, indent=1, sort_keys=True)


def candidates_known(known, ob):
    import fnmatch
    return [k for k in known if 'obligation' in k and fnmatch.fnmatchcase(ob.name, k['obligation'])]


def restriction(k, ob):
    """Extra assumptions that exclude the finding's witnesses from the obligation's quantified domain."""
    import fnmatch
    from .models import any_fold
    consts = {}
    for a in list(ob.assumptions) + [ob.goal]:
        T.free_consts(a, consts)
    out = []
    for r in k.get('restrict', []):
        hit = [c for n, c in consts.items() if fnmatch.fnmatchcase(n, r['const'])]
        if not hit:
            return None
        for c in hit:
            if r['kind'] == 'no_char' and c.sort() == T.Str:
                out.append(z3.Not(any_fold(T.CharClass.of(r['char'], repr(r['char']))).state((0,), c)[0] == 1))
            elif r['kind'] == 'first_char_not_in' and c.sort() == T.Str:
                out.append(z3.Or(z3.Length(c) == 0, z3.And(*[c[0] != ord(ch) for ch in r['chars']])))
            elif r['kind'] == 'int_not_in' and c.sort() == T.Int:
                out.append(z3.And(*[c != v for v in r['values']]))
            elif r['kind'] == 'str_not_in' and c.sort() == T.Str:
                out.append(z3.And(*[c != T.lit(v) for v in r['values']]))
    return out or None


def _flat_strings(x):
    if isinstance(x, str):
        return [x]
    if isinstance(x, dict):
        return [s for v in x.values() for s in _flat_strings(v)]
    if isinstance(x, (list, tuple)):
        return [s for v in x for s in _flat_strings(v)]
    return []


def match_known_native(known, failure):
    """A native (runtime-contract) failure is attributed to a known finding only if its input is one of the
    finding's witnesses (same contract + clause, and the input satisfies the finding's witness predicate)."""
    import fnmatch
    for k, nat in [(k, n) for k in known for n in (k.get('native') or [])]:
        if nat.get('contract') != failure.get('contract'):
            continue
        if 'clause' in nat and not fnmatch.fnmatchcase(failure.get('clause', ''), nat['clause']):
            continue
        if 'case' in nat and not fnmatch.fnmatchcase(failure.get('case', ''), nat['case']):
            continue
        inp = failure.get('input') or {}
        vals = _flat_strings(inp)
        if 'contains_any' in nat and not any(any(ch in v for ch in nat['contains_any']) for v in vals):
            continue
        if 'first_char_in' in nat and not any(v[:1] and v[0] in nat['first_char_in'] for v in vals):
            continue
        if 'inputs' in nat and inp not in nat['inputs']:
            continue
        if 'input_flag' in nat and not (isinstance(inp, dict) and inp.get(nat['input_flag']) is True):
            continue
        if 'witness' in nat and any(failure.get(wk) != wv for wk, wv in nat['witness'].items()):
            continue
        return k
    return None


_WITNESS_CACHE = {}


def find_witness(pid, ob, r, mine, registry, lemmas, tier, seed):
    """Search a concrete input on which the *real* function violates the contract that owns the obligation.
    Budgeted (time and candidates) and cached per (contract, model characters)."""
    key = (ob.meta.get('contract'), ob.meta.get('lemma'), json.dumps(sorted((r.get('model') or {}).items()), default=str))
    if key not in _WITNESS_CACHE:
        _WITNESS_CACHE[key] = _find_witness(pid, ob, r, mine, registry, lemmas, tier, seed)
    return _WITNESS_CACHE[key]


def _find_witness(pid, ob, r, mine, registry, lemmas, tier, seed):
    rng = random.Random(seed)
    deadline = time.time() + (20 if tier == 'quick' else 90)
    model = r.get('model') or {}
    chars = set()
    for v in model.values():
        if isinstance(v, str):
            chars |= set(v[:8])
        elif isinstance(v, int) and 0 < v < 0x110000 and not (0xd800 <= v <= 0xdfff):
            chars.add(chr(v))
    owners = []
    tname = ob.meta.get('contract')
    for c in mine:
        if type(c).__name__ == tname:
            owners.append(c)
    if not owners:
        lem = ob.meta.get('lemma')
        for c in mine:
            if lem and lem in c.uses_lemmas():
                owners.append(c)
        if not owners:
            owners = list(mine)
    for con in owners:
        base = con.native_alphabet() or BASE_ALPHABET
        alpha = ''.join(sorted(chars)) + ''.join(ch for ch in base[:6] if ch not in chars)
        alpha = alpha[:8]
        for case in con.active_cases():
            # first: the model's own values
            cand = []
            names = con.native_params(case) or []
            mv = {}
            for nme in names:
                for k, v in model.items():
                    if k == nme or k.startswith(nme + '_'):
                        mv[nme] = v
            if names and len(mv) == len(names):
                cand.append(mv)
            n = 0
            for raw in itertools.chain(cand, con.native_inputs(case, alpha, 4 if tier == 'quick' else 5, rng, 0)):
                n += 1
                if n > 60000 or time.time() > deadline:
                    break
                try:
                    res = native_check_one(con, case, raw)
                except Exception:       # noqa
                    continue
                if res is not None and res is not True:
                    return res
    return None


def write_replay(pid, ob, r, witness, smt2):
    d = os.path.join(VERIF, 'replays', pid)
    os.makedirs(d, exist_ok=True)
    name = (ob.name if ob is not None else 'native.%s.%s.%s' % (witness.get('contract', 'x'), witness.get('case', ''),
                                                                   witness.get('clause', '')))
    safe = ''.join(ch if ch.isalnum() or ch in '._-=' else '_' for ch in name)[:150]
    path = os.path.join(d, safe + '.json')
    data = {'property': pid, 'obligation': ob.name if ob is not None else None,
            'kind': ob.kind if ob is not None else 'native',
            'meta': {k: v for k, v in (ob.meta if ob is not None else {}).items() if isinstance(v, (str, int, list))},
            'solver': {k: v for k, v in (r or {}).items() if k != 'model'},
            'model': (r or {}).get('model'),
            'witness': witness,
            'replay_cmd': './check %s --replay %s' % (pid, os.path.relpath(path, VERIF))}
    if smt2 is not None:
        data['smt2'] = smt2
    with open(path, 'w') as f:
        json.dump(data, f, indent=1, default=str, ensure_ascii=True)
    return path


def replay_file(path):
    """Re-run the witness of a replay file against the real function."""
    import importlib
    data = json.load(open(path))
    w = data.get('witness')
    if not w:
        print('replay: no concrete input recorded for obligation %s (solver said: %s)' %
              (data.get('obligation'), data.get('solver')))
        return 0
    from contracts import TABLE
    spec = TABLE[data['property']]
    for m in spec['modules']:
        mod = importlib.import_module(m)
        for c in mod.registry():
            if type(c).__name__ == w['contract']:
                res = native_check_one(c, w['case'], w['input'])
                print('replay %s on %s: %s' % (w['input'], c.target, 'contract holds' if res is True else res))
                return 1 if (res is not True and res is not None) else 0
    print('replay: contract %s not found' % w['contract'])
    return 3
