"""PyVC symbolic interpreter: executes the *real* function bodies (AST re-read from /repo on every
run) over the mixed concrete/symbolic value domain of values.py.

Forking is done by re-execution with a decision prefix (no state copying), so the host's reference
semantics give Python's aliasing semantics for lists/objects for free.

Modularity: a call to a function that has a registered contract is replaced by
    assert requires  (an obligation)  ;  fresh result  ;  assume ensures
and never looks at the callee's body.  Functions without a contract are inlined (bounded depth).
Loops over symbolic-length sequences need an invariant from the contract of the function being
verified; loops over concrete-length sequences are unrolled.
"""
import ast
import builtins
import enum
import inspect
import os
import types
import z3

from . import terms as T
from .values import (Sym, PList, PDict, Obj, Closure, BoundMethod, ExcVal, IterState, OpaqueFn, PStream,
                     SymMap, lift, tyof, fresh_sym, z3sort)

REPO = os.environ.get('PYVC_REPO', '/repo')


class OutOfSubset(Exception):
    def __init__(self, msg, node=None):
        super().__init__(msg)
        self.node = node

    def __str__(self):
        ln = getattr(self.node, 'lineno', None)
        return '%s%s' % (self.args[0], ' (line %s)' % ln if ln else '')


class ReturnSig(Exception):
    def __init__(self, v):
        self.v = v


class RaiseSig(Exception):
    def __init__(self, exc):
        self.exc = exc


class BreakSig(Exception):
    pass


class ContinueSig(Exception):
    pass


class CutSig(Exception):
    """The path ends here (loop back edge after the invariant was re-established, or assume(False))."""


class Infeasible(Exception):
    pass


# ---------------------------------------------------------------------------------------------
# source index

_FILE_AST = {}


def file_index(path):
    path = os.path.realpath(path)
    if path not in _FILE_AST:
        with open(path) as f:
            src = f.read()
        tree = ast.parse(src, path)
        idx = {}

        def walk(node, clsname, qual):
            for ch in ast.iter_child_nodes(node):
                if isinstance(ch, (ast.FunctionDef, ast.AsyncFunctionDef)):
                    q = qual + [ch.name]
                    lines = {ch.lineno} | {d.lineno for d in ch.decorator_list}
                    for ln in lines:
                        idx[ln] = (ch, clsname, '.'.join(q))
                    walk(ch, clsname, q)
                elif isinstance(ch, ast.ClassDef):
                    walk(ch, ch.name, qual + [ch.name])
                elif isinstance(ch, ast.Lambda):
                    idx.setdefault(('lambda', ch.lineno, ch.col_offset), (ch, clsname, '.'.join(qual + ['<lambda>'])))
                    walk(ch, clsname, qual)
                else:
                    walk(ch, clsname, qual)
        walk(tree, None, [])
        _FILE_AST[path] = (tree, idx, src)
    return _FILE_AST[path]


def clear_source_cache():
    _FILE_AST.clear()


class _SymGenSignal(Exception):
    def __init__(self, gen):
        self.gen = gen


class InlineInstead(Exception):
    """Raised by Contract.apply_at_call *before any effect* when the contract cannot stand for this call."""


INLINED_FILES = set()       # files of every function whose body was interpreted (for the lock's source hash)


def fn_source(fn):
    """(FunctionDef/Lambda node, class name for name mangling, qualname, file) of a real function."""
    code = fn.__code__
    path = code.co_filename
    tree, idx, _ = file_index(path)
    if code.co_name == '<lambda>':
        cands = [v for k, v in idx.items() if isinstance(k, tuple) and k[1] == code.co_firstlineno]
        if len(cands) != 1:
            raise OutOfSubset('cannot locate lambda at %s:%d' % (path, code.co_firstlineno))
        return cands[0] + (path,)
    ent = idx.get(code.co_firstlineno)
    if ent is None or ent[0].name != code.co_name:
        raise OutOfSubset('cannot locate source of %s at %s:%d' % (code.co_name, path, code.co_firstlineno))
    return ent + (path,)


SPECS_DIR = os.path.join(os.path.dirname(os.path.dirname(os.path.abspath(__file__))), 'specs') + os.sep


def in_repo(fn):
    """Functions whose source is interpreted: the repository, and the library-model classes under /verif/specs."""
    try:
        f = os.path.realpath(fn.__code__.co_filename)
        return f.startswith(os.path.realpath(REPO) + os.sep) or f.startswith(SPECS_DIR)
    except AttributeError:
        return False


def mangle(name, clsname):
    if clsname and name.startswith('__') and not name.endswith('__'):
        return '_' + clsname.lstrip('_') + name
    return name


def contains_yield(node):
    for n in ast.walk(node):
        if isinstance(n, (ast.Yield, ast.YieldFrom)):
            # ignore yields in nested defs
            return True
    return False


def own_yield(fnode):
    """True if the function body itself (not nested defs) yields."""
    def walk(n):
        for ch in ast.iter_child_nodes(n):
            if isinstance(ch, (ast.FunctionDef, ast.Lambda, ast.ClassDef)):
                continue
            if isinstance(ch, (ast.Yield, ast.YieldFrom)):
                return True
            if walk(ch):
                return True
        return False
    return walk(fnode)


def assigned_names(nodes):
    """Names (and attribute/subscript roots) assigned or mutated in a list of statements."""
    names = set()
    mut = set()

    def tgt(t):
        if isinstance(t, ast.Name):
            names.add(t.id)
        elif isinstance(t, (ast.Tuple, ast.List)):
            for e in t.elts:
                tgt(e)
        elif isinstance(t, ast.Starred):
            tgt(t.value)
        elif isinstance(t, (ast.Attribute, ast.Subscript)):
            r = t
            while isinstance(r, (ast.Attribute, ast.Subscript)):
                r = r.value
            if isinstance(r, ast.Name):
                mut.add(r.id)
    MUTATORS = {'append', 'extend', 'add', 'pop', 'remove', 'insert', 'clear', 'update', 'sort',
                'setdefault', 'popitem', 'write'}
    for st in nodes:
        for n in ast.walk(st):
            if isinstance(n, ast.Assign):
                for t in n.targets:
                    tgt(t)
            elif isinstance(n, (ast.AugAssign, ast.AnnAssign)):
                tgt(n.target)
            elif isinstance(n, ast.For):
                tgt(n.target)
            elif isinstance(n, ast.Call) and isinstance(n.func, ast.Attribute) and n.func.attr in MUTATORS:
                r = n.func.value
                while isinstance(r, (ast.Attribute, ast.Subscript)):
                    r = r.value
                if isinstance(r, ast.Name):
                    mut.add(r.id)
            elif isinstance(n, (ast.Yield, ast.YieldFrom)):
                names.add('__yield')
            elif isinstance(n, ast.NamedExpr):
                tgt(n.target)
    return names, mut


# ---------------------------------------------------------------------------------------------


class Obligation:
    def __init__(self, name, assumptions, goal, kind='post', meta=None):
        self.name, self.assumptions, self.goal, self.kind = name, list(assumptions), goal, kind
        self.meta = meta or {}

    def __repr__(self):
        return 'Obligation(%s)' % self.name


class Frame:
    def __init__(self, fname, envs, globs, clsname, node=None):
        self.fname, self.envs, self.globs, self.clsname, self.node = fname, envs, globs, clsname, node
        self.loop_ord = 0
        self.call_ord = {}
        self.yields = None

    @property
    def locals(self):
        return self.envs[0]


class PathResult:
    def __init__(self, kind, value, pc, obls, trace, frame_locals=None, notes=None):
        self.kind, self.value, self.pc, self.obls, self.trace = kind, value, pc, obls, trace
        self.locals = frame_locals
        self.notes = notes or []


class Interp:
    MAX_DEPTH = 12

    def __init__(self, contracts=None, config=None, models=None):
        from . import models as M
        from . import dictmodel     # noqa: registers the dict base handler
        self.contracts = contracts or {}       # underlying function object -> Contract
        self.config = config or {}
        self.models = M
        self.pc = []
        self.obls = []
        self.trace = []
        self.prefix = []
        self.depth = 0
        self.frames = []
        self.active = None        # Contract whose body is being verified (supplies invariants/ghost bindings)
        self.notes = []           # library models used on this path
        self.feas_checks = 0
        self.norm_cache = {}
        self.top_locals = None
        self.ghost_keys = []
        self.events = []

    # ---- path management ------------------------------------------------------------------

    def explore(self, thunk, max_paths=400):
        """Run thunk() along every feasible decision sequence; thunk returns (kind, value)."""
        results = []
        prefix = []
        while True:
            self.pc, self.obls, self.trace, self.prefix, self.notes = [], [], [], prefix, []
            self.frames, self.depth = [], 0
            self.top_locals = None
            self.events = []
            T.reset_fresh(1000)
            try:
                kind, val = thunk()
                results.append(PathResult(kind, val, list(self.pc), list(self.obls), list(self.trace),
                                          self.top_locals, list(self.notes)))
            except Infeasible:
                pass
            except CutSig:
                results.append(PathResult('cut', None, list(self.pc), list(self.obls), list(self.trace),
                                          self.top_locals, list(self.notes)))
            # backtrack
            tr = self.trace
            while tr and tr[-1][0] + 1 >= tr[-1][1]:
                tr.pop()
            if not tr:
                break
            tr[-1] = [tr[-1][0] + 1, tr[-1][1]]
            prefix = [list(x) for x in tr]
            if len(results) > max_paths:
                raise OutOfSubset('more than %d paths' % max_paths)
        return results

    def choose(self, n):
        idx = len(self.trace)
        c = self.prefix[idx][0] if idx < len(self.prefix) else 0
        self.trace.append([c, n])
        return c

    def assume(self, cond):
        cond = T.zbool(cond)
        cond = z3.simplify(T.normalize(cond, self.norm_cache))
        if z3.is_true(cond):
            return
        if z3.is_false(cond):
            raise Infeasible()
        self.pc.append(cond)

    def feasible(self):
        self.feas_checks += 1
        s = z3.Solver()
        s.set('timeout', 1500)
        for c in self.pc:
            s.add(c)
        return s.check() != z3.unsat

    def decide(self, cond):
        """Branch on a z3 Bool; returns a Python bool for this path."""
        if isinstance(cond, bool):
            return cond
        cond = z3.simplify(T.normalize(cond, self.norm_cache))
        if z3.is_true(cond):
            return True
        if z3.is_false(cond):
            return False
        c = self.choose(2)
        self.pc.append(cond if c == 0 else z3.Not(cond))
        if not self.feasible():
            raise Infeasible()
        return c == 0

    def oblige(self, name, goal, kind='assert', meta=None):
        goal = T.zbool(goal)
        g = z3.simplify(T.normalize(goal, self.norm_cache))
        if z3.is_true(g):
            # still recorded (counted as trivially discharged) so that obligation lists are stable
            pass
        self.obls.append(Obligation(name, list(self.pc), goal, kind, meta))

    def note(self, s):
        if s not in self.notes:
            self.notes.append(s)

    # ---- truthiness / lifting ---------------------------------------------------------------

    def truth(self, v, node=None):
        """z3 Bool or Python bool for bool(v)."""
        if isinstance(v, Sym):
            if v.ty == 'bool':
                return v.e
            if v.ty == 'int':
                return v.e != 0
            if v.ty == 'str' or (isinstance(v.ty, tuple) and v.ty[0] in ('seq', 'list')):
                return z3.Length(v.e) > 0
            if isinstance(v.ty, tuple) and v.ty[0] == 'enum':
                return True
            if isinstance(v.ty, tuple) and v.ty[0] == 'opaque':
                # bool() of an abstract object: some fixed truth value of that object (uninterpreted predicate)
                srt = v.e.sort()
                return z3.Function('truthy_%s' % srt.name(), srt, z3.BoolSort())(v.e)
            raise OutOfSubset('truth value of %r' % (v,), node)
        if isinstance(v, PList):
            return len(v.items) > 0 if v.concrete else z3.Length(v.e) > 0
        if isinstance(v, PDict):
            return len(v.d) > 0
        if isinstance(v, Obj):
            for nm in ('__bool__', '__len__'):
                m = self.class_attr(v.cls, nm)
                if m is not None:
                    r = self.call(BoundMethod(m, v), [], {}, node)
                    return self.truth(r, node)
            return True
        if isinstance(v, (Closure, BoundMethod, OpaqueFn, ExcVal, IterState)):
            return True
        if isinstance(v, self.models.MatchTruth):
            return self.truth(v.b, node)
        if hasattr(v, 'pyvc_truth'):
            return v.pyvc_truth(self)
        if isinstance(v, self.models.IndexedSeq):
            return True
        if isinstance(v, SymMap):
            raise OutOfSubset('truth of symbolic map', node)
        return bool(v)

    def to_bool(self, v, node=None):
        t = self.truth(v, node)
        return self.decide(t)

    # ---- attribute / class helpers ------------------------------------------------------------

    def class_attr(self, cls, name):
        for k in cls.__mro__:
            if name in k.__dict__:
                if k in (object,):
                    return None
                return k.__dict__[name]
        return None

    def getattr(self, v, name, node=None):
        if isinstance(v, Obj):
            if name in v.attrs:
                return v.attrs[name]
            if name == '__class__':
                return v.cls
            raw = self.class_attr(v.cls, name)
            if '__map' in v.attrs and not isinstance(raw, (types.FunctionType, property, classmethod, staticmethod)):
                from . import dictmodel as DM
                if name in DM.DICT_METHODS:
                    mm = DM.MapMethod(v.attrs['__map'], name)
                    mm.owner = v
                    return mm
            if raw is None:
                raise RaiseSig(ExcVal(AttributeError, (name,)))
            return self.bind_descriptor(raw, v, v.cls, node)
        if isinstance(v, (Sym, PList, PDict, SymMap, PStream)):
            return self.models.method_of(self, v, name, node)
        if isinstance(v, BoundMethod) and name == '__func__':
            return v.fn
        if isinstance(v, self.models.SuperProxy):
            return self.models.super_getattr(self, v, name, node)
        import re as _re
        if isinstance(v, _re.Pattern) and name in ('search', 'sub', 'match', 'fullmatch', 'subn', 'split', 'findall'):
            return self.models.PatternMethod(v, name)
        if isinstance(v, Closure):
            raise OutOfSubset('attribute %s of closure' % name, node)
        # concrete host object
        if isinstance(v, type) and not isinstance(v, enum.EnumMeta):
            raw = None
            for k in v.__mro__:
                if name in k.__dict__:
                    raw = k.__dict__[name]
                    break
            if raw is not None and isinstance(raw, (classmethod, staticmethod, types.FunctionType, property)):
                return self.bind_descriptor(raw, None, v, node)
        if isinstance(v, str):
            return self.models.method_of(self, v, name, node)
        try:
            r = getattr(v, name)
        except AttributeError:
            raise RaiseSig(ExcVal(AttributeError, (name,)))
        if isinstance(r, types.MethodType) and in_repo(r.__func__):
            return BoundMethod(r.__func__, r.__self__)
        return r

    def bind_descriptor(self, raw, inst, cls, node):
        if isinstance(raw, staticmethod):
            return raw.__func__
        if isinstance(raw, classmethod):
            return BoundMethod(raw.__func__, cls)
        if isinstance(raw, property):
            if inst is None:
                return raw
            return self.call(raw.fget, [inst], {}, node)
        if isinstance(raw, types.FunctionType):
            return BoundMethod(raw, inst) if inst is not None else raw
        if isinstance(raw, types.MemberDescriptorType):
            raise RaiseSig(ExcVal(AttributeError, (raw.__name__,)))
        g = getattr(type(raw), '__get__', None)
        if inst is not None and isinstance(g, types.FunctionType) and in_repo(g):
            # a descriptor class defined in the repository (e.g. PkgConfigInfo._simple_property)
            return self.call(g, [raw, inst, cls], {}, node)
        return raw

    def hasattr(self, v, name, node=None):
        if isinstance(v, Obj):
            return name in v.attrs or self.class_attr(v.cls, name) is not None
        if isinstance(v, Sym):
            if v.ty == 'str':
                return hasattr(str, name)
            if v.ty == 'int':
                return hasattr(int, name)
            raise OutOfSubset('hasattr on %r' % (v,), node)
        if isinstance(v, PList):
            return hasattr(v.cls, name)
        return hasattr(v, name)

    # ---- function calls ----------------------------------------------------------------------

    def call(self, f, args, kwargs, node=None):
        M = self.models
        if isinstance(f, BoundMethod):
            return self.call(f.fn, [f.self_] + list(args), kwargs, node)
        if isinstance(f, Closure):
            return self.call_closure(f, args, kwargs, node)
        if isinstance(f, OpaqueFn):
            return f.apply(self, args, kwargs)
        if isinstance(f, Obj) and isinstance(f.attrs.get('__call__'), OpaqueFn):
            # an abstract callable object with attributes (e.g. a tool command with a rule name)
            return f.attrs['__call__'].apply(self, args, kwargs)
        if isinstance(f, Sym) and isinstance(f.ty, tuple) and f.ty[0] == 'opaque' and f.ty[1] in M.OPAQUE_CALL:
            return M.OPAQUE_CALL[f.ty[1]](self, f, args)
        if isinstance(f, M.Model):
            return f(self, args, kwargs, node)
        if isinstance(f, types.MethodType):
            if in_repo(f.__func__):
                return self.call(f.__func__, [f.__self__] + list(args), kwargs, node)
        if self.active is not None:
            om = self.active.opaque_calls()
            try:
                h = om.get(f)
            except TypeError:
                h = None
            if h is not None:
                return h(self, args, kwargs, node)
        if isinstance(f, types.FunctionType) and in_repo(f):
            con = self.contracts.get(f)
            if con is not None:
                try:
                    return self.call_contract(con, f, args, kwargs, node)
                except InlineInstead:
                    pass        # the contract has no call-site form for these arguments: interpret the body
            return self.call_real_function(f, args, kwargs, node)
        if f is dict.__new__ or getattr(f, '__self__', None) is dict and getattr(f, '__name__', '') == '__new__':
            from .values import SymMap as _SM
            return Obj(args[0], {'__map': _SM.empty()})
        if isinstance(f, type):
            return self.instantiate(f, args, kwargs, node)
        m = M.lookup(f)
        if m is not None:
            return m(self, args, kwargs, node)
        # host callable on concrete arguments
        if M.all_concrete(args) and M.all_concrete(list(kwargs.values())) and M.pure_host(f):
            try:
                return M.from_host(f(*[M.to_host(a) for a in args], **{k: M.to_host(v) for k, v in kwargs.items()}))
            except Exception as e:       # noqa
                raise RaiseSig(ExcVal(type(e), e.args))
        raise OutOfSubset('call of unmodelled %r with symbolic arguments' % (f,), node)

    def call_real_function(self, f, args, kwargs, node):
        fnode, clsname, qual, path = fn_source(f)
        INLINED_FILES.add(path)
        # closure variables of the real function
        cenv = {}
        if f.__closure__:
            for nm, cell in zip(f.__code__.co_freevars, f.__closure__):
                try:
                    cenv[nm] = self.models.from_host(cell.cell_contents)
                except ValueError:
                    pass
        defaults = list(f.__defaults__ or ())
        kwdefaults = dict(f.__kwdefaults__ or {})
        clo = Closure(fnode, [cenv] if cenv else [], f.__globals__, clsname, qual,
                      [self.models.from_host(d) for d in defaults],
                      {k: self.models.from_host(v) for k, v in kwdefaults.items()})
        clo.real = f
        return self.call_closure(clo, args, kwargs, node)

    def bind_args(self, clo, args, kwargs, node):
        a = clo.node.args
        params = [p.arg for p in a.posonlyargs + a.args]
        env = {}
        args = list(args)
        if len(args) > len(params) and not a.vararg:
            raise RaiseSig(ExcVal(TypeError, ('too many positional arguments for %s' % clo.name,)))
        for p, v in zip(params, args):
            env[p] = v
        if a.vararg:
            env[a.vararg.arg] = tuple(args[len(params):])
        kwargs = dict(kwargs)
        for p in params[len(args):]:
            if p in kwargs:
                env[p] = kwargs.pop(p)
        nd = len(clo.defaults)
        for i, p in enumerate(params):
            if p not in env:
                di = i - (len(params) - nd)
                if di >= 0:
                    env[p] = clo.defaults[di]
                else:
                    raise RaiseSig(ExcVal(TypeError, ('missing argument %s for %s' % (p, clo.name),)))
        for p in a.kwonlyargs:
            if p.arg in kwargs:
                env[p.arg] = kwargs.pop(p.arg)
            elif p.arg in clo.kwdefaults:
                env[p.arg] = clo.kwdefaults[p.arg]
            else:
                raise RaiseSig(ExcVal(TypeError, ('missing kw argument %s' % p.arg,)))
        if a.kwarg:
            env[a.kwarg.arg] = PDict(kwargs)
        elif kwargs:
            raise RaiseSig(ExcVal(TypeError, ('unexpected keyword %s for %s' % (list(kwargs), clo.name),)))
        return env

    def call_closure(self, clo, args, kwargs, node, top=False):
        if self.depth > self.MAX_DEPTH:
            raise OutOfSubset('inlining depth exceeded at %s (recursion needs a contract)' % clo.name, node)
        va = clo.node.args.vararg if not isinstance(clo.node, ast.Lambda) else None
        if top and va is not None and va.arg in kwargs and not args:
            # verification harness: parameters are given by name, the *args tuple under its own name
            kwargs = dict(kwargs)
            extra = kwargs.pop(va.arg)
            pos = [p.arg for p in clo.node.args.posonlyargs + clo.node.args.args]
            args = [kwargs.pop(p) for p in pos] + list(extra)
        env = self.bind_args(clo, args, kwargs, node)
        fr = Frame(clo.name, [env] + list(clo.envs), clo.globs, clo.clsname, clo.node)
        self.frames.append(fr)
        self.depth += 1
        if top:
            self.top_locals = env
        try:
            if isinstance(clo.node, ast.Lambda):
                return self.eval(clo.node.body, fr)
            gen = own_yield(clo.node)
            if gen:
                fr.yields = PList([])
                env['__yield'] = fr.yields
            try:
                self.exec_block(clo.node.body, fr)
                r = None
            except ReturnSig as rs:
                r = rs.v
            if gen:
                return env['__yield']
            return r
        except OutOfSubset as e:
            if not getattr(e, 'where', None):
                e.where = ' > '.join(f.fname for f in self.frames)
                e.args = (e.args[0] + ' [in ' + e.where + ']',) + e.args[1:]
            raise
        finally:
            self.depth -= 1
            self.frames.pop()

    def instantiate(self, cls, args, kwargs, node):
        M = self.models
        if isinstance(cls, type) and issubclass(cls, BaseException):
            return ExcVal(cls, tuple(args))
        m = M.lookup(cls)
        if m is not None:
            return m(self, args, kwargs, node)
        if isinstance(cls, enum.EnumMeta):
            if M.all_concrete(args):
                try:
                    return cls(*args)
                except ValueError as e:
                    raise RaiseSig(ExcVal(ValueError, e.args))
            raise OutOfSubset('enum construction from symbolic value', node)
        mod = getattr(cls, '__module__', '')
        if mod.startswith('bfg9000') or mod.startswith('specs.'):
            if issubclass(cls, tuple) and hasattr(cls, '_fields'):     # namedtuple
                vals = list(args) + [kwargs[f] for f in cls._fields[len(args):]]
                o = Obj(cls, dict(zip(cls._fields, vals)))
                o.tuple_items = vals
                return o
            if issubclass(cls, (list, dict)) :
                m = M.lookup_base(cls)
                if m is not None:
                    return m(self, cls, args, kwargs, node)
            o = Obj(cls)
            new = self.class_attr(cls, '__new__')
            if new is not None and isinstance(new, (staticmethod, types.FunctionType)):
                raise OutOfSubset('class %s defines __new__' % cls.__name__, node)
            init = self.class_attr(cls, '__init__')
            if init is not None:
                if not isinstance(init, types.FunctionType):
                    raise OutOfSubset('non-function __init__ of %s' % cls.__name__, node)
                self.call(init, [o] + list(args), kwargs, node)
            return o
        if M.all_concrete(args) and M.all_concrete(list(kwargs.values())):
            try:
                return M.from_host(cls(*[M.to_host(a) for a in args], **{k: M.to_host(v) for k, v in kwargs.items()}))
            except Exception as e:      # noqa
                raise RaiseSig(ExcVal(type(e), e.args))
        raise OutOfSubset('constructor %r with symbolic arguments' % (cls,), node)

    # ---- contracts at call sites ----------------------------------------------------------------

    def call_contract(self, con, f, args, kwargs, node):
        fnode, clsname, qual, path = fn_source(f)
        clo = Closure(fnode, [], f.__globals__, clsname, qual,
                      [self.models.from_host(d) for d in (f.__defaults__ or ())],
                      {k: self.models.from_host(v) for k, v in (f.__kwdefaults__ or {}).items()})
        a = self.bind_args(clo, args, kwargs, node)
        fr = self.frames[-1] if self.frames else None
        site = '%s@%s' % (qual, getattr(node, 'lineno', '?'))
        return con.apply_at_call(self, a, site, fr)

    # ---- statements -------------------------------------------------------------------------------

    def exec_block(self, stmts, fr):
        for st in stmts:
            self.exec(st, fr)

    def exec(self, st, fr):
        meth = getattr(self, 'x_' + type(st).__name__, None)
        if meth is None:
            raise OutOfSubset('statement %s' % type(st).__name__, st)
        return meth(st, fr)

    def x_Expr(self, st, fr):
        if isinstance(st.value, ast.Constant):
            return
        self.eval(st.value, fr)

    def x_Pass(self, st, fr):
        pass

    def x_Return(self, st, fr):
        raise ReturnSig(self.eval(st.value, fr) if st.value is not None else None)

    def x_Break(self, st, fr):
        raise BreakSig()

    def x_Continue(self, st, fr):
        raise ContinueSig()

    def x_FunctionDef(self, st, fr):
        if st.decorator_list:
            raise OutOfSubset('decorated nested function', st)
        defaults = [self.eval(d, fr) for d in st.args.defaults]
        kwd = {a.arg: self.eval(d, fr) for a, d in zip(st.args.kwonlyargs, st.args.kw_defaults) if d is not None}
        fr.locals[st.name] = Closure(st, fr.envs, fr.globs, fr.clsname, st.name, defaults, kwd)

    def x_Assert(self, st, fr):
        c = self.truth(self.eval(st.test, fr), st)
        if not self.decide(c):
            raise RaiseSig(ExcVal(AssertionError, ()))

    def x_Raise(self, st, fr):
        if st.exc is None:
            raise OutOfSubset('bare raise', st)
        v = self.eval(st.exc, fr)
        if isinstance(v, type) and issubclass(v, BaseException):
            v = ExcVal(v, ())
        if isinstance(v, BaseException):
            v = ExcVal(type(v), v.args)
        if not isinstance(v, ExcVal):
            raise OutOfSubset('raise of non-exception %r' % (v,), st)
        raise RaiseSig(v)

    def x_If(self, st, fr):
        if self.to_bool(self.eval(st.test, fr), st):
            self.exec_block(st.body, fr)
        else:
            self.exec_block(st.orelse, fr)

    def x_Try(self, st, fr):
        if st.finalbody:
            raise OutOfSubset('try/finally', st)
        try:
            self.exec_block(st.body, fr)
        except RaiseSig as rs:
            for h in st.handlers:
                if h.type is None:
                    ok = True
                else:
                    t = self.eval(h.type, fr)
                    ts = t if isinstance(t, tuple) else (t,)
                    ok = any(isinstance(k, type) and issubclass(rs.exc.cls, k) for k in ts)
                if ok:
                    if h.name:
                        fr.locals[h.name] = rs.exc
                    self.exec_block(h.body, fr)
                    return
            raise
        else:
            self.exec_block(st.orelse, fr)

    def x_Assign(self, st, fr):
        v = self.eval(st.value, fr)
        for t in st.targets:
            self.assign(t, v, fr)

    def x_AnnAssign(self, st, fr):
        if st.value is not None:
            self.assign(st.target, self.eval(st.value, fr), fr)

    def x_AugAssign(self, st, fr):
        cur = self.eval(_load(st.target), fr)
        rhs = self.eval(st.value, fr)
        if isinstance(cur, PList) and isinstance(st.op, ast.Add):
            # list += iterable mutates in place
            self.models.list_extend(self, cur, rhs, st)
            return
        v = self.models.binop(self, st.op, cur, rhs, st)
        self.assign(st.target, v, fr)

    def assign(self, t, v, fr):
        if isinstance(t, ast.Name):
            self.store_name(t.id, v, fr)
        elif isinstance(t, (ast.Tuple, ast.List)):
            items = self.models.unpack(self, v, len(t.elts), t)
            for e, x in zip(t.elts, items):
                self.assign(e, x, fr)
        elif isinstance(t, ast.Attribute):
            o = self.eval(t.value, fr)
            name = mangle(t.attr, fr.clsname)
            if isinstance(o, Obj):
                o.attrs[name] = v
            else:
                raise OutOfSubset('attribute store on %r' % (o,), t)
        elif isinstance(t, ast.Subscript):
            o = self.eval(t.value, fr)
            k = self.eval_slice(t.slice, fr)
            self.models.setitem(self, o, k, v, t)
        else:
            raise OutOfSubset('assignment target %s' % type(t).__name__, t)

    def store_name(self, name, v, fr):
        # nonlocal not supported: always local
        fr.locals[name] = v

    def x_Delete(self, st, fr):
        for t in st.targets:
            if isinstance(t, ast.Subscript):
                o = self.eval(t.value, fr)
                k = self.eval_slice(t.slice, fr)
                self.models.delitem(self, o, k, t)
            else:
                raise OutOfSubset('del of %s' % type(t).__name__, st)

    def x_With(self, st, fr):
        raise OutOfSubset('with statement', st)

    def x_While(self, st, fr):
        if st.orelse:
            raise OutOfSubset('while/else', st)
        fr.loop_ord += 1
        lid = fr.loop_ord
        inv = self.loop_contract(fr, lid)
        if inv is None:
            # unroll while decisions are concrete or path-split (bounded)
            for _ in range(64):
                if not self.to_bool(self.eval(st.test, fr), st):
                    return
                try:
                    self.exec_block(st.body, fr)
                except BreakSig:
                    return
                except ContinueSig:
                    pass
            raise OutOfSubset('while loop needs an invariant', st)
        self.cut_loop(st, fr, lid, inv, None)

    def x_For(self, st, fr):
        if st.orelse:
            raise OutOfSubset('for/else', st)
        fr.loop_ord += 1
        lid = fr.loop_ord
        it = self.eval(st.iter, fr)
        seq = self.models.indexed(self, it, st)
        if seq.concrete_len is not None:
            for i in range(seq.concrete_len):
                self.assign(st.target, seq.get(self, i), fr)
                try:
                    self.exec_block(st.body, fr)
                except BreakSig:
                    return
                except ContinueSig:
                    continue
            return
        inv = self.loop_contract(fr, lid)
        if inv is None:
            raise OutOfSubset('loop %d of %s over a symbolic-length sequence needs an invariant' % (lid, fr.fname), st)
        self.cut_loop(st, fr, lid, inv, seq)

    def loop_contract(self, fr, lid):
        con = self.active
        if con is None or len(self.frames) < 1:
            return None
        return con.loop_invariant(fr.fname, lid)

    def cut_loop(self, st, fr, lid, inv, seq):
        """Loop cutting: assert inv on entry; havoc; assume inv; then either one iteration + assert inv (path
        ends) or exit."""
        names, mut = assigned_names(st.body)
        if isinstance(st, ast.For):
            n2, _ = assigned_names([ast.Assign(targets=[st.target], value=ast.Constant(0))])
            tgt_names = n2
        else:
            tgt_names = set()
        loc = fr.locals
        tag = '%s.loop%d' % (fr.fname, lid)
        i0 = z3.IntVal(0)
        # entry
        for nm, g in inv.at(self, fr, loc, i0, seq).items():
            self.oblige('%s.entry.%s' % (tag, nm), g, 'loop-entry', {'line': st.lineno})
        # havoc
        self.havoc(names - tgt_names, mut, loc, inv, tag, st)
        i = T.fresh('i_' + tag, T.Int)
        self.assume(i >= 0)
        if seq is not None:
            self.assume(i <= seq.length)
        for nm, g in inv.at(self, fr, loc, i, seq).items():
            self.assume(g)
        which = self.choose(2)
        if which == 0:
            # one more iteration
            if seq is not None:
                self.assume(i < seq.length)
                if not self.feasible():
                    raise Infeasible()
                self.assign(st.target, seq.get(self, i), fr)
            else:
                if not self.to_bool(self.eval(st.test, fr), st):
                    raise Infeasible()
            broke = False
            try:
                self.exec_block(st.body, fr)
            except ContinueSig:
                pass
            except BreakSig:
                broke = True
            if broke:
                return
            for nm, g in inv.at(self, fr, loc, i + 1, seq).items():
                self.oblige('%s.maintain.%s' % (tag, nm), g, 'loop-maintain', {'line': st.lineno})
            dec = inv.decreases(self, fr, loc) if seq is None else None
            raise CutSig()
        else:
            if seq is not None:
                self.assume(i == seq.length)
            else:
                if self.to_bool(self.eval(st.test, fr), st):
                    raise Infeasible()
            if not self.feasible():
                raise Infeasible()

    def havoc(self, names, mut, loc, inv, tag, node):
        for nm in sorted(names | mut):
            if nm not in loc:
                continue
            cur = loc[nm]
            ty = inv.var_types.get(nm)
            if nm in mut and nm not in names:
                # object mutated in place
                if isinstance(cur, PList):
                    ety = ty[1] if ty else cur.ety
                    if ety is None:
                        raise OutOfSubset('loop mutates list %s: element type needed (var_types)' % nm, node)
                    cur.items, cur.e, cur.ety = None, T.fresh('h_%s' % nm, z3sort(('seq', ety))), ety
                    continue
                if isinstance(cur, Obj) and inv.havoc_obj is not None:
                    inv.havoc_obj(self, nm, cur)
                    continue
                raise OutOfSubset('loop mutates %s in place' % nm, node)
            if ty is None:
                ty = tyof(cur)
                if isinstance(cur, PList):
                    ety = cur.ety
                    if ety is None:
                        raise OutOfSubset('loop assigns list %s: element type needed (var_types)' % nm, node)
                    ty = ('list', ety)
            if ty is None:
                if cur is None or isinstance(cur, (Obj,)):
                    raise OutOfSubset('loop assigns %s: type needed (var_types)' % nm, node)
                raise OutOfSubset('cannot havoc %s=%r' % (nm, cur), node)
            if isinstance(ty, tuple) and ty[0] == 'list':
                if isinstance(cur, PList):
                    cur.items, cur.e, cur.ety = None, T.fresh('h_%s' % nm, z3sort(('seq', ty[1]))), ty[1]
                else:
                    loc[nm] = PList(None, T.fresh('h_%s' % nm, z3sort(('seq', ty[1]))), ty[1])
            elif callable(ty):
                loc[nm] = ty(self, nm, cur)
            else:
                s = fresh_sym('h_%s' % nm, ty)
                if isinstance(ty, tuple) and ty[0] == 'enum':
                    self.assume(z3.And(s.e >= 0, s.e < len(list(ty[1]))))
                loc[nm] = s

    # ---- expressions -------------------------------------------------------------------------------

    def eval(self, e, fr):
        act = self.active
        if act is not None and act.expr_overrides:
            r = act.expr_override(self, e, fr)
            if r is not NotImplemented:
                return r
        meth = getattr(self, 'e_' + type(e).__name__, None)
        if meth is None:
            raise OutOfSubset('expression %s' % type(e).__name__, e)
        return meth(e, fr)

    def e_Constant(self, e, fr):
        return e.value

    def e_Name(self, e, fr):
        nm = e.id
        for env in fr.envs:
            if nm in env:
                return env[nm]
        if nm in fr.globs:
            return self.models.from_host(fr.globs[nm])
        if hasattr(builtins, nm):
            return getattr(builtins, nm)
        raise RaiseSig(ExcVal(NameError, (nm,)))

    def e_Attribute(self, e, fr):
        v = self.eval(e.value, fr)
        return self.getattr(v, mangle(e.attr, fr.clsname), e)

    def e_Tuple(self, e, fr):
        out = []
        for x in e.elts:
            if isinstance(x, ast.Starred):
                out.extend(self.models.concrete_items(self, self.eval(x.value, fr), x))
            else:
                out.append(self.eval(x, fr))
        return tuple(out)

    def e_List(self, e, fr):
        return PList(list(self.e_Tuple(e, fr)))

    def e_Set(self, e, fr):
        return self.models.make_set(self, list(self.e_Tuple(e, fr)), e)

    def e_Dict(self, e, fr):
        d = PDict()
        for k, v in zip(e.keys, e.values):
            if k is None:
                raise OutOfSubset('dict unpacking', e)
            kk = self.eval(k, fr)
            d.d[self.models.hashable(kk, e)] = self.eval(v, fr)
        return d

    def e_Lambda(self, e, fr):
        defaults = [self.eval(d, fr) for d in e.args.defaults]
        return Closure(e, fr.envs, fr.globs, fr.clsname, '<lambda>', defaults, {})

    def e_IfExp(self, e, fr):
        if self.to_bool(self.eval(e.test, fr), e):
            return self.eval(e.body, fr)
        return self.eval(e.orelse, fr)

    def e_BoolOp(self, e, fr):
        # Python semantics: returns one of the operands
        isand = isinstance(e.op, ast.And)
        v = None
        for i, x in enumerate(e.values):
            v = self.eval(x, fr)
            if i == len(e.values) - 1:
                return v
            b = self.to_bool(v, e)
            if isand and not b:
                return v
            if not isand and b:
                return v
        return v

    def e_UnaryOp(self, e, fr):
        v = self.eval(e.operand, fr)
        if isinstance(e.op, ast.Not):
            t = self.truth(v, e)
            if isinstance(t, bool):
                return not t
            return Sym(z3.Not(t), 'bool')
        if isinstance(e.op, ast.USub):
            if isinstance(v, Sym):
                return Sym(-v.e, 'int')
            return -v
        raise OutOfSubset('unary op', e)

    def e_BinOp(self, e, fr):
        a = self.eval(e.left, fr)
        b = self.eval(e.right, fr)
        return self.models.binop(self, e.op, a, b, e)

    def e_Compare(self, e, fr):
        left = self.eval(e.left, fr)
        result = None
        for op, rn in zip(e.ops, e.comparators):
            right = self.eval(rn, fr)
            r = self.models.compare(self, op, left, right, e)
            if len(e.ops) == 1:
                return r
            # chained: short circuit
            if not self.to_bool(r, e):
                return False
            result = r
            left = right
        return True if result is not None else None

    def e_Subscript(self, e, fr):
        v = self.eval(e.value, fr)
        k = self.eval_slice(e.slice, fr)
        return self.models.getitem(self, v, k, e)

    def eval_slice(self, s, fr):
        if isinstance(s, ast.Slice):
            return slice(self.eval(s.lower, fr) if s.lower else None,
                         self.eval(s.upper, fr) if s.upper else None,
                         self.eval(s.step, fr) if s.step else None)
        return self.eval(s, fr)

    def e_JoinedStr(self, e, fr):
        parts = []
        for v in e.values:
            if isinstance(v, ast.Constant):
                parts.append(v.value)
            else:
                if v.conversion != -1 or v.format_spec is not None:
                    raise OutOfSubset('f-string conversion', e)
                parts.append(self.models.to_str(self, self.eval(v.value, fr), e))
        return self.models.concat_strs(self, parts)

    def e_Call(self, e, fr):
        f = self.eval(e.func, fr)
        # exception constructors: arguments are messages; do not evaluate them
        if isinstance(f, type) and issubclass(f, BaseException):
            return ExcVal(f, ())
        if f is builtins.super:
            if e.args:
                a0 = [self.eval(x, fr) for x in e.args]
                return self.models.make_super2(self, a0[0], a0[1])
            return self.models.make_super(self, fr, e)
        args = []
        for a in e.args:
            if isinstance(a, ast.Starred):
                args.extend(self.models.concrete_items(self, self.eval(a.value, fr), a))
            else:
                args.append(self.eval(a, fr))
        kwargs = {}
        for k in e.keywords:
            if k.arg is None:
                d = self.eval(k.value, fr)
                if not isinstance(d, PDict):
                    raise OutOfSubset('** of non-dict', e)
                kwargs.update(d.d)
            else:
                kwargs[k.arg] = self.eval(k.value, fr)
        if f is builtins.hasattr:
            return self.hasattr(args[0], args[1], e)
        if f is builtins.getattr:
            try:
                return self.getattr(args[0], args[1], e)
            except RaiseSig as rs:
                if len(args) > 2 and rs.exc.cls is AttributeError:
                    return args[2]
                raise
        return self.call(f, args, kwargs, e)

    def e_ListComp(self, e, fr):
        r = self.comprehension(e, fr)
        return r if isinstance(r, PList) else PList(r)

    def e_GeneratorExp(self, e, fr):
        try:
            r = self.comprehension(e, fr)
        except _SymGenSignal as sg:
            return sg.gen
        return r if isinstance(r, PList) else PList(r)

    def e_SetComp(self, e, fr):
        return self.models.make_set(self, self.comprehension(e, fr), e)

    def e_DictComp(self, e, fr):
        d = PDict()
        pairs = self.comprehension(e, fr, dict_=True)
        for k, v in pairs:
            d.d[self.models.hashable(k, e)] = v
        return d

    def comprehension(self, e, fr, dict_=False):
        out = []
        scope = Frame(fr.fname, [dict()] + fr.envs, fr.globs, fr.clsname, fr.node)
        scope.loop_ord = fr.loop_ord

        def rec(gi):
            if gi == len(e.generators):
                if dict_:
                    out.append((self.eval(e.key, scope), self.eval(e.value, scope)))
                else:
                    out.append(self.eval(e.elt, scope))
                return
            g = e.generators[gi]
            it = self.eval(g.iter, scope)
            seq = self.models.indexed(self, it, e)
            if seq.concrete_len is None:
                if len(e.generators) == 1 and not g.ifs and not dict_ and isinstance(e, ast.GeneratorExp):
                    # a generator expression over a sequence of unknown length: kept as "element at index i"
                    # (only consumers with a pointwise contract -- min / max -- accept it)
                    def at(i, seq=seq, g=g):
                        self.assign(g.target, seq.get(self, i), scope)
                        return self.eval(e.elt, scope)
                    raise _SymGenSignal(self.models.SymGen(seq.length, at))
                raise OutOfSubset('comprehension over symbolic-length sequence', e)
            for i in range(seq.concrete_len):
                self.assign(g.target, seq.get(self, i), scope)
                if all(self.to_bool(self.eval(c, scope), e) for c in g.ifs):
                    rec(gi + 1)
        rec(0)
        return out

    def e_Yield(self, e, fr):
        # find the generator frame (nearest function frame that has a yield accumulator)
        v = self.eval(e.value, fr) if e.value is not None else None
        acc = None
        for env in fr.envs:
            if '__yield' in env:
                acc = env['__yield']
                break
        if acc is None:
            raise OutOfSubset('yield outside generator frame', e)
        self.models.list_append(self, acc, v, e)
        return None

    def e_Starred(self, e, fr):
        raise OutOfSubset('starred expression', e)

    def e_NamedExpr(self, e, fr):
        v = self.eval(e.value, fr)
        self.assign(e.target, v, fr)
        return v


def _load(t):
    import copy
    t2 = copy.copy(t)
    t2.ctx = ast.Load()
    return t2
