"""dict with a symbolic key set (SymMap) and classes derived from dict (e.g. EnvVarDict).

Library contract of `dict` used here (assumption, cross-checked natively by the contracts that use it):
pointwise updates; iteration yields each present key exactly once, in some order (ghost sequence `keys`), and
for any key x:  x is present  <=>  x occurs in `keys`.
"""
import z3
from . import terms as T
from .values import Sym, Obj, PList, PDict, SymMap, lift, z3sort, fresh_sym
from . import models as M

MAPATTR = '__map'

# x occurs among the first i iterated keys
_MEMB = {}


def memb(kty):
    key = str(kty)
    if key not in _MEMB:
        ks = z3sort(kty)
        _MEMB[key] = T.RecDef('MEMB_%s' % (kty if isinstance(kty, str) else kty[1]), [z3.SeqSort(ks), ks], T.Bool,
                              lambda keys, x: z3.BoolVal(False),
                              lambda keys, x, k, prev: z3.Or(prev, keys[k] == x))
    return _MEMB[key]


def map_of(v):
    if isinstance(v, SymMap):
        return v
    if isinstance(v, Obj) and MAPATTR in v.attrs:
        return v.attrs[MAPATTR]
    return None


def lift_val(m, v, node=None):
    try:
        return lift(v)
    except TypeError:
        raise M._oos('cannot store %r in a symbolic dict' % (v,), node)


def m_setitem(I, m, k, v, node=None):
    ke = lift(k)
    m.dom = z3.Store(m.dom, ke, z3.BoolVal(True))
    m.keys = None
    if v is None:
        if m.none is None:
            raise M._oos('None stored in a non-optional symbolic dict', node)
        m.none = z3.Store(m.none, ke, z3.BoolVal(True))
    else:
        m.val = z3.Store(m.val, ke, lift_val(m, v, node))
        if m.none is not None:
            m.none = z3.Store(m.none, ke, z3.BoolVal(False))


def m_getitem(I, m, k, node=None):
    ke = lift(k)
    if not I.decide(z3.Select(m.dom, ke)):
        raise M._raise(KeyError)
    if m.none is not None and I.decide(z3.Select(m.none, ke)):
        return None
    return M.wrap_elt(z3.Select(m.val, ke), m.vty)


def m_delitem(I, m, k, node=None):
    ke = lift(k)
    if not I.decide(z3.Select(m.dom, ke)):
        raise M._raise(KeyError)
    m.dom = z3.Store(m.dom, ke, z3.BoolVal(False))
    m.keys = None


_EMPTY = {}


def is_empty_map(m):
    """`the dict has no key` (uninterpreted; instances: empty => every given key absent; non-empty => popitem's key present)"""
    srt = m.dom.sort()
    key = str(srt)
    if key not in _EMPTY:
        _EMPTY[key] = z3.Function('dict_is_empty_%d' % len(_EMPTY), srt, T.Bool)
    return _EMPTY[key](m.dom)


def m_contains(I, m, k):
    return M.mk_bool(z3.Select(m.dom, lift(k)))


def m_clear(m):
    m.dom = z3.K(z3sort(m.kty), z3.BoolVal(False))
    m.keys = None


def m_update(I, m, other, node=None):
    o = map_of(other)
    if o is None and isinstance(other, PDict):
        for k, v in other.d.items():
            m_setitem(I, m, k, v, node)
        return
    if o is None:
        raise M._oos('dict.update from %r' % (other,), node)
    # pointwise: keys of `other` win
    ks = z3sort(m.kty)
    x = z3.Const('upd_k', ks)
    m.dom = z3.Lambda([x], z3.Or(z3.Select(o.dom, x), z3.Select(m.dom, x)))
    m.val = z3.Lambda([x], z3.If(z3.Select(o.dom, x), z3.Select(o.val, x), z3.Select(m.val, x)))
    if m.none is not None:
        on = o.none if o.none is not None else z3.K(ks, z3.BoolVal(False))
        m.none = z3.Lambda([x], z3.If(z3.Select(o.dom, x), z3.Select(on, x), z3.Select(m.none, x)))
    m.keys = None


def iter_keys(I, m):
    """IndexedSeq over the keys (ghost order)."""
    if m.keys is None:
        m.keys = T.fresh('keys', z3.SeqSort(z3sort(m.kty)))
    keys = m.keys
    mb = memb(m.kty)
    n = z3.Length(keys)
    # library contract of dict iteration, instantiated for the keys the contract is interested in
    for x in getattr(I, 'ghost_keys', []):
        I.assume(z3.Select(m.dom, x) == mb(keys, x, n))

    def get(I_, i):
        k = keys[lift(i)]
        I_.assume(z3.Select(m.dom, k))
        return M.wrap_elt(k, m.kty)
    r = M.IndexedSeq(None, n, get)
    r.keys = keys
    r.map = m
    return r


def iter_items(I, m):
    ks = iter_keys(I, m)

    def get(I_, i):
        k = ks.get(I_, i)
        ke = lift(k)
        if m.none is not None and I_.decide(z3.Select(m.none, ke)):
            return (k, None)
        return (k, M.wrap_elt(z3.Select(m.val, ke), m.vty))
    r = M.IndexedSeq(None, ks.length, get)
    r.keys = m.keys
    return r


def as_key_set(v):
    """SymMap used as a set of keys (dom only), from set(d.keys()) / d.keys() / a dict."""
    m = map_of(v)
    if m is None and isinstance(v, M.IndexedSeq) and getattr(v, 'map', None) is not None:
        m = v.map
    if m is None:
        return None
    s = SymMap(m.dom, m.val, m.kty, m.vty, None, None)
    s.is_set = True
    return s


def set_difference(a, b):
    sa, sb = as_key_set(a), as_key_set(b)
    if sa is None or sb is None:
        return None
    ks = z3sort(sa.kty)
    x = z3.Const('diff_k', ks)
    r = SymMap(z3.Lambda([x], z3.And(z3.Select(sa.dom, x), z3.Not(z3.Select(sb.dom, x)))), sa.val, sa.kty, sa.vty)
    r.is_set = True
    return r


class MapMethod(M.Model):
    def __init__(self, m, name):
        self.m, self.name = m, name

    def __call__(self, I, args, kwargs, node):
        m, name = self.m, self.name
        if name == '__setitem__':
            return m_setitem(I, m, args[0], args[1], node)
        if name == '__delitem__':
            return m_delitem(I, m, args[0], node)
        if name == '__getitem__':
            return m_getitem(I, m, args[0], node)
        if name == '__contains__':
            return m_contains(I, m, args[0])
        if name == '__init__':
            m_clear(m)
            if args:
                m_update(I, m, args[0], node)
            if kwargs:
                m_update(I, m, PDict(kwargs), node)
            return None
        if name == 'clear':
            return m_clear(m)
        if name == 'add':
            ke = lift(args[0])
            m.dom = z3.Store(m.dom, ke, z3.BoolVal(True))
            m.keys = None
            return None
        if name == 'update':
            if args:
                m_update(I, m, args[0], node)
            if kwargs:
                m_update(I, m, PDict(kwargs), node)
            return None
        if name == '__ior__':
            m_update(I, m, args[0], node)
            return self.owner if getattr(self, 'owner', None) is not None else m
        if name == 'get':
            ke = lift(args[0])
            if I.decide(z3.Select(m.dom, ke)):
                return m_getitem(I, m, args[0], node)
            return args[1] if len(args) > 1 else None
        if name == 'pop':
            ke = lift(args[0])
            if I.decide(z3.Select(m.dom, ke)):
                v = m_getitem(I, m, args[0], node)
                m_delitem(I, m, args[0], node)
                return v
            if len(args) > 1:
                return args[1]
            raise M._raise(KeyError)
        if name == 'popitem':
            emp = is_empty_map(m)
            for x in getattr(I, 'ghost_keys', []):
                I.assume(z3.Implies(emp, z3.Not(z3.Select(m.dom, x))))
            if I.decide(emp):
                raise M._raise(KeyError)
            k = fresh_sym('popped', m.kty)
            I.assume(z3.Select(m.dom, k.e))
            v = m_getitem(I, m, k, node)
            m_delitem(I, m, k, node)
            return (k, v)
        if name == 'setdefault':
            ke = lift(args[0])
            if I.decide(z3.Select(m.dom, ke)):
                return m_getitem(I, m, args[0], node)
            m_setitem(I, m, args[0], args[1] if len(args) > 1 else None, node)
            return args[1] if len(args) > 1 else None
        if name == 'keys' or name == '__iter__':
            return iter_keys(I, m)
        if name == 'items':
            return iter_items(I, m)
        if name == 'copy':
            return m.copy()
        raise M._oos('dict.%s on a symbolic dict' % name, node)


DICT_METHODS = {'add', '__setitem__', '__delitem__', '__getitem__', '__contains__', '__init__', 'clear', 'update', '__ior__',
                'get', 'pop', 'popitem', 'setdefault', 'keys', 'items', 'copy', '__iter__'}
DICT_MUTATORS = ['__setitem__', '__delitem__', 'clear', 'pop', 'popitem', 'setdefault', 'update', '__ior__']


class DictBase:
    """Handler for classes derived from dict."""

    def __call__(self, I, cls, args, kwargs, node):
        o = Obj(cls, {MAPATTR: SymMap.empty()})
        init = I.class_attr(cls, '__init__')
        import types
        if isinstance(init, types.FunctionType):
            I.call(init, [o] + list(args), kwargs, node)
        else:
            MapMethod(o.attrs[MAPATTR], '__init__')(I, args, kwargs, node)
        return o

    def super_method(self, inst, name):
        m = map_of(inst)
        if m is None:
            raise M._oos('dict method on an object without a symbolic map')
        mm = MapMethod(m, name)
        mm.owner = inst
        return mm


M._BASES[dict] = DictBase()
