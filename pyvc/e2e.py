"""End-to-end replays with the real tools (thorough tier): bfg9000 configure-into + GNU make on tiny generated
projects, for the recorded findings and for the repaired defects.  Scratch directories live under $(mktemp -d) and are
removed.  The result is *recorded* in the evidence (what the real tool did); a repaired defect that reappears is
reported by the obligations, not from here."""
import os
import shutil
import subprocess
import tempfile

REPO = os.environ.get('PYVC_REPO', '/repo')


def _run(cmd, cwd=None, timeout=180):
    env = dict(os.environ, PATH='/venv/bin:' + os.environ.get('PATH', ''), PYTHONPATH=REPO)
    p = subprocess.run(cmd, cwd=cwd, capture_output=True, text=True, timeout=timeout, env=env)
    return p.returncode, (p.stdout + p.stderr)[-1500:]


def project(files, script):
    d = tempfile.mkdtemp(prefix='bfge2e')
    os.makedirs(os.path.join(d, 'src'))
    for name, text in files.items():
        p = os.path.join(d, 'src', name)
        os.makedirs(os.path.dirname(p), exist_ok=True)
        open(p, 'w').write(text)
    open(os.path.join(d, 'src', 'build.bfg'), 'w').write(script)
    return d


def build(d, target=None):
    rc, out = _run(['/venv/bin/python', '-m', 'bfg9000.driver', 'configure-into', 'src', 'build', '--backend=make',
                    '--no-resolve-packages'], cwd=d) if False else \
        _run(['bfg9000', 'configure-into', 'src', 'build', '--backend=make', '--no-resolve-packages'], cwd=d)
    if rc != 0:
        return 'configure-failed', out
    rc, out = _run(['make', '-C', 'build'] + ([target] if target else []), cwd=d)
    return ('build-ok' if rc == 0 else 'build-failed'), out


MAIN = 'int main(void){return 0;}\n'


def replay_hash_in_option():
    d = project({'a.c': '#ifndef FOO\n#error no FOO\n#endif\n' + MAIN},
                "project('p')\nexecutable('prog', files=['a.c'], compile_options=['-DFOO=1#2'])\n")
    try:
        st, out = build(d)
        return {'replay': "compile_options=['-DFOO=1#2'] (Make backend)", 'tool_result': st, 'finding_reproduced': st == 'build-failed',
                'tail': out[-300:]}
    finally:
        shutil.rmtree(d, ignore_errors=True)


def replay_recipe_prefix():
    d = project({}, "project('p')\ncommand('hello', cmd=['@echo', 'PREFIX-EATEN-IF-THIS-IS-PRINTED-WITHOUT-AT'])\n")
    try:
        st, out = build(d, 'hello')
        eaten = 'PREFIX-EATEN' in out and '@echo' not in out.split('PREFIX-EATEN')[0][-40:]
        return {'replay': "command('hello', cmd=['@echo', ...]) (Make backend)", 'tool_result': st,
                'finding_reproduced': st == 'build-ok' and eaten, 'tail': out[-300:]}
    finally:
        shutil.rmtree(d, ignore_errors=True)


def replay_comma_in_name():
    d = project({'a,b.c': MAIN}, "project('p')\nexecutable('prog', files=['a,b.c'])\n")
    try:
        st, out = build(d)
        return {'replay': "source file named 'a,b.c' (Make backend)", 'tool_result': st, 'finding_reproduced': st == 'build-failed',
                'tail': out[-300:]}
    finally:
        shutil.rmtree(d, ignore_errors=True)


def replay_percent_in_name():
    d = project({'a%b.c': MAIN}, "project('p')\nexecutable('prog', files=['a%b.c'])\n")
    try:
        st, out = build(d)
        return {'replay': "source file named 'a%b.c' (Make backend; repaired by the fix commit)", 'tool_result': st,
                'repaired_behaviour_confirmed': st == 'build-ok', 'tail': out[-300:]}
    finally:
        shutil.rmtree(d, ignore_errors=True)


def replay_link_order():
    files = {'d1.c': 'int d1(void){return 1;}\n', 'd2.c': 'int d2(void){return 2;}\n',
             'b.c': 'int d2(void); int b(void){return d2();}\n',
             'a.c': 'int d1(void); int b(void); int a(void){return d1()+b();}\n',
             'main.c': 'int a(void); int main(void){return a()==3?0:1;}\n'}
    script = ("project('lo')\nd = static_library('d', files=['d1.c', 'd2.c'])\nb = static_library('b', files=['b.c'], libs=[d])\n"
              "a = static_library('a', files=['a.c'], libs=[d, b])\nexecutable('prog', files=['main.c'], libs=[a])\n")
    d = project(files, script)
    try:
        st, out = build(d)
        return {'replay': 'static libraries A->[D,B], B->[D] (real ar/gcc/ld through the Make backend)', 'tool_result': st,
                'finding_reproduced': st == 'build-failed' and 'undefined reference' in out, 'tail': out[-300:]}
    finally:
        shutil.rmtree(d, ignore_errors=True)


def replay_two_char_dirs():
    d = project({'ab/x.c': 'int f(void){return 1;}\n', 'cd/x.c': 'int g(void){return 2;}\n', 'main.c': MAIN},
                "project('p')\nexecutable('prog', files=['main.c', 'ab/x.c', 'cd/x.c'])\n")
    try:
        st, out = build(d)
        return {'replay': "sources ab/x.c and cd/x.c in one target (repaired by the fix commit)", 'tool_result': st,
                'repaired_behaviour_confirmed': st == 'build-ok', 'tail': out[-300:]}
    finally:
        shutil.rmtree(d, ignore_errors=True)


REPLAYS = {
    'C01': [replay_hash_in_option, replay_recipe_prefix, replay_comma_in_name],
    'C04': [replay_comma_in_name, replay_percent_in_name],
    'C05': [replay_two_char_dirs],
    'C14': [replay_link_order],
}


def run_for(pid):
    out = []
    for fn in REPLAYS.get(pid, []):
        try:
            out.append(fn())
        except Exception as e:      # noqa
            out.append({'replay': fn.__name__, 'error': repr(e)})
    return out
