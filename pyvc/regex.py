"""Regular expressions: pattern *families* recognised mechanically from CPython's own parse tree
(re._parser), with character classes taken extensionally from the running interpreter.

F1  a single character matcher (class / literal / category), optionally in one capturing group
      search(s)            -> exists a character of s in the class           (fold `any`)
      sub(template, s)     -> character homomorphism  c -> template[\\1:=c] if c in class else c
F2  (a*)(ALT)  with ALT a union of a character class, ^x, and $   and the repl function one of the two
    known templates (make escape / windows escape)  -> sequential transducer with a run-length state
F3  (^|/)X(?=/|$)  with X a fixed sequence of single-character matchers, template \\1LIT
      -> per-path-component map
F4  [class]+$   -> strip of a trailing run

Anything else: OutOfSubset (the function using it is then not verified).  The family semantics are
*assumed* contracts about `re`; every use is cross-checked against the real compiled pattern by the
encoding cross-check.
"""
import re
import re._parser as sre_parse
import re._constants as C

from .terms import CharClass

_CAT_CACHE = {}
MAXCP = 0x10ffff


def _scan(pattern):
    """Extension of a one-character pattern over all code points, from the running CPython."""
    if pattern in _CAT_CACHE:
        return _CAT_CACHE[pattern]
    rx = re.compile(pattern)
    fm = rx.fullmatch
    iv = []
    start = None
    for cp in range(MAXCP + 1):
        if fm(chr(cp)):
            if start is None:
                start = cp
        elif start is not None:
            iv.append((start, cp - 1))
            start = None
    if start is not None:
        iv.append((start, MAXCP))
    cc = CharClass(iv, pattern)
    _CAT_CACHE[pattern] = cc
    return cc


_CATS = {
    C.CATEGORY_SPACE: r'\s', C.CATEGORY_NOT_SPACE: r'\S',
    C.CATEGORY_WORD: r'\w', C.CATEGORY_NOT_WORD: r'\W',
    C.CATEGORY_DIGIT: r'\d', C.CATEGORY_NOT_DIGIT: r'\D',
}


def class_of_item(op, av):
    """CharClass of one single-character op of the parse tree, or None."""
    if op == C.LITERAL:
        return CharClass([(av, av)], repr(chr(av)))
    if op == C.NOT_LITERAL:
        return CharClass([(av, av)]).complement()
    if op == C.ANY:
        # '.' without DOTALL: everything but \n
        return CharClass([(10, 10)]).complement()
    if op == C.CATEGORY:
        return _scan(_CATS[av])
    if op == C.RANGE:
        return CharClass([av])
    if op == C.IN:
        neg = False
        acc = CharClass([])
        for o, a in av:
            if o == C.NEGATE:
                neg = True
                continue
            k = class_of_item(o, a)
            if k is None:
                return None
            acc = acc.union(k)
        acc.name = 'class'
        return acc.complement() if neg else acc
    return None


def parse(pattern, flags=0):
    p = sre_parse.parse(pattern, flags)
    if p.state.flags & ~(re.UNICODE.value):
        return None
    return list(p)


def strip_group(items):
    """If items is a single capturing group, return (inner items, group number)."""
    if len(items) == 1 and items[0][0] == C.SUBPATTERN:
        g, addf, delf, inner = items[0][1]
        if addf == 0 and delf == 0:
            return list(inner), g
    return items, None


class F1:
    def __init__(self, cls, group):
        self.cls, self.group = cls, group


class F2:
    def __init__(self, run_char, cls, start_lits, at_end):
        self.run_char, self.cls, self.start_lits, self.at_end = run_char, cls, start_lits, at_end


class F3:
    def __init__(self, sep, comp_classes):
        self.sep, self.comp_classes = sep, comp_classes


class F4:
    def __init__(self, cls):
        self.cls = cls


class F5:
    """(class | class | a$): some character in cls, or the string ends with one of end_lits."""
    def __init__(self, cls, end_lits, group):
        self.cls, self.end_lits, self.group = cls, end_lits, group


def classify(pattern, flags=0):
    items = parse(pattern, flags)
    if items is None:
        return None
    # F1
    inner, g = strip_group(items)
    if len(inner) == 1:
        k = class_of_item(*inner[0])
        if k is not None:
            return F1(k, g)
    # F5: alternation of single-character matchers and `a$`
    if len(inner) == 1 and inner[0][0] == C.BRANCH:
        cls5, ends, ok5 = CharClass([]), [], True
        for alt in inner[0][1][1]:
            alt = list(alt)
            if len(alt) == 1 and class_of_item(*alt[0]) is not None:
                cls5 = cls5.union(class_of_item(*alt[0]))
            elif len(alt) == 2 and alt[0][0] == C.LITERAL and alt[1] == (C.AT, C.AT_END):
                ends.append(alt[0][1])
            else:
                ok5 = False
        if ok5 and ends:
            cls5.name = 'F5class'
            return F5(cls5, ends, g)
    # F4: class+ $
    if (len(items) == 2 and items[0][0] == C.MAX_REPEAT and items[0][1][0] == 1 and
            items[0][1][1] == C.MAXREPEAT and len(items[0][1][2]) == 1 and
            items[1] == (C.AT, C.AT_END)):
        k = class_of_item(*items[0][1][2][0])
        if k is not None:
            return F4(k)
    # F2: (a*)(ALT)
    if (len(items) == 2 and items[0][0] == C.SUBPATTERN and items[1][0] == C.SUBPATTERN and
            items[0][1][0] == 1 and items[1][1][0] == 2):
        g1 = list(items[0][1][3])
        g2 = list(items[1][1][3])
        if (len(g1) == 1 and g1[0][0] == C.MAX_REPEAT and g1[0][1][0] == 0 and
                g1[0][1][1] == C.MAXREPEAT and len(g1[0][1][2]) == 1 and g1[0][1][2][0][0] == C.LITERAL):
            run_char = g1[0][1][2][0][1]
            alts = []
            if len(g2) == 1 and g2[0][0] == C.BRANCH:
                alts = [list(a) for a in g2[0][1][1]]
            else:
                alts = [g2]
            cls = CharClass([])
            start_lits, at_end, ok = [], False, True
            for a in alts:
                if len(a) == 1 and class_of_item(*a[0]) is not None:
                    cls = cls.union(class_of_item(*a[0]))
                elif len(a) == 2 and a[0] == (C.AT, C.AT_BEGINNING) and a[1][0] == C.LITERAL:
                    start_lits.append(a[1][1])
                elif len(a) == 1 and a[0] == (C.AT, C.AT_END):
                    at_end = True
                else:
                    ok = False
            if ok and not cls.contains(run_char):
                cls.name = 'F2class'
                return F2(run_char, cls, start_lits, at_end)
    # F3: (^|/)X(?=/|$)   -- alternatives in either order; X single-character matchers, possibly as {n} repeats
    if len(items) >= 3 and items[0][0] == C.SUBPATTERN and items[-1][0] == C.ASSERT:
        g, addf, delf, inner = items[0][1]
        if g == 1 and len(inner) == 1 and inner[0][0] == C.BRANCH:
            alts = [list(a) for a in inner[0][1][1]]
            begin = [(C.AT, C.AT_BEGINNING)]
            if len(alts) == 2 and begin in alts:
                other = alts[1] if alts[0] == begin else alts[0]
                if len(other) == 1 and other[0][0] == C.LITERAL:
                    sep = other[0][1]
                    direction, look = items[-1][1]
                    look = list(look)
                    ok = direction == 1 and len(look) == 1 and look[0][0] == C.BRANCH
                    if ok:
                        lalts = [list(a) for a in look[0][1][1]]
                        ok = (len(lalts) == 2 and [(C.LITERAL, sep)] in lalts and [(C.AT, C.AT_END)] in lalts)
                    if ok:
                        comps = []
                        for it in items[1:-1]:
                            if it[0] == C.MAX_REPEAT and it[1][0] == it[1][1] and len(it[1][2]) == 1:
                                k = class_of_item(*it[1][2][0])
                                reps = it[1][0]
                            else:
                                k, reps = class_of_item(*it), 1
                            if k is None or reps > 4:
                                ok = False
                                break
                            comps += [k] * reps
                        if ok and comps:
                            return F3(sep, comps)
    return None


def parse_template(tmpl):
    """Replacement template -> list of ('lit', str) / ('group', n); None if unsupported."""
    out = []
    i = 0
    buf = ''
    while i < len(tmpl):
        ch = tmpl[i]
        if ch == '\\':
            if i + 1 < len(tmpl) and tmpl[i + 1].isdigit():
                if buf:
                    out.append(('lit', buf))
                    buf = ''
                out.append(('group', int(tmpl[i + 1])))
                i += 2
                continue
            if i + 1 < len(tmpl) and tmpl[i + 1] == '\\':
                buf += '\\'
                i += 2
                continue
            if tmpl[i + 1:i + 3] == 'g<' and '>' in tmpl[i + 3:]:
                j = tmpl.index('>', i + 3)
                if tmpl[i + 3:j].isdigit():
                    if buf:
                        out.append(('lit', buf))
                        buf = ''
                    out.append(('group', int(tmpl[i + 3:j])))
                    i = j + 1
                    continue
            return None
        buf += ch
        i += 1
    if buf:
        out.append(('lit', buf))
    return out
