"""Obligation discharge: one killable process per obligation, several back ends.

An obligation (assumptions, goal) is discharged when  assumptions /\\ not goal  is `unsat` on some back end.
`sat` gives a candidate counter-model (to be replayed natively); `unknown`/timeout on every back end is
*undecided*, never a violation by itself.
"""
import multiprocessing as mp
import os
import subprocess
import tempfile
import time
import z3

from . import terms as T

HERE = os.path.dirname(os.path.abspath(__file__))
Z3_NEW_BIN = os.path.join(os.path.dirname(HERE), '.deps', 'z3_solver-5.1.0.0.data', 'bin', 'z3')


def to_smt2(assumptions, goal, negate=True):
    s = z3.Solver()
    for a in assumptions:
        s.add(a)
    s.add(z3.Not(goal) if negate else goal)
    return s.to_smt2()


def _model_value(v):
    if z3.is_int_value(v):
        return v.as_long()
    if z3.is_true(v):
        return True
    if z3.is_false(v):
        return False
    if z3.is_seq(v):
        s = T.as_pystr(v)
        if s is not None:
            return s
    return str(v)


_PREPARE = {}      # key -> thunk returning (assumptions, goal, negate): evaluated inside the forked worker


def _worker(conn, smt2, timeout_ms, want_model, key=None):
    try:
        t0 = time.time()
        made = None
        if smt2 is None:
            ass, goal, negate = _PREPARE[key]()
            smt2 = to_smt2(ass, goal, negate=negate)
            made = smt2
        s = z3.Solver()
        s.set('timeout', timeout_ms)
        s.from_string(smt2)
        r = s.check()
        out = {'status': str(r), 'time': time.time() - t0, 'backend': 'z3-%s/api' % z3.get_version_string()}
        if r == z3.sat and want_model:
            m = s.model()
            mv = {}
            for d in m.decls():
                if d.arity() == 0:
                    try:
                        mv[d.name()] = _model_value(m[d])
                    except Exception as e:     # noqa
                        mv[d.name()] = '?'
            out['model'] = mv
        if r == z3.unknown:
            out['reason'] = s.reason_unknown()
        if made is not None:
            out['smt2'] = made
            out['prepare_s'] = round(time.time() - t0 - out['time'], 3) if False else None
        conn.send(out)
    except Exception as e:      # noqa
        conn.send({'status': 'error', 'reason': repr(e), 'time': 0.0, 'backend': 'z3/api'})
    finally:
        conn.close()


def run_cli(cmd, smt2, timeout_s, backend):
    t0 = time.time()
    with tempfile.NamedTemporaryFile('w', suffix='.smt2', delete=False) as f:
        f.write(smt2)
        path = f.name
    try:
        p = subprocess.run(cmd + [path], capture_output=True, text=True, timeout=timeout_s + 5)
        out = p.stdout.strip().splitlines()
        st = out[0].strip() if out else 'error'
        if st not in ('sat', 'unsat', 'unknown'):
            st = 'unknown'
        return {'status': st, 'time': time.time() - t0, 'backend': backend, 'reason': (p.stderr or '')[:200]}
    except subprocess.TimeoutExpired:
        return {'status': 'unknown', 'time': time.time() - t0, 'backend': backend, 'reason': 'timeout'}
    finally:
        os.unlink(path)


def second_opinions(smt2, timeout_s):
    """Other back ends on the same SMT-LIB text: z3 4.8.12 CLI and cvc5 1.0.3."""
    res = []
    if os.path.exists('/usr/bin/z3'):
        res.append(run_cli(['/usr/bin/z3', '-T:%d' % timeout_s], smt2, timeout_s, 'z3-4.8.12/cli'))
        if res[-1]['status'] == 'unsat':
            return res
    if os.path.exists('/usr/bin/cvc5'):
        txt = smt2
        if '(set-logic' not in txt:
            txt = '(set-logic ALL)\n' + txt
        res.append(run_cli(['/usr/bin/cvc5', '--strings-exp', '--tlimit=%d' % (timeout_s * 1000)], txt, timeout_s,
                           'cvc5-1.0.3/cli'))
    return res


class Task:
    def __init__(self, key, smt2, want_model=True):
        self.key, self.smt2, self.want_model = key, smt2, want_model


def discharge_all(tasks, timeout_s=30, jobs=None, second=True, progress=None):
    """tasks: list of Task. Returns dict key -> result."""
    jobs = jobs or max(1, min(14, (os.cpu_count() or 2) - 2))
    pending = list(tasks)
    running = []
    results = {}
    ctx = mp.get_context('fork')
    while pending or running:
        while pending and len(running) < jobs:
            t = pending.pop(0)
            pc, cc = ctx.Pipe(duplex=False)
            p = ctx.Process(target=_worker, args=(cc, t.smt2, int(timeout_s * 1000), t.want_model, t.key))
            p.start()
            cc.close()
            running.append((t, p, pc, time.time()))
        still = []
        for t, p, pc, t0 in running:
            if pc.poll(0):
                try:
                    r = pc.recv()
                except EOFError:
                    r = {'status': 'error', 'reason': 'worker died', 'time': time.time() - t0, 'backend': 'z3/api'}
                p.join()
                results[t.key] = r
                if progress:
                    progress(t.key, r)
            elif not p.is_alive():
                p.join()
                results[t.key] = {'status': 'error', 'reason': 'worker died', 'time': time.time() - t0,
                                  'backend': 'z3/api'}
            elif time.time() - t0 > timeout_s + 10:
                p.kill()
                p.join()
                results[t.key] = {'status': 'unknown', 'reason': 'hard timeout', 'time': time.time() - t0,
                                  'backend': 'z3-%s/api' % z3.get_version_string()}
            else:
                still.append((t, p, pc, t0))
        running = still
        if running:
            time.sleep(0.01)
    for t in tasks:
        if t.smt2 is None and results[t.key].get('smt2'):
            t.smt2 = results[t.key].pop('smt2')
    if second:
        todo = [t for t in tasks if t.smt2 is not None and results[t.key]['status'] in ('unknown', 'error')]

        def opinions(t):
            return t, second_opinions(t.smt2, timeout_s)
        if todo:
            from concurrent.futures import ThreadPoolExecutor
            with ThreadPoolExecutor(max_workers=max(1, min(8, jobs))) as ex:
                for t, tried2 in ex.map(opinions, todo):
                    r = results[t.key]
                    tried = [r]
                    for r2 in tried2:
                        tried.append(r2)
                        if r2['status'] == 'unsat':
                            r2['earlier'] = [{'backend': x['backend'], 'status': x['status']} for x in tried[:-1]]
                            results[t.key] = r2
                            break
                    else:
                        r['others'] = [{'backend': x['backend'], 'status': x['status']} for x in tried[1:]]
    return results
